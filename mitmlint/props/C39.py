"""C39 - stream saving writes each completed flow once and keeps open flows at shutdown.

Decided by INTERPRETING ``addons/save.py::Save`` together with the stream writer it really instantiates (``io/io.py``) and
``tnetstring.dump`` (mitmlint/pyint.py, nothing is imported or run) in a world of stubs - options, a clock that shows through
``strftime``, a table of in-memory files, abstract flows, a filter language of one-letter tags - and comparing, after every hook of
a set of lifecycle histories, the records that reached the stream file(s) with what the property says (``SaveSpec``):
  R39.1 hook registry: every completion hook of every flow type (names derived from the hook classes the layers define) exists on
        Save (as a method or a class-level alias, along the MRO) and appends exactly one record of its flow - also for a flow whose
        start hook was not seen while saving was active; the plain-HTTP pair writes nothing for a websocket flow (written at
        websocket_end, not at the 101 response); a flow seen by a start hook while a stream is open - and only then - is written
        once when saving stops; no other flow hook of Save writes.
  R39.2 bookkeeping: nothing is written without a stream or after ``done()``; a completed flow is not written again at the stop;
        open flows are written exactly once at the stop and never again at a later stop; the stream writer writes one record iff
        no filter is set or the filter matches.
  R39.3 ``configure``: a filter changed / cleared while the stream is open is what the live writer uses from then on; clearing
        save_stream_file writes the open flows and stops; a writer created by rotation filters like the one before.
Because the rules look at behaviour, renamed locals / parameters, temporaries, inverted guards, extracted helpers (``_track``,
``_close_stream`` ...), base classes with ``super()`` and class-level hook aliases (``tcp_error = tcp_end``) are all transparent.
NOT decided: that the layers fire those hooks once per flow (C03/C29), flowfilter semantics, file-system behaviour, rotation
timing (only that records are neither lost nor duplicated across a rotation), the ``save.file`` command.
Bounds: the histories listed in ``_histories`` (quick) plus every interleaving of a small event alphabet up to depth 3 after
activation (thorough).
"""

from __future__ import annotations

import itertools

from ..core import AnalysisError
from ..selftest import Mutant
from ._helpers_E import class_fields
from ._helpers_E import expect
from ._helpers_E import hook_classes
from ._helpers_E import hook_name
from ._helpers_flowio import SaveSpec
from ._helpers_flowio import SaveWorld
from ._helpers_flowio import flat_stack
from ._helpers_flowio import make_flow
from ._helpers_flowio import run as run_interp

PROP = "C39"
REG = {
    "strength": "strong",
    "technique": "hook registry derived from the layers' hook classes + interpretation (pyint) of Save, the stream writer and tnetstring.dump over "
    "lifecycle histories in a stub world, compared hook by hook with an executable statement of the property",
    "claim": "every completion hook of every flow type appends exactly one record of a matching flow (plain HTTP only when flow.websocket is None), "
    "also for flows whose start was not seen; flows started while a stream is open are written once at the stop; nothing is written without a "
    "stream, after done(), by other hooks, or for non-matching flows; filter changes reach the live and the rotated writer; clearing the file "
    "option writes the open flows and stops.",
    "note": "Trusted: the addon manager invokes the Save attribute named like the hook; the layers fire each completion hook once per flow "
    "(C03, C29); the stubs and the wire-format reference in _helpers_flowio. Bounded: listed histories (quick), interleavings to depth 3 (thorough).",
}

SAVE = "mitmproxy/addons/save.py"
IO = "mitmproxy/io/io.py"
L = "mitmproxy/proxy/layers/"
# flow type -> (file defining its hook classes, start hook classes, completion hook classes, other hooks carrying the flow)
REGISTRY = {
    "http": (L + "http/_hooks.py", ["HttpRequestHook"], ["HttpResponseHook", "HttpErrorHook"],
             ["HttpRequestHeadersHook", "HttpResponseHeadersHook", "HttpConnectHook", "HttpConnectUpstreamHook", "HttpConnectedHook", "HttpConnectErrorHook"]),
    "websocket": (L + "websocket.py", [], ["WebsocketEndHook"], ["WebsocketStartHook", "WebsocketMessageHook"]),
    "tcp": (L + "tcp.py", ["TcpStartHook"], ["TcpEndHook", "TcpErrorHook"], ["TcpMessageHook"]),
    "udp": (L + "udp.py", ["UdpStartHook"], ["UdpEndHook", "UdpErrorHook"], ["UdpMessageHook"]),
    "dns": (L + "dns.py", ["DnsRequestHook"], ["DnsResponseHook", "DnsErrorHook"], []),
}
FLOWCLS = {"http": "HTTPFlow", "websocket": "HTTPFlow", "tcp": "TCPFlow", "udp": "UDPFlow", "dns": "DNSFlow"}


def _hooks(ctx):
    m = ctx.model
    start, completion, other = {}, {}, {}
    for typ, (rel, st, co, ot) in REGISTRY.items():
        defined = {c.name for c in hook_classes(m, rel) if "flow" in class_fields(c)}
        listed = set(st + co + ot)
        ctx.require(defined == listed, f"{rel}: flow-carrying hook classes changed: {sorted(defined ^ listed)} - classify them in C39.REGISTRY")
        for c in st:
            start[hook_name(m, rel, c)] = typ
        for c in co:
            completion[hook_name(m, rel, c)] = typ
        for c in ot:
            other[hook_name(m, rel, c)] = typ
    return start, completion, other


class _History:
    """One lifecycle history: the interpreted addon and the property's oracle are driven side by side."""

    def __init__(self, ctx, rule, title, where):
        self.ctx, self.rule, self.title, self.where = ctx, rule, title, where
        self.w = SaveWorld(ctx.model)
        self.spec = SaveSpec()
        self.ok = True
        self.events = 0

    def _verdict(self, status, want, what, unordered=False):
        if not self.ok:
            return
        self.events += 1
        self.ctx.cells += 1
        got, tail = self.w.new_records()
        problem = None
        if status == "missing":
            problem = f"Save has no attribute {what}: the addon manager has nothing to call"
        elif status != "ok":
            problem = f"{what.split(' raised ')[0]} raises {status.split(':', 1)[1]}"
        elif tail:
            problem = f"{what} left a partial record in the stream file"
        elif (sorted(map(str, got)) != sorted(want)) if unordered else (got != want):
            problem = f"{what} appended the records {got} to the stream file(s), the property requires {want}"
        if problem:
            self.ok = False
            self.ctx.fail(self.rule, self.where, f"history {self.title}", problem + "   [history: " + " ; ".join(self.w.trace) + "]")

    # -- events
    def cfg(self, **opts):
        st = self.w.configure(**opts)
        want = self.spec.configure(self.w.options, set(opts))
        self._verdict(st, want, self.w.trace[-1], unordered=True)

    def start(self, hook, f):
        st = self.w.hook(hook, f)
        self._verdict(st, self.spec.start(f), f"{hook}({f.id})")

    def complete(self, hook, f):
        st = self.w.hook(hook, f)
        self._verdict(st, self.spec.complete(f), f"{hook}({f.id})")

    def silent(self, hook, f):
        """a hook that is no completion (other hooks; the HTTP pair on a websocket flow)"""
        st = self.w.hook(hook, f)
        self._verdict(st, [], f"{hook}({f.id})")

    def done(self):
        st = self.w.hook("done")
        self._verdict(st, self.spec.stop(), "done()", unordered=True)

    def writer_add(self, f):
        """call the live stream writer's add() directly (the oracle: one record iff the current filter matches)"""
        if not self.ok:
            return
        s = self.w.stream_object()
        if s is None:
            raise AnalysisError("C39: no stream writer after save_stream_file was set (Save.stream moved?)")
        r = run_interp(self.w.it, self.w.it.getattr(s, "add", None, 0), f)
        self.w.trace.append(f"stream.add({f.id})")
        self._verdict("ok" if r[0] == "ok" else f"raise:{r[1]}", [f.id] if self.spec.matches(f) else [], f"stream.add({f.id})")

    def tick(self, clock):
        self.w.clock = clock
        self.w.trace.append(f"clock={clock}")

    def close(self, desc=None):
        if self.ok and desc:
            self.ctx.ok(self.rule, f"{desc} ({self.events} events)")
        return self.ok


def check(ctx):
    flat_stack(_check, ctx)


def _check(ctx):
    ctx.rule("R39.1", "every completion hook appends exactly one record of its flow (http only if flow.websocket is None), also without a start; flows started while a stream is open are written at the stop; no other hook writes")
    ctx.rule("R39.2", "nothing is written without a stream / after done(); completed flows are not written again; open flows exactly once; the writer writes iff the filter matches")
    ctx.rule("R39.3", "configure: a changed / cleared filter reaches the live writer and a rotated one; clearing save_stream_file writes the open flows and stops")
    m = ctx.model
    save = m.cls(SAVE, "Save")
    start, completion, other = _hooks(ctx)
    ctx.trust("addonmanager dispatches a hook to the addon attribute of the same name (methods, inherited methods and class-level aliases alike)")
    ctx.bounds.append("the listed histories (quick); interleavings of 8 events to depth 3 after activation (thorough); filters = one-letter tag sets")
    ctx.functions.update({f"{SAVE}::Save", f"{IO}::FilteredFlowWriter.add"})
    where = (SAVE, "Save", save)
    starts_of = {}
    for h, typ in start.items():
        starts_of.setdefault(typ, []).append(h)
    starts_of["websocket"] = starts_of.get("http", [])
    completions_of = {}
    for h, typ in sorted(completion.items()):
        completions_of.setdefault(typ, []).append(h)
    probe = SaveWorld(m)

    def flow(fid, typ, tags="x", **kw):
        return make_flow(fid, FLOWCLS[typ], tags=tags, **kw)

    def begin(h, typ, f):
        for s in starts_of.get(typ, []):
            h.start(s, f)
        if typ == "websocket":
            f.websocket = object()
            for c in completions_of.get("http", []):
                h.silent(c, f)

    # ---- R39.1 completion hooks
    for hname, typ in sorted(completion.items()):
        if not probe.has(hname):
            ctx.fail("R39.1", where, f"missing hook {hname}", f"{typ} flows completing with {hname} are never written")
            continue
        h = _History(ctx, "R39.1", f"completion {hname} under a filter", where)
        f, g = flow("f", typ, "x"), flow("g", typ, "y")
        h.cfg(save_stream_file="/dump", save_stream_filter="x")
        begin(h, typ, f)
        begin(h, typ, g)
        h.complete(hname, g)
        h.complete(hname, f)
        h.cfg(save_stream_file=None)
        good = h.close()
        h = _History(ctx, "R39.1", f"completion {hname} of a flow whose start was not seen", where)
        f, g = flow("f", typ), flow("g", typ)
        begin(h, typ, g)  # before saving is switched on
        h.cfg(save_stream_file="/dump")
        if typ == "websocket":
            f.websocket = object()
        h.complete(hname, f)
        h.complete(hname, g)
        h.cfg(save_stream_file=None)
        good = h.close() and good
        if good:
            ctx.ok("R39.1", f"completion {typ}:{hname} -> exactly one record of a matching flow, with or without a start" + (" (nothing at response/error of a websocket flow)" if typ == "websocket" else ""))

    # ---- R39.1 start hooks
    for hname, typ in sorted(start.items()):
        if not probe.has(hname):
            ctx.fail("R39.1", where, f"missing hook {hname}", f"open {typ} flows are not registered, so they are lost when saving stops")
            continue
        h = _History(ctx, "R39.1", f"flow open at the stop after {hname}", where)
        f, g = flow("f", typ), flow("g", typ, "y")
        h.cfg(save_stream_file="+/dump")
        h.start(hname, f)
        h.start(hname, g)
        h.cfg(save_stream_filter="x")
        h.cfg(save_stream_file=None)
        good = h.close()
        h = _History(ctx, "R39.1", f"{hname} while no stream is open", where)
        f = flow("f", typ)
        h.start(hname, f)
        for c in completions_of.get(typ, [])[:1]:
            if probe.has(c):
                h.complete(c, f)
        h.cfg(save_stream_file="/dump")
        h.cfg(save_stream_file=None)
        good = h.close() and good
        if good:
            ctx.ok("R39.1", f"start {typ}:{hname} -> the flow is written at the stop iff a stream was open")

    # ---- R39.1 no other flow hook writes
    others = sorted(n for n in other if probe.has(n))
    h = _History(ctx, "R39.1", "hooks that are no completion", where)
    h.cfg(save_stream_file="/dump")
    for n in others:
        f = flow(f"o-{n}", other[n])
        begin(h, other[n], f)
        h.silent(n, f)
    w = flow("w", "websocket")
    begin(h, "websocket", w)
    h.close(f"no record before completion: other flow hooks on Save {others or '(none defined)'}, response/error of a websocket flow")

    # ---- R39.2 bookkeeping
    h = _History(ctx, "R39.2", "completions without a stream and after done()", where)
    f, g, k = flow("f", "http"), flow("g", "tcp"), flow("k", "dns")
    for c in sorted(completion):
        if probe.has(c):
            h.complete(c, flow("n-" + c, completion[c]))
    h.cfg(save_stream_file="/dump")
    begin(h, "http", f)
    begin(h, "tcp", g)
    h.complete(completions_of["http"][0], f)
    h.done()
    h.complete(completions_of["tcp"][0], g)
    begin(h, "dns", k)
    h.done()
    h.cfg(save_stream_file=None)
    h.close("save_flow/done: nothing without a stream, open flows once at done(), nothing afterwards")

    h = _History(ctx, "R39.2", "stop, restart, stop", where)
    f, g = flow("f", "udp"), flow("g", "http")
    h.cfg(save_stream_file="+/dump")
    begin(h, "udp", f)
    begin(h, "http", g)
    h.complete(completions_of["http"][-1], g)
    h.cfg(save_stream_file=None)
    h.cfg(save_stream_file="+/dump")
    h.cfg(save_stream_file=None)
    h.cfg(save_stream_file="+/dump")
    h.done()
    h.close("a completed flow is not written again at the stop; open flows are written at one stop only")

    h = _History(ctx, "R39.2", "stream writer and filter", (IO, "FilteredFlowWriter.add", m.func(IO, "FilteredFlowWriter.add") if m.has(IO, "FilteredFlowWriter.add") else save))
    fx, fy = flow("fx", "http", "x"), flow("fy", "tcp", "y")
    h.cfg(save_stream_file="/dump")
    h.writer_add(fx)
    h.writer_add(fy)
    h.cfg(save_stream_filter="x")
    h.writer_add(fy)
    h.writer_add(fx)
    h.writer_add(fx)
    h.cfg(save_stream_filter="y")
    h.writer_add(fx)
    h.writer_add(fy)
    h.close("stream writer add(): one record iff no filter is set or the filter matches")

    # ---- R39.3 configure
    h = _History(ctx, "R39.3", "filter changed while the stream is open", (SAVE, "Save.configure", m.func(SAVE, "Save.configure")))
    f, g = flow("f", "http", "x"), flow("g", "dns", "y")
    h.cfg(save_stream_file="/dump")
    h.cfg(save_stream_filter="x")
    h.complete(completions_of["dns"][0], g)
    h.complete(completions_of["http"][0], f)
    h.cfg(save_stream_filter=None)
    h.complete(completions_of["dns"][0], g)
    h.cfg(save_stream_filter="y", save_stream_file="/dump")
    h.complete(completions_of["http"][0], f)
    h.complete(completions_of["dns"][-1], g)
    h.cfg(save_stream_file=None)
    h.close("configure: a changed / cleared filter is what the live writer uses")

    h = _History(ctx, "R39.3", "save_stream_file cleared", (SAVE, "Save.configure", m.func(SAVE, "Save.configure")))
    f, g, k = flow("f", "tcp"), flow("g", "udp", "y"), flow("k", "dns")
    h.cfg(save_stream_file="/dump", save_stream_filter="xz")
    begin(h, "tcp", f)
    begin(h, "udp", g)
    begin(h, "dns", k)
    h.cfg(save_stream_file=None)
    h.complete(completions_of["tcp"][0], f)
    h.cfg(save_stream_file="+/dump")
    h.cfg(save_stream_file=None)
    h.close("configure: clearing save_stream_file writes the open matching flows once and stops")

    h = _History(ctx, "R39.3", "rotation to a new file", (SAVE, "Save.maybe_rotate_to_new_file", m.func(SAVE, "Save.maybe_rotate_to_new_file") if m.has(SAVE, "Save.maybe_rotate_to_new_file") else save))
    f, g, k, o = flow("f", "http", "x"), flow("g", "tcp", "y"), flow("k", "udp", "x"), flow("o", "dns", "x")
    h.cfg(save_stream_file="/dump-%H", save_stream_filter="x")
    begin(h, "dns", o)
    h.complete(completions_of["http"][0], f)
    h.tick("02")
    h.complete(completions_of["tcp"][0], g)
    h.complete(completions_of["udp"][0], k)
    h.tick("03")
    h.cfg(save_stream_filter="x")
    h.complete(completions_of["tcp"][0], g)
    h.tick("04")
    h.cfg(save_stream_file=None)
    h.close("rotation: the new writer filters like the old one; no record lost or duplicated across rotations")

    if ctx.tier == "thorough":
        _interleavings(ctx, where, starts_of, completions_of, probe)

    expect(ctx, "R39.1", len(completion) + len(start) + 1)
    expect(ctx, "R39.2", 3)
    expect(ctx, "R39.3", 3)


def _interleavings(ctx, where, starts_of, completions_of, probe, depth=3):
    """thorough tier: every sequence of ``depth`` events after activation, two flows (a: http matching 'x', b: tcp tagged 'y')."""
    a_start, b_start = starts_of["http"][0], starts_of["tcp"][0]
    a_done, a_err = completions_of["http"][0], completions_of["http"][-1]
    b_done = completions_of["tcp"][-1]
    need = [a_start, b_start, a_done, a_err, b_done]
    if not all(probe.has(n) for n in need):
        return  # reported as missing hooks above
    alphabet = ["a+", "b+", "a.", "a!", "b.", "flt=x", "flt=-", "stop", "go", "done", "tick"]
    n = 0
    for seq in itertools.product(alphabet, repeat=depth):
        h = _History(ctx, "R39.2", "interleaving " + " ".join(seq), where)
        a, b = make_flow("a", "HTTPFlow", tags="x"), make_flow("b", "TCPFlow", tags="y")
        h.cfg(save_stream_file="+/dump-%H")
        clock = 1
        for ev in seq + ("stop",):
            if ev == "a+":
                h.start(a_start, a)
            elif ev == "b+":
                h.start(b_start, b)
            elif ev == "a.":
                h.complete(a_done, a)
            elif ev == "a!":
                h.complete(a_err, a)
            elif ev == "b.":
                h.complete(b_done, b)
            elif ev == "flt=x":
                h.cfg(save_stream_filter="x")
            elif ev == "flt=-":
                h.cfg(save_stream_filter=None)
            elif ev == "stop":
                h.cfg(save_stream_file=None)
            elif ev == "go":
                h.cfg(save_stream_file="+/dump-%H")
            elif ev == "done":
                h.done()
            elif ev == "tick":
                clock += 1
                h.tick(f"{clock:02d}")
        n += 1
        if not h.ok:
            break
    ctx.note(f"thorough: {n} interleavings of depth {depth} agree with the property's oracle")


MUTANTS = [
    Mutant("response-ignores-websocket", SAVE, "        if flow.websocket is None:\n            self.save_flow(flow)\n", "        self.save_flow(flow)\n", "R39.1"),
    Mutant("response-websocket-inverted", SAVE, "        if flow.websocket is None:\n            self.save_flow(flow)\n", "        if flow.websocket is not None:\n            self.save_flow(flow)\n", "R39.1"),
    Mutant("tcp-error-not-saved", SAVE, "    def tcp_error(self, flow: tcp.TCPFlow):\n        self.tcp_end(flow)\n", "    def tcp_error(self, flow: tcp.TCPFlow):\n        pass\n", "R39.1"),
    Mutant("dns-error-saved-twice", SAVE, "    def dns_error(self, flow: dns.DNSFlow):\n        self.save_flow(flow)\n", "    def dns_error(self, flow: dns.DNSFlow):\n        self.save_flow(flow)\n        self.dns_response(flow)\n", "R39.1"),
    Mutant("udp-error-hook-removed", SAVE, "    def udp_error(self, flow: udp.UDPFlow):\n        self.udp_end(flow)\n", "", "R39.1"),
    Mutant("request-not-registered", SAVE, "    def request(self, flow: http.HTTPFlow):\n        if self.stream:\n            self.active_flows.add(flow)\n", "    def request(self, flow: http.HTTPFlow):\n        pass\n", "R39.1"),
    Mutant("dns-request-registers-without-stream", SAVE, "    def dns_request(self, flow: dns.DNSFlow):\n        if self.stream:\n            self.active_flows.add(flow)\n", "    def dns_request(self, flow: dns.DNSFlow):\n        self.active_flows.add(flow)\n", "R39.1"),
    Mutant("websocket-message-writes", SAVE, "    def websocket_end(self, flow: http.HTTPFlow):\n", "    def websocket_message(self, flow: http.HTTPFlow):\n        self.save_flow(flow)\n\n    def websocket_end(self, flow: http.HTTPFlow):\n", "R39.1"),
    Mutant("save-flow-keeps-active", SAVE, "        else:\n            self.active_flows.discard(flow)\n", "        else:\n            pass\n", "R39.2"),
    Mutant("save-flow-no-stream-check", SAVE, "        if not self.stream:\n            return\n        try:\n", "        try:\n", "R39.2"),
    Mutant("done-does-not-clear", SAVE, "            self.active_flows.clear()\n\n", "\n", "R39.2"),
    Mutant("done-clears-before-writing", SAVE, "            for f in self.active_flows:\n                self.stream.add(f)\n            self.active_flows.clear()\n", "            self.active_flows.clear()\n            for f in self.active_flows:\n                self.stream.add(f)\n", "R39.2"),
    Mutant("done-keeps-stream", SAVE, "            self.stream.fo.close()\n            self.stream = None\n\n    @command", "            self.stream.fo.close()\n\n    @command", "R39.2"),
    Mutant("done-closes-before-writing", SAVE, "            for f in self.active_flows:\n                self.stream.add(f)\n            self.active_flows.clear()\n\n            self.current_path = None\n            self.stream.fo.close()\n",
           "            self.stream.fo.close()\n            for f in self.active_flows:\n                self.stream.add(f)\n            self.active_flows.clear()\n\n            self.current_path = None\n", "R39.2"),
    Mutant("done-skips-open-flows", SAVE, "            for f in self.active_flows:\n                self.stream.add(f)\n", "", "R39.2"),
    Mutant("filter-inverted", IO, "        if self.flt and not flowfilter.match(self.flt, f):\n            return\n        d = f.get_state()\n        tnetstring.dump(d, self.fo)\n        self.fo.flush()",
           "        if self.flt and flowfilter.match(self.flt, f):\n            return\n        d = f.get_state()\n        tnetstring.dump(d, self.fo)\n        self.fo.flush()", "R39.2"),
    Mutant("filter-ignored", IO, "        if self.flt and not flowfilter.match(self.flt, f):\n            return\n        d = f.get_state()\n        tnetstring.dump(d, self.fo)\n        self.fo.flush()",
           "        d = f.get_state()\n        tnetstring.dump(d, self.fo)\n        self.fo.flush()", "R39.2"),
    Mutant("configure-filter-not-installed", SAVE, "                assert self.stream\n                self.stream.flt = self.filt\n", "                assert self.stream\n", "R39.3"),
    Mutant("configure-no-done-on-clear", SAVE, "            else:\n                self.done()\n", "            else:\n                pass\n", "R39.3"),
    Mutant("configure-filter-not-cleared", SAVE, "            else:\n                self.filt = None\n", "            else:\n                pass\n", "R39.3"),
    Mutant("rotated-writer-without-filter", SAVE, "io.FilteredFlowWriter(f, self.filt)", "io.FilteredFlowWriter(f, None)", "R39.3"),
]
