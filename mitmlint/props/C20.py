"""C20 - proxy authentication is enforced on every entry path.

Decided:
  R20.1 registry: ``ProxyAuth()`` is a default addon and implements the three methods the hook classes dispatch to
        (HttpRequestHeadersHook -> requestheaders, HttpConnectHook -> http_connect, Socks5AuthHook -> socks5_auth);
        ``Socks5AuthData.valid`` defaults to False (no addon => not authenticated).
  R20.2 enforcement in the core ("deny mode": a client that never authenticates):
        HTTP   typestate exploration of the HttpStream model (every requestheaders / http_connect hook leaves the auth-required
               response on the flow) - no reachable transition yields GetHttpConnection, OpenConnection, a SendHttp to the server
               or starts a child layer; a request that is read to its end is answered (response headers sent to the client); a
               refused CONNECT fires HttpConnectErrorHook.
        SOCKS5 ``Socks5Proxy`` is *interpreted* (pyint; helpers, tables, match, renamed private methods are followed like the
               original) with proxyauth set on every handshake of the shared SOCKS5 domain, on clients that try to skip the
               authentication step, and on several segmentations each: method 0x02 is the only one offered;
               ``server.address`` / OpenConnection / the next layer are reached only after a Socks5AuthHook whose credentials the
               hook accepted; refused credentials => reply 01 01, the client connection is closed, the layer has ended (later
               data has no effect).
  R20.3 decision tables of ProxyAuth: requestheaders / http_connect / authenticate_http / socks5_auth are interpreted on concrete
        flows over validator {unset, accepting exactly one pair, raising} x 14 credential placements {missing, empty, malformed
        base64, other scheme, no colon, wrong, valid (password with ':'), in the other header, ...} x connection {authenticated
        before, not} x replay x every ProxyMode class: authentication is skipped only without validator, for connections in
        ``self.authenticated`` or replays; accepted => no response, the mode's credential header deleted (the other one kept);
        everything else (exceptions of the parser / validator included) => ``flow.response`` = 407 + Proxy-Authenticate for
        Regular/Upstream, 401 + WWW-Authenticate otherwise; ``self.authenticated`` / ``data.valid`` written only on success.
  R20.4 the decoded Basic credentials are split at the FIRST colon only (F-C20, repaired): 8 (user, password) pairs with colons in
        the password reach the validator unchanged (interpreted end to end through requestheaders).
  R20.5 ``ProxyAuth()`` precedes ``UpstreamAuth()`` in ``default_addons`` (the client's Proxy-Authorization is consumed and
        removed before upstream credentials are attached).
  R20.6 an unauthenticated request is answered, never aborted: no exception escapes the HttpStream model in deny mode
        (F-C20b: start_request_stream raises when stream_large_bodies turned streaming on before the 407 was set).
  R20.7 histories: the hook methods interpreted over every sequence of <= 3 hook invocations on one connection.
NOT decided: validator implementations (htpasswd, LDAP), non-HTTP payloads in reverse mode, addons that remove
``flow.response`` again after ProxyAuth, SOCKS5 streams outside the domain.
"""

from __future__ import annotations

import ast
from types import SimpleNamespace as _NS

from ..httpstream import HttpStreamSpec
from ..httpstream import init_env
from ..httpstream import REL as HTTP
from ..layerx import EV
from ..layerx import explore
from ..layerx import Monitor
from ..model import attr_chain
from ..model import last_attr
from ..model import qual_of
from ..paths import C
from ..paths import is_const
from ..paths import R
from ..paths import UNKNOWN
from ..core import AnalysisError
from ..pyint import ClassRef
from ..pyint import DictRec
from ..pyint import Raised
from ..pyint import Rec
from ..selftest import Mutant
from ._helpers_C import ADDONS_INIT
from ._helpers_C import cut
from ._helpers_C import default_addon_order
from ._helpers_C import hook_method_sem
from ._helpers_C import LayerInterp
from ._helpers_C import mode_classes
from ._helpers_C import MODES
from ._helpers_C import OpenRec
from ._helpers_C import socks5_auth_msg
from ._helpers_C import socks5_boundaries
from ._helpers_C import socks5_domain
from ._helpers_C import socks5_reference
from ._helpers_C import socks5_request
from ._helpers_C import Socks5Cfg
from ._helpers_C import Socks5World

PROP = "C20"
REG = {
    "strength": "partial",
    "technique": "typestate exploration of the HttpStream model in 'deny mode' + interpretation (pyint) of Socks5Proxy with proxyauth set "
    "over a domain of handshakes x segmentations + decision tables of ProxyAuth's hook methods by interpreting them on concrete flows "
    "(validator x credential placement x mode x authenticated x replay, histories of <= 3 hooks) + addon/hook registry",
    "claim": "with proxyauth set and a client that never presents accepted credentials no reachable transition of the extracted "
    "HttpStream model and no interpreted run of Socks5Proxy forwards anything upstream or starts a child layer, and a completed request "
    "is answered; ProxyAuth's methods reject in every cell except validator-accepted credentials, authenticated connections and replays, "
    "remove the credential header on success, answer 407/401 per mode and split credentials at the first colon only.",
    "note": "The HttpStream model is an over-approximation extracted from source on every run (refinements listed in the evidence); the SOCKS5 "
    "and ProxyAuth rules are bounded by their listed domains. Validators, base64 decoding and the addon manager's dispatch are trusted.",
}

PA = "mitmproxy/addons/proxyauth.py"
HK = "mitmproxy/proxy/layers/http/_hooks.py"
FORWARD = ("getconn", "open", "child_start")


# ---------------------------------------------------------------------------------------------------
# R20.2 / R20.6  HTTP: deny-mode exploration of HttpStream


class DenyHttpSpec(HttpStreamSpec):
    """HttpStream model in which ProxyAuth refuses: after HttpRequestHeadersHook / HttpConnectHook ``flow.response`` is the
    auth-required response (status 407/401); other addons do not remove it; streaming flags stay arbitrary."""

    AUTH_HOOKS = ("HttpRequestHeadersHook", "HttpConnectHook")

    def value(self, expr, st, depth):
        # `a and b` / `a or b` evaluate to one of their operands: exact whenever the operands up to the deciding one are known constants
        # (a decision split into temporaries - `busy = x in (..)`; `flag = isinstance(..) and busy and not done` - stays decided)
        if isinstance(expr, ast.BoolOp):
            is_and = isinstance(expr.op, ast.And)
            last = None
            for operand in expr.values:
                v = self.value(operand, st, depth)
                if not is_const(v):
                    last = None
                    break
                if bool(v[1]) != is_and:
                    return v
                last = v
            if last is not None:
                return last
        return HttpStreamSpec.value(self, expr, st, depth)

    def events(self, node, st):
        out = HttpStreamSpec.events(self, node, st)
        if isinstance(node, ast.Raise):
            out.append(("raise", last_attr(node.exc) if node.exc is not None else "?", qual_of(node)))
        return out

    def effect(self, stmt, st, depth):
        if isinstance(stmt, ast.Expr) and isinstance(stmt.value, ast.Yield) and isinstance(stmt.value.value, ast.Call):
            name = last_attr(stmt.value.value.func)
            if name.endswith("Hook"):
                for k in ("self.flow.request.stream", "self.flow.response.stream"):
                    st = st.set(k, UNKNOWN)
                if name in self.AUTH_HOOKS:
                    st = st.set("self.flow.response", C(True))
                return st
        return HttpStreamSpec.effect(self, stmt, st, depth)

    def decide_extra(self, cond, st, depth):
        # the auth-required response has status 407 or 401 (R20.3 checks that table)
        if isinstance(cond, ast.Compare) and st.get("self.flow.response") == C(True):
            operands = [cond.left] + list(cond.comparators)
            if any(attr_chain(o) == "self.flow.response.status_code" for o in operands):
                res = []
                for status in (407, 401):
                    vals = []
                    for o in operands:
                        if attr_chain(o) == "self.flow.response.status_code":
                            vals.append(status)
                        elif isinstance(o, ast.Constant) and isinstance(o.value, int):
                            vals.append(o.value)
                        else:
                            return HttpStreamSpec.decide_extra(self, cond, st, depth)
                    ok = True
                    for (a, b), op in zip(zip(vals, vals[1:]), cond.ops):
                        table = {ast.Lt: a < b, ast.LtE: a <= b, ast.Gt: a > b, ast.GtE: a >= b, ast.Eq: a == b, ast.NotEq: a != b}
                        if type(op) not in table:
                            return HttpStreamSpec.decide_extra(self, cond, st, depth)
                        ok = ok and table[type(op)]
                    res.append(ok)
                if res[0] == res[1]:
                    return res[0]
        return HttpStreamSpec.decide_extra(self, cond, st, depth)


class DenyMonitor(Monitor):
    """mon = (client phase, flags)."""

    init = ("new", frozenset())

    def __init__(self):
        self.excs = []

    def offers(self, env, mon):
        phase, flags = mon
        if flags & {"dropped", "passthrough", "over"}:
            return []
        if phase == "new":
            return [EV("Start")]
        if phase == "started":
            return [EV("RequestHeaders", end_stream=True, replay_flow=None), EV("RequestHeaders", end_stream=False, replay_flow=None)]
        out = []
        if phase == "headers":
            out += [EV("RequestData"), EV("RequestTrailers"), EV("RequestEndOfMessage")]
        if phase in ("headers", "eom") and "cerr" not in flags:
            out.append(EV("RequestProtocolError"))
        return out

    def step(self, mon, ev, trace, env, report, exc=None):
        phase, flags = mon
        flags = set(flags)
        kind = ev[1]
        if kind == "Start":
            phase = "started"
        elif kind == "RequestHeaders":
            phase = "headers"
        elif kind == "RequestEndOfMessage":
            phase = "eom"
        elif kind == "RequestProtocolError":
            flags.add("cerr")
        hooks = [e[1] for e in trace if e[0] == "hook"]
        for e in trace:
            if e[0] in FORWARD or (e[0] == "send" and e[2] == "server"):
                report(f"R20.2 {e} is reachable although the client never authenticated")
            elif e[0] == "send" and e[1] == "ResponseHeaders" and e[2] == "client":
                flags.add("answered")
            elif e[0] == "drop":
                flags.add("dropped")
            elif e[0] == "set" and e[1] == "self._handle_event" and e[2] == "self.passthrough":
                flags.add("passthrough")
        if exc is not None:
            site = next((e[2] for e in reversed(trace) if e[0] == "raise" and e[1] == exc), "an implicit edge")
            self.excs.append((exc, kind, site))
            report(f"R20.6 {kind}: {exc} raised in {site} escapes HttpStream (unauthenticated request, deny mode)")
            return None
        killed = any(e[0] == "send" and e[1] == "ResponseProtocolError" and e[2] == "client" for e in trace)
        if "HttpConnectHook" in hooks:
            flags.add("over")
            if env.get("self.client_state") != R("self.state_errored"):
                report("R20.2 refused CONNECT leaves the stream in a live client state")
            if not killed:  # (killed: the client went away / the flow was killed while the hook ran)
                if "HttpConnectErrorHook" not in hooks:
                    report("R20.2 refused CONNECT does not end in HttpConnectErrorHook")
                if "answered" not in flags:
                    report("R20.2 refused CONNECT is not answered")
        errored = env.get("self.client_state") == R("self.state_errored")
        if phase == "eom" and kind == "RequestEndOfMessage" and not errored and "dropped" not in flags and "answered" not in flags:
            report("R20.2 unauthenticated request was read completely but no response was sent to the client")
        return (phase, frozenset(flags))


def r20_2_http(ctx):
    spec = DenyHttpSpec(ctx.model)
    entry = ctx.func(HTTP, "HttpStream._handle_event")
    for n in ("state_wait_for_request_headers", "state_consume_request_body", "start_request_stream", "handle_connect", "handle_connect_regular",
              "handle_connect_upstream", "handle_connect_finish", "make_server_connection", "check_body_size", "check_killed", "send_response"):
        ctx.func(HTTP, f"HttpStream.{n}")
    mon = DenyMonitor()
    res = explore(spec, entry, init_env(), mon)
    ctx.paths += res["transitions"]
    ctx.require(res["states"] >= 8, f"deny-mode exploration of HttpStream collapsed to {res['states']} states")
    ctx.note(f"HTTP deny mode: {res['states']} abstract states, {res['transitions']} transitions, inlined {res['inlined']}")
    ctx.assume("deny mode: every requestheaders / http_connect hook leaves the auth-required response (status 407/401) on the flow; "
               "no other addon removes it; request/response streaming flags are arbitrary")
    seen = set()
    n = {"R20.2": 0, "R20.6": 0}
    for v in res["violations"]:
        rule, msg = v["message"].split(" ", 1)
        if (rule, msg) in seen:
            continue
        seen.add((rule, msg))
        n[rule] += 1
        hist = " ; ".join(f"{k}->{[e for e in t if e[0] in ('hook', 'getconn', 'open', 'child_start', 'send')]}" for k, t in v["history"])
        ctx.fail(rule, (HTTP, "HttpStream", entry), msg, f"reachable in the extracted model via: {hist}", history=v["history"])
    if not n["R20.2"]:
        ctx.ok("R20.2", f"HTTP: {res['transitions']} deny-mode transitions of HttpStream, nothing forwarded, completed requests answered, CONNECT refused")
    if not n["R20.6"]:
        ctx.ok("R20.6", f"HTTP: no exception escapes HttpStream on {res['transitions']} deny-mode transitions")


# ---------------------------------------------------------------------------------------------------
# R20.2  SOCKS5: the layer is interpreted (pyint) with proxyauth configured; whatever the client sends, in whatever segmentation


def socks_cases(thorough):
    """(name, stream, cfg): every handshake of the shared SOCKS5 domain that runs with proxyauth, each also against a hook that
    refuses everything, plus clients that try to get past the authentication step."""
    V4 = socks5_request(1, bytes([10, 0, 0, 1]), 80)
    ok = socks5_auth_msg(b"user", b"p:w")
    out = []
    for name, stream, cfg in socks5_domain(thorough):
        if cfg.proxyauth:
            out.append((name, stream, cfg))
            if cfg.accept is not None:
                out.append((name + " (hook refuses)", stream, Socks5Cfg(True, None, cfg.eager, cfg.err)))
    deny = Socks5Cfg(True, None)
    lazy_deny = Socks5Cfg(True, None, eager=False)
    some = Socks5Cfg(True, ("user", "p:w"), eager=False)
    out += [
        ("request instead of credentials", b"\x05\x01\x02" + V4 + V4 + b"GET / HTTP/1.1\r\n\r\n", lazy_deny),
        ("no-auth method only, then request", b"\x05\x01\x00" + V4 + b"data", deny),
        ("both methods offered, request pipelined", b"\x05\x02\x00\x02" + V4 + V4, lazy_deny),
        ("refused, then valid credentials pipelined", b"\x05\x01\x02" + socks5_auth_msg(b"user", b"bad") + ok + V4 + b"x", some),
        ("refused, request pipelined", b"\x05\x01\x02" + socks5_auth_msg(b"a", b"b") + V4 + b"payload", lazy_deny),
        ("empty credentials, request pipelined", b"\x05\x01\x02" + socks5_auth_msg(b"", b"") + V4 + b"payload", some),
        ("accepted after greeting with many methods", b"\x05\x03\x00\x01\x02" + ok + V4 + b"x", some),
    ]
    return out


def r20_2_socks(ctx):
    thorough = ctx.tier == "thorough"
    ctx.func(MODES, "Socks5Proxy._handle_event")
    world = Socks5World(ctx.model)
    where = (MODES, "Socks5Proxy", ctx.model.cls(MODES, "Socks5Proxy"))
    ctx.assume("SOCKS5: proxyauth configured => the option is registered; the Socks5AuthHook sets data.valid exactly for the credentials the validator accepts (R20.3)")
    bad = {}
    n_runs = n_deny = n_ok = n_nomethod = 0
    gate = ("open", "child_start", "child_data", "child_event")
    for name, stream, cfg in socks_cases(thorough):
        segs = [(), tuple(range(1, len(stream)))] + [(i,) for i in socks5_boundaries(stream, cfg) if 0 < i < len(stream)]
        bnd = [i for i in socks5_boundaries(stream, cfg) if 0 < i < len(stream)]
        if len(bnd) > 1:
            segs.append(tuple(bnd))
        segs += [(i,) for i in range(1, len(stream), 3 if not thorough else 1)]
        for cuts in dict.fromkeys(segs):
            steps, final = world.run(cut(stream, cuts), cfg, expect_done=socks5_reference(stream, cfg)["state"] == "done")
            n_runs += 1
            tag = f"{name} [{cfg!r}], stream {stream.hex(' ')} cut at {list(cuts) if len(cuts) < 8 else 'every byte'}"
            trace = [e for st in steps for e in st.trace]
            exc = next((st.exc for st in steps if st.exc), None)
            if exc:
                bad.setdefault(f"{exc} escapes the SOCKS5 layer", tag)
                continue
            authed = False
            refused_at = None
            addr_seen = False
            for i, e in enumerate(trace):
                if e[0] == "hook":
                    if cfg.valid(e[2], e[3]):
                        authed = True
                        n_ok += 1
                    else:
                        n_deny += 1
                        refused_at = i
                        rest = [x for x in trace[i + 1 :] if x[0] in ("send", "close", "open", "hook") + gate]
                        if rest[:2] != [("send", "client", b"\x01\x01"), ("close", "client")]:
                            bad.setdefault("failed authentication is not answered with 01 01 and closing the client connection", tag + f": {rest[:3]}")
                        if len(rest) > 2:
                            bad.setdefault("request processing continues after a failed authentication", tag + f": {rest[2:5]}")
                elif e[0] in gate and not authed:
                    bad.setdefault(f"{e[0]} reached without a successful Socks5AuthHook", tag)
                elif e[0] == "send" and e[1] == "client" and i == next((j for j, x in enumerate(trace) if x[0] == "send"), -1):
                    if e[2][:2] == b"\x05\xff":
                        n_nomethod += 1
                    elif e[2][:2] != b"\x05\x02":
                        bad.setdefault(f"method selection {e[2][:2].hex(' ')} offered although proxyauth is set", tag)
            if any(st.addr_writes for st in steps) and not authed:
                bad.setdefault("context.server.address is set without a successful Socks5AuthHook", tag)
            if final == "child" and not authed:
                bad.setdefault("the connection is handed to the next layer without a successful Socks5AuthHook", tag)
            if refused_at is not None and final != "done":
                bad.setdefault("failed authentication does not end the layer (later data is still processed)", tag)
    ctx.paths += n_runs
    ctx.functions.update(f"{rel}::{q}" for rel, q in world.it.seen_funcs if rel == MODES)
    if not bad:
        ctx.require(n_deny >= 20 and n_ok >= 20 and n_nomethod >= 2, f"SOCKS5 deny-mode domain lost its coverage (refused hooks={n_deny}, accepted={n_ok}, no acceptable method={n_nomethod})")
    for msg, tag in sorted(bad.items()):
        ctx.fail("R20.2", where, "SOCKS5: " + msg, "an unauthenticated SOCKS5 client gets further than the authentication step - first case: " + tag)
    if not bad:
        ctx.ok("R20.2", f"SOCKS5: {n_runs} interpreted runs with proxyauth set; only method 02 offered; destination / OpenConnection / next layer only after a Socks5AuthHook "
               f"with accepted credentials ({n_ok}); {n_deny} refusals => 01 01, close, layer ended")
    ctx.bounds.append("R20.2 SOCKS5: the streams of the shared SOCKS5 domain that run with proxyauth (+ each with a hook refusing everything) and 7 bypass attempts; whole, byte-by-byte, "
                      "message boundaries and single cuts")


# ---------------------------------------------------------------------------------------------------
# R20.3 / R20.4 decision tables of ProxyAuth: the hook methods are interpreted on concrete flows


def b64(s: str) -> str:
    import base64

    return base64.b64encode(s.encode("utf8")).decode("ascii")


VALID = ("user", "p:w")
HEADER_VALUES = {
    "none": None,
    "empty": "",
    "scheme only": "Basic",
    "malformed base64": "Basic !!!notbase64",
    "three words": "Basic " + b64("user:p:w") + " x",
    "other scheme": "Digest " + b64("user:p:w"),
    "no colon": "Basic " + b64("userp"),
    "wrong password": "Basic " + b64("user:nope"),
    "password is a prefix": "Basic " + b64("user:p"),
    "valid": "Basic " + b64("user:p:w"),
    "valid, lower-case scheme": "basic " + b64("user:p:w"),
}
ACCEPTED = ("valid", "valid, lower-case scheme")
MS = "mitmproxy/proxy/mode_specs.py"
HTTPREL = "mitmproxy/http.py"


def mode_record(name, ancestors):
    """A ProxyMode instance: bound to the repository class (properties / methods are interpreted), with the dataclass fields of ProxyMode
    and the ``type_name`` its ``__init_subclass__`` derives from the class name (trusted re-statement: ``XyzMode`` -> ``xyz``)."""
    tn = name.removesuffix("Mode").lower()
    return Rec(name, _bases=tuple(ancestors[1:]), _impl=(MS, name), type_name=tn, full_spec=tn, data="", custom_listen_host=None, custom_listen_port=None)


class AuthWorld:
    """Interprets ProxyAuth's hook methods on concrete flows.  ``validator``: None | 'exact' (accepts VALID) | 'raises' | a callable."""

    def __init__(self, ctx):
        import base64
        import binascii

        self.model = ctx.model
        self.calls = []

        def make(status_code=200, content=b"", headers=()):
            return Rec("Response", _name="response", status_code=status_code, headers=dict(headers) if isinstance(headers, dict) else headers, content=content)

        make._abstract_ok = True
        self.it = LayerInterp(ctx.model, trusted_modules={"binascii": binascii, "base64": base64, "weakref": __import__("weakref"), "re": __import__("re")},
                              externals={"http.Response.make": make})
        self.it.overrides[(HTTPREL, "Response")] = _NS(make=make)
        self.it.overrides[(PA, "Response")] = _NS(make=make)
        self.anc = {}

    def mode(self, name):
        if name not in self.anc:
            self.anc[name] = [c.name for _, c in self.model.mro(MS, name)]
        return mode_record(name, self.anc[name])

    def is_proxy(self, name):
        self.mode(name)
        return bool({"RegularMode", "UpstreamMode"} & set(self.anc[name]))

    def validator(self, kind):
        if kind is None or callable(kind):
            return kind
        if kind == "exact":
            def v(u, p):
                self.calls.append((u, p))
                return (u, p) == VALID
            return v
        if kind == "raises":
            def r(u, p):
                self.calls.append((u, p))
                raise RuntimeError("validator backend down")
            return r
        raise ValueError(kind)

    def addon(self, validator, conn=None, authd=False):
        a = Rec("ProxyAuth", _impl=(PA, "ProxyAuth"), _name="addon", validator=self.validator(validator), authenticated=DictRec("WeakKeyDictionary", {}, _name="self.authenticated"))
        if authd:
            a.authenticated._items[conn] = ("someone", "earlier")
        return a

    def conn(self, mode, name="client_conn"):
        return OpenRec("Client", _bases=("Connection",), _name=name, proxy_mode=self.mode(mode))

    def flow(self, conn, headers: dict, replay=None, method="GET"):
        h = DictRec("Headers", dict(headers), case_insensitive=True, _name="request.headers")
        req = OpenRec("Request", _name="flow.request", headers=h, method=method, host="example.com", port=443, scheme="https", authority="example.com:443", path="/")
        return OpenRec("HTTPFlow", _bases=("Flow",), _name="flow", request=req, response=None, client_conn=conn, metadata=DictRec("dict", {}, _name="flow.metadata"), is_replay=replay, live=True,
                       server_conn=OpenRec("Server", _name="server_conn", via=None, address=None))

    def call(self, addon, method, arg):
        """-> ('returned', value) | ('raised', name)"""
        self.calls.clear()
        try:
            return ("returned", self.it.method(addon, method, arg))
        except Raised as r:
            return ("raised", r.name)


def header_names(is_proxy):
    return ("Proxy-Authorization", "Authorization") if is_proxy else ("Authorization", "Proxy-Authorization")


def has_header(flow, name):
    return name.lower() in {k.lower() for k in flow.request.headers._items}


def r20_3(ctx):
    modes = mode_classes(ctx)
    for need in ("RegularMode", "UpstreamMode", "ReverseMode", "TransparentMode", "Socks5Mode"):
        ctx.require(need in modes, f"mode_specs.{need} vanished")
    fns = {q: ctx.func(PA, f"ProxyAuth.{q}") for q in ("requestheaders", "http_connect", "socks5_auth")}
    if ctx.model.has(PA, "ProxyAuth.authenticate_http"):  # a helper, not a hook: tabulated as long as it exists under this name
        fns["authenticate_http"] = ctx.func(PA, "ProxyAuth.authenticate_http")
    w = AuthWorld(ctx)
    reported = set()
    cells = 0

    def once(q, msg, cell):
        if (q, msg) not in reported:
            reported.add((q, msg))
            ctx.fail("R20.3", (PA, f"ProxyAuth.{q}", fns[q]), f"{q}: {msg}", f"first cell: {cell}")

    for q in [x for x in ("authenticate_http", "requestheaders", "http_connect") if x in fns]:
        for validator in (("exact", "raises") if q == "authenticate_http" else (None, "exact", "raises")):
            for mode in modes:
                is_proxy = w.is_proxy(mode)
                hdr, other = header_names(is_proxy)
                want_status, want_challenge = (407, "Proxy-Authenticate") if is_proxy else (401, "WWW-Authenticate")
                for authd in ((False, True) if q == "requestheaders" else (False,)):
                    for replay in ((None, "request") if q == "requestheaders" else (None,)):
                        placements = [(k, {hdr: v} if v is not None else {}) for k, v in HEADER_VALUES.items()]
                        placements.append(("valid, in the other header", {other: HEADER_VALUES["valid"]}))
                        placements.append(("valid, garbage in the other header", {hdr: HEADER_VALUES["valid"], other: "Basic !!!"}))
                        placements.append(("wrong, valid in the other header", {hdr: HEADER_VALUES["wrong password"], other: HEADER_VALUES["valid"]}))
                        for cred, headers in placements:
                            cells += 1
                            conn = w.conn(mode)
                            addon = w.addon(validator, conn, authd)
                            flow = w.flow(conn, dict(headers, Host="example.com"), replay, "CONNECT" if q == "http_connect" else "GET")
                            cell = f"validator={validator}, mode={mode}, credentials={cred}, connection authenticated before={authd}, replay={replay}"
                            before = dict(addon.authenticated._items)
                            how, ret = w.call(addon, q, flow)
                            resp = flow.response
                            wrote = {k: v for k, v in addon.authenticated._items.items() if before.get(k) is not v}
                            if how == "raised":
                                once(q, f"{ret} escapes", cell)
                                continue
                            must_auth = validator is not None and not (q == "requestheaders" and (authd or replay))
                            accept = must_auth and validator == "exact" and (cred in ACCEPTED or cred == "valid, garbage in the other header")
                            if not must_auth:
                                if resp is not None:
                                    once(q, "refuses although it must not authenticate (no validator / authenticated connection / replay)", cell)
                                if wrote:
                                    once(q, "marks the connection authenticated without authenticating", cell)
                                if validator is None and not all(has_header(flow, k) for k in headers):
                                    once(q, "removes a credential header although proxyauth is not configured", cell)
                                continue
                            if accept:
                                if resp is not None:
                                    once(q, "validator-accepted credentials are refused", cell)
                                    continue
                                if has_header(flow, hdr):
                                    once(q, f"the credential header {hdr} is not removed before the request is forwarded", cell)
                                if other in headers and not has_header(flow, other):
                                    once(q, f"removes {other}, which is not the credential header of this mode", cell)
                                if q == "authenticate_http" and not ret:
                                    once(q, "returns a false value although the credentials were accepted", cell)
                                if q == "http_connect" and conn not in wrote:
                                    once(q, "accepted CONNECT does not mark the connection authenticated", cell)
                                if q != "http_connect" and wrote:
                                    once(q, "self.authenticated is written by a method other than http_connect / socks5_auth", cell)
                            else:
                                if resp is None:
                                    once(q, "a request without accepted credentials is let through (no auth-required response)", cell)
                                    continue
                                sc = resp.__dict__.get("status_code")
                                hs = resp.__dict__.get("headers")
                                names = {str(k).lower() for k in (hs.keys() if isinstance(hs, dict) else [])}
                                if sc != want_status or want_challenge.lower() not in names:
                                    once(q, f"refusal answers {sc} with headers {sorted(names)} instead of {want_status} with {want_challenge}", cell)
                                if wrote:
                                    once(q, "the connection is marked authenticated although the credentials were refused", cell)
                                if q == "authenticate_http" and ret:
                                    once(q, "returns a true value although the credentials were refused", cell)
    # socks5_auth
    for validator in (None, "exact", "raises"):
        for user, password in (VALID, ("user", "nope"), ("user", "p"), ("", "")):
            cells += 1
            conn = w.conn("Socks5Mode")
            addon = w.addon(validator, conn)
            data = Rec("Socks5AuthData", _name="data", client_conn=conn, username=user, password=password, valid=False)
            cell = f"validator={validator}, credentials=({user!r}, {password!r})"
            how, ret = w.call(addon, "socks5_auth", data)
            ok = validator == "exact" and (user, password) == VALID
            if data.valid is not False and data.valid is not True:
                once("socks5_auth", f"data.valid is set to {data.valid!r}", cell)
            if bool(data.valid) != ok:
                once("socks5_auth", f"data.valid is {data.valid} for credentials the validator {'accepts' if ok else 'does not accept'}", cell)
            if (conn in addon.authenticated._items) != ok:
                once("socks5_auth", f"self.authenticated written={conn in addon.authenticated._items} for credentials the validator {'accepts' if ok else 'does not accept'}", cell)
            if how == "raised" and validator != "raises":
                once("socks5_auth", f"{ret} escapes", cell)
    ctx.cells += cells
    ctx.functions.update(f"{rel}::{q}" for rel, q in w.it.seen_funcs if rel == PA)
    if not reported:
        ctx.ok("R20.3", f"ProxyAuth tables: {cells} interpreted cells over method x validator x {len(modes)} modes x {len(HEADER_VALUES) + 3} credential placements x authenticated x replay agree")


# ---------------------------------------------------------------------------------------------------
# R20.4 first-colon split


def r20_4(ctx):
    fn = ctx.func(PA, "ProxyAuth.requestheaders")
    where = (PA, "ProxyAuth.requestheaders", fn)
    w = AuthWorld(ctx)
    pairs = [("user", "p:w"), ("user", ":"), ("user", "a:b:c"), ("user", "p:"), ("u", "::"), ("user", "plain"), ("user", ""), ("üser", "pä:ß")]
    bad = []
    for mode in ("RegularMode", "ReverseMode"):
        hdr = header_names(w.is_proxy(mode))[0]
        for user, password in pairs:
            ctx.cells += 1
            got = []

            def rec(u, p):
                got.append((u, p))
                return True

            conn = w.conn(mode)
            flow = w.flow(conn, {hdr: "Basic " + b64(f"{user}:{password}")})
            how, ret = w.call(w.addon(rec, conn), "requestheaders", flow)
            if got != [(user, password)] or how != "returned" or flow.response is not None:
                bad.append(f"{mode}: credentials ({user!r}, {password!r}) reach the validator as {got if got else 'nothing (parsing failed)'}"
                           + ("" if flow.response is None else " and the request is refused"))
    ctx.check(not bad, "R20.4", where, "Basic credentials are split at the first colon only",
              "a password containing ':' is cut at the wrong colon or refused (valid credentials refused on HTTP paths only): " + "; ".join(bad[:2]),
              desc=f"decoded credentials are split at the first colon only: {len(pairs)} (user, password) pairs x 2 modes reach the validator unchanged")


# ---------------------------------------------------------------------------------------------------


def r20_7(ctx):
    """Authentication *histories*: the three ProxyAuth hook methods are interpreted from their AST (pyint) on every sequence of up
    to three hook invocations on one client connection x credential class {none, malformed, wrong, valid (password with ':')}
    x proxy mode, with the addon's state (self.authenticated, flow metadata) carried along.  After every step the outcome must be
    the reference's: a request is let through only if THIS connection authenticated successfully before or the request itself
    carries valid credentials (then the credential header is removed); otherwise the auth-required response of the mode is set.
    Catches cooperating edits (state written on one path, trusted on another) that per-function tables cannot see."""
    import base64
    import binascii
    import itertools

    def make_response(status_code=200, content=b"", headers=()):
        return Rec("Response", status_code=status_code, headers=headers, content=content)

    make_response._abstract_ok = True
    CREDS = {
        "none": None,
        "malformed": "Basic !!!notbase64",
        "wrong": "Basic " + base64.b64encode(b"user:nope").decode(),
        "valid": "Basic " + base64.b64encode(b"user:p:w").decode(),
    }
    modes = ["RegularMode", "UpstreamMode", "ReverseMode", "TransparentMode", "Socks5Mode"]
    steps_http = [("CONNECT", c) for c in CREDS] + [("REQUEST", c) for c in CREDS]
    steps_socks = [("SOCKS", "wrong"), ("SOCKS", "valid")]
    for hook in ("requestheaders", "http_connect", "socks5_auth"):
        ctx.func(PA, f"ProxyAuth.{hook}")
    where = (PA, "ProxyAuth", ctx.model.cls(PA, "ProxyAuth"))
    bad = {}
    n = 0
    interp = LayerInterp(ctx.model, trusted_modules={"binascii": binascii, "base64": base64, "weakref": __import__("weakref"), "re": __import__("re")},
                         externals={"http.Response.make": make_response})
    interp.overrides[(HTTPREL, "Response")] = _NS(make=make_response)
    interp.overrides[(PA, "Response")] = _NS(make=make_response)
    for mode in modes:
        anc = [c.name for _, c in ctx.model.mro(MS, mode)]
        is_proxy = mode in ("RegularMode", "UpstreamMode")
        hdr = "Proxy-Authorization" if is_proxy else "Authorization"
        kinds = list(steps_http)
        if mode in ("ReverseMode", "TransparentMode"):
            kinds = [k for k in kinds if k[0] != "CONNECT"]
        if mode == "Socks5Mode":
            kinds = [k for k in kinds if k[0] != "CONNECT"] + steps_socks
        for length in ((1, 2, 3) if ctx.tier == "thorough" else (1, 2)):
            for seq in itertools.product(kinds, repeat=length):
                it = interp
                conn = OpenRec("Client", _name="client_conn", proxy_mode=mode_record(mode, anc))
                addon = Rec("ProxyAuth", _impl=(PA, "ProxyAuth"), validator=(lambda u, p: (u, p) == VALID), authenticated=DictRec("WeakKeyDictionary", {}, _name="self.authenticated"))
                authed = False
                hist = []
                for kind, cred in seq:
                    hist.append(f"{kind}({cred})")
                    n += 1
                    if kind == "SOCKS":
                        u, p = VALID if cred == "valid" else ("user", "nope")
                        data = Rec("Socks5AuthData", client_conn=conn, username=u, password=p, valid=False)
                        try:
                            it.method(addon, "socks5_auth", data)
                            got = ("valid", bool(data.valid))
                        except Raised as r:
                            got = ("raises", r.name)
                        want = ("valid", cred == "valid")
                        authed = authed or cred == "valid"
                    else:
                        headers = DictRec("Headers", {"Host": "example.com"}, case_insensitive=True, _name="request.headers")
                        if CREDS[cred] is not None:
                            headers._items[hdr] = CREDS[cred]
                        req = OpenRec("Request", _name="flow.request", headers=headers, method="CONNECT" if kind == "CONNECT" else "GET", host="example.com", port=443, scheme="https", authority="example.com:443")
                        f = OpenRec("HTTPFlow", _name="flow", request=req, response=None, client_conn=conn, metadata=DictRec("dict", {}, _name="flow.metadata"), is_replay=None, live=True,
                                    server_conn=OpenRec("Server", _name="server_conn", via=None, address=None))
                        try:
                            it.method(addon, "http_connect" if kind == "CONNECT" else "requestheaders", f)
                            status = getattr(f.response, "status_code", None) if f.response is not None else None
                            got = ("status", status, "header-kept" if hdr.lower() in {k.lower() for k in headers._items} else "header-gone")
                        except Raised as r:
                            got = ("raises", r.name)
                        ok_now = (authed and kind == "REQUEST") or cred == "valid"  # a CONNECT always has to carry its own credentials
                        if kind == "REQUEST" and authed:
                            want = ("status", None, got[2] if got[0] == "status" else None)  # header handling on pre-authenticated connections is not demanded
                        elif ok_now:
                            want = ("status", None, "header-gone")
                        else:
                            want = ("status", 407 if is_proxy else 401, "header-kept" if CREDS[cred] is not None else "header-gone")
                            if got[0] == "status" and got[1] == want[1]:
                                want = got  # header may or may not be kept on a refused request
                        if kind == "CONNECT" and cred == "valid":
                            authed = True
                    if got != want:
                        bad.setdefault((mode, got, want), " -> ".join(hist))
                        break
                else:
                    # probe: a request without credentials on ANOTHER connection is never let through
                    other = OpenRec("Client", _name="other_conn", proxy_mode=conn.proxy_mode)
                    headers = DictRec("Headers", {"Host": "example.com"}, case_insensitive=True, _name="request.headers")
                    f = OpenRec("HTTPFlow", _name="flow", request=OpenRec("Request", _name="flow.request", headers=headers, method="GET", host="example.com", port=80, scheme="http", authority=""), response=None,
                                client_conn=other, metadata=DictRec("dict", {}, _name="flow.metadata"), is_replay=None, live=True, server_conn=OpenRec("Server", _name="server_conn", via=None, address=None))
                    try:
                        it.method(addon, "requestheaders", f)
                        got = getattr(f.response, "status_code", None) if f.response is not None else None
                    except Raised as r:
                        got = f"raises {r.name}"
                    n += 1
                    if got != (407 if is_proxy else 401):
                        bad.setdefault((mode, ("other-connection", got), ("status", 407 if is_proxy else 401)), " -> ".join(hist) + " ; then REQUEST(none) on another connection")
    ctx.cells += n
    for (mode, got, want), h in sorted(bad.items(), key=str):
        ctx.fail("R20.7", where, f"{mode}: history {h}: outcome {got}, expected {want}",
                 "a request on a connection that never presented valid credentials is let through (or a valid one is refused / keeps its credential header)")
    if not bad:
        ctx.ok("R20.7", f"{n} hook invocations over all histories of length <= 3 x 4 credential classes x {len(modes)} modes agree with the reference")
    ctx.bounds.append("R20.7: histories of at most 2 (quick) / 3 (thorough) hook invocations on one connection, plus a probe on a second connection")


def addon_order(ctx):
    """Class names of the addons ``default_addons()`` returns, in order: the function is interpreted with every addon constructor
    replaced by a marker (any way of building the list is followed); the literal-list reading is the fallback."""
    ctx.func(ADDONS_INIT, "default_addons")

    class Names(LayerInterp):
        def instantiate(self, c, args, kwargs, depth, where):
            return Rec(c.node.name, _name=c.node.name)

    try:
        res = Names(ctx.model).call(ADDONS_INIT, "default_addons")
        if isinstance(res, (list, tuple)) and res and all(isinstance(x, Rec) for x in res):
            return [x._cls for x in res]
    except (AnalysisError, Raised):
        pass
    return default_addon_order(ctx)


def socks_data_default(ctx):
    """``Socks5AuthData(conn, user, password).valid`` as the (interpreted) constructor leaves it."""
    it = LayerInterp(ctx.model)
    conn = OpenRec("Client", _name="client")
    cref = ClassRef(ctx.model.module(MODES), ctx.model.cls(MODES, "Socks5AuthData"))
    try:
        try:
            data = it.instantiate(cref, [conn, "user", "password"], {}, 0, "Socks5AuthData")
        except Raised:
            data = it.instantiate(cref, [], {"client_conn": conn, "username": "user", "password": "password"}, 0, "Socks5AuthData")
    except Raised as r:
        raise AnalysisError(f"Socks5AuthData(client_conn, username, password) cannot be constructed any more: {r}")
    ctx.require(isinstance(data, Rec) and "valid" in data.__dict__, "Socks5AuthData.valid field vanished")
    return data.__dict__["valid"]


def check(ctx):
    ctx.rule("R20.7", "ProxyAuth hook methods interpreted over all histories (<= 3 steps) x credential classes x modes: only connections/requests with valid credentials pass")
    ctx.guard(r20_7, ctx)
    ctx.rule("R20.1", "ProxyAuth is a default addon and implements requestheaders / http_connect / socks5_auth as dispatched by the hook classes; Socks5AuthData.valid defaults to False")
    ctx.rule("R20.2", "deny mode: nothing is forwarded and no child layer starts in the HttpStream / Socks5Proxy models; refusals are answered")
    ctx.rule("R20.3", "ProxyAuth decision tables: skip only for authenticated connections / replays; accept => header removed; else auth-required response per mode")
    ctx.rule("R20.4", "parse_http_basic_auth splits the decoded credentials at the first colon only")
    ctx.rule("R20.5", "ProxyAuth() precedes UpstreamAuth() in default_addons")
    ctx.rule("R20.6", "an unauthenticated request is answered, never aborted by an exception escaping HttpStream")
    ctx.trust("addon manager dispatches a hook to the addon method named after it; validators decide (username, password) correctly")
    m = ctx.model
    # R20.1
    order = addon_order(ctx)
    ctx.check("ProxyAuth" in order, "R20.1", ("mitmproxy/addons/__init__.py", "default_addons", 0), "proxyauth.ProxyAuth() in default_addons",
              "the ProxyAuth addon is not loaded: the proxyauth option is never enforced", desc="ProxyAuth() in default_addons")
    m.cls(PA, "ProxyAuth")
    pairs = [(HK, "HttpRequestHeadersHook"), (HK, "HttpConnectHook"), (MODES, "Socks5AuthHook")]
    missing = False
    for rel, hook in pairs:
        meth = hook_method_sem(ctx, rel, hook)
        has = m.has(PA, f"ProxyAuth.{meth}")
        missing |= not has
        ctx.check(has, "R20.1", (PA, "ProxyAuth", m.cls(PA, "ProxyAuth")), f"ProxyAuth.{meth} <- {hook}", f"ProxyAuth does not implement {meth}: {hook} is never authenticated",
                  desc=f"ProxyAuth.{meth} <- {hook}")
    data = m.cls(MODES, "Socks5AuthData")
    dflt = socks_data_default(ctx)
    ctx.check(dflt is False, "R20.1", (MODES, "Socks5AuthData", data), "Socks5AuthData.valid default",
              "SOCKS5 credentials are valid unless an addon says otherwise", desc="Socks5AuthData.valid = False by default")
    ctx.expect_instances("R20.1", 5)
    # R20.5
    if "ProxyAuth" in order and "UpstreamAuth" in order:
        ctx.check(order.index("ProxyAuth") < order.index("UpstreamAuth"), "R20.5", ("mitmproxy/addons/__init__.py", "default_addons", 0), "ProxyAuth() before UpstreamAuth()",
                  "UpstreamAuth runs first: ProxyAuth validates / deletes the upstream credentials instead of the client's", desc="ProxyAuth() < UpstreamAuth() in default_addons")
    else:
        ctx.require("UpstreamAuth" in order, "UpstreamAuth() vanished from default_addons")
    ctx.expect_instances("R20.5", 1 if "ProxyAuth" in order else 0)
    # R20.2 / R20.6
    ctx.guard(r20_2_http, ctx)
    ctx.guard(r20_2_socks, ctx)
    ctx.expect_instances("R20.2", 2)
    # R20.3
    if not missing:
        ctx.guard(r20_3, ctx)
        ctx.expect_instances("R20.3", 1)
    # R20.4
    ctx.guard(r20_4, ctx)
    ctx.expect_instances("R20.4", 1)


I = HTTP
MUTANTS = [
    Mutant("connect-trusts-metadata-set-before-validation", PA, """        if self.validator and self.authenticate_http(f):
            # Make a note""", """        if self.validator and (self.authenticate_http(f) or f.request.headers.get("Proxy-Authorization")):
            # Make a note""", "R20.7"),
    Mutant("authenticated-any-connection", PA, "            if f.client_conn in self.authenticated:", "            if self.authenticated:", "R20.7"),
    Mutant("socks-marks-before-validating", PA, """        if self.validator and self.validator(data.username, data.password):
            data.valid = True
            self.authenticated[data.client_conn] = data.username, data.password""", """        self.authenticated[data.client_conn] = data.username, data.password
        if self.validator and self.validator(data.username, data.password):
            data.valid = True""", "R20.7"),
    Mutant("proxyauth-not-default", "mitmproxy/addons/__init__.py", "        proxyauth.ProxyAuth(),\n", "", "R20.1"),
    Mutant("connect-hook-method-renamed", PA, "    def http_connect(self, f: http.HTTPFlow) -> None:", "    def httpconnect(self, f: http.HTTPFlow) -> None:", "R20.1"),
    Mutant("socks-valid-by-default", MODES, "    valid: bool = False\n", "    valid: bool = True\n", "R20.1"),
    Mutant("consume-ignores-preset-response", I, "            elif self.flow.response:\n                # response was set by an inline script.", "            elif False:\n                # response was set by an inline script.", "R20.2"),
    Mutant("requestheaders-hook-dropped", I, "        yield HttpRequestHeadersHook(self.flow)\n        if (yield from self.check_killed(True)):\n            return\n\n        if self.flow.request.headers.get(\"expect\"",
           "        if self.flow.request.headers.get(\"expect\"", "R20.2"),
    Mutant("connect-eager-open-before-auth", I, "            not self.flow.response\n            and self.context.options.connection_strategy == \"eager\"", "            self.context.options.connection_strategy == \"eager\"", "R20.2"),
    Mutant("connect-refusal-starts-child", I, "        if 200 <= self.flow.response.status_code < 300:\n            yield HttpConnectedHook(self.flow)", "        if 200 <= self.flow.response.status_code < 500:\n            yield HttpConnectedHook(self.flow)", "R20.2"),
    Mutant("upstream-connect-raises-on-preset-response", I, "    def handle_connect_upstream(self):\n", "    def handle_connect_upstream(self):\n        if self.flow.response:\n            raise NotImplementedError(\"Can't set a response for a CONNECT in upstream mode.\")\n", "R20.6"),
    Mutant("socks-no-return-after-failed-auth", MODES, "            yield from self.socks_err(\"authentication failed\")\n            return\n", "            yield from self.socks_err(\"authentication failed\")\n", "R20.2"),
    Mutant("socks-greet-skips-auth", MODES, "            method = SOCKS5_METHOD_USER_PASSWORD_AUTHENTICATION\n            self.state = self.state_auth\n", "            method = SOCKS5_METHOD_USER_PASSWORD_AUTHENTICATION\n            self.state = self.state_connect\n", "R20.2"),
    Mutant("socks-valid-test-inverted", MODES, "        if not data.valid:\n", "        if data.valid:\n", "R20.2"),
    Mutant("replay-check-inverted", PA, "            elif f.is_replay:\n                pass\n            else:\n                self.authenticate_http(f)", "            elif not f.is_replay:\n                pass\n            else:\n                self.authenticate_http(f)", "R20.3"),
    Mutant("header-not-removed", PA, "            del f.request.headers[auth_header]\n", "", "R20.3"),
    Mutant("validator-exception-accepts", PA, "        is_valid = False\n\n        is_proxy", "        is_valid = True\n\n        is_proxy", "R20.3"),
    Mutant("reverse-mode-answers-407", PA, "(mode_specs.RegularMode, mode_specs.UpstreamMode)", "(mode_specs.RegularMode, mode_specs.UpstreamMode, mode_specs.ReverseMode)", "R20.3"),
    Mutant("challenge-header-swapped", PA, "        headers = {\"WWW-Authenticate\": f'Basic realm=\"{REALM}\"'}", "        headers = {\"Proxy-Authenticate\": f'Basic realm=\"{REALM}\"'}", "R20.3"),
    Mutant("connect-authenticated-without-check", PA, "        if self.validator and self.authenticate_http(f):\n", "        if self.validator and (self.authenticate_http(f) or True):\n", "R20.3"),
    Mutant("socks-auth-ignores-validator-result", PA, "        if self.validator and self.validator(data.username, data.password):", "        if self.validator:", "R20.3"),
    Mutant("credentials-read-from-the-other-header", PA, "        auth_header = http_auth_header(is_proxy)\n", "        auth_header = http_auth_header(not is_proxy)\n", "R20.3"),
    Mutant("validator-exception-not-caught", PA, "        except Exception:\n            pass\n\n        if is_valid:", "        except ValueError:\n            pass\n\n        if is_valid:", "R20.3"),
    Mutant("socks-refusal-keeps-connection", MODES, "            yield commands.SendData(self.context.client, b\"\\x01\\x01\")\n            yield from self.socks_err(\"authentication failed\")\n            return\n",
           "            yield commands.SendData(self.context.client, b\"\\x01\\x01\")\n            return\n", "R20.2"),
    Mutant("F-C20-split-every-colon", PA, "            .split(\":\", 1)\n", "            .split(\":\")\n", "R20.4"),
    Mutant("split-at-last-colon", PA, "            .split(\":\", 1)\n", "            .rsplit(\":\", 1)\n", "R20.4"),
    Mutant("upstreamauth-before-proxyauth", "mitmproxy/addons/__init__.py", "        proxyauth.ProxyAuth(),\n        proxyserver.Proxyserver(),", "        upstream_auth.UpstreamAuth(),\n        proxyauth.ProxyAuth(),\n        proxyserver.Proxyserver(),", "R20.5"),
]
