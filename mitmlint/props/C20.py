"""C20 - proxy authentication is enforced on every entry path.

Decided:
  R20.1 registry: ``ProxyAuth()`` is a default addon and implements the three methods the hook classes dispatch to
        (HttpRequestHeadersHook -> requestheaders, HttpConnectHook -> http_connect, Socks5AuthHook -> socks5_auth);
        ``Socks5AuthData.valid`` defaults to False (no addon => not authenticated).
  R20.2 enforcement in the core ("deny mode": a client that never authenticates, i.e. every requestheaders / http_connect
        hook leaves the auth-required response on the flow, every socks5_auth hook leaves data.valid False):
        HTTP   typestate exploration of the HttpStream model - no reachable transition yields GetHttpConnection,
               OpenConnection, a SendHttp to the server or starts a child layer; a request that is read to its end is
               answered (response headers sent to the client); a refused CONNECT fires HttpConnectErrorHook.
        SOCKS5 typestate exploration of the Socks5Proxy model with proxyauth set - method 0x02 is the only one offered;
               state_connect / server.address / OpenConnection / child layer are reached only after Socks5AuthHook with
               data.valid true; on data.valid false the reply is 01 01, the connection is closed, the layer is done.
  R20.3 decision tables of ProxyAuth (abstract evaluation, exceptions inside the try block included):
        requestheaders / http_connect / socks5_auth / authenticate_http over validator {unset,set} x credentials
        {accepted, refused} x connection {authenticated before, not} x replay x every ProxyMode class:
        authentication is skipped only without validator, for connections in ``self.authenticated`` or replays; accepted
        => the credential header that was parsed is deleted, no response, True; every other path => ``flow.response`` =
        auth-required response and False; 407/Proxy-Authenticate/Proxy-Authorization for Regular+Upstream,
        401/WWW-Authenticate/Authorization otherwise; ``self.authenticated`` / ``data.valid`` written only on success.
  R20.4 ``parse_http_basic_auth`` splits the decoded credentials at the FIRST colon only (F-C20, repaired).
  R20.5 ``ProxyAuth()`` precedes ``UpstreamAuth()`` in ``default_addons`` (the client's Proxy-Authorization is consumed and
        removed before upstream credentials are attached).
  R20.6 an unauthenticated request is answered, never aborted: no exception escapes the HttpStream model in deny mode
        (F-C20b: start_request_stream raises when stream_large_bodies turned streaming on before the 407 was set).
NOT decided: validator implementations (htpasswd, LDAP), base64/UTF-8 decoding of concrete headers, non-HTTP payloads in
reverse mode, addons that remove ``flow.response`` again after ProxyAuth.
"""

from __future__ import annotations

import ast

from ..core import AnalysisError
from ..core import norm
from ..httpstream import HttpStreamSpec
from ..httpstream import init_env
from ..httpstream import REL as HTTP
from ..layerx import EV
from ..layerx import explore
from ..layerx import Monitor
from ..model import attr_chain
from ..model import last_attr
from ..model import qual_of
from ..model import walk_in_order
from ..paths import C
from ..paths import Engine
from ..paths import is_const
from ..paths import R
from ..paths import State
from ..paths import UNKNOWN
from ..selftest import Mutant
from ._helpers_C import class_isa
from ._helpers_C import default_addon_order
from ._helpers_C import explore_socks5
from ._helpers_C import hook_method
from ._helpers_C import is_obj
from ._helpers_C import isinstance_targets
from ._helpers_C import mode_classes
from ._helpers_C import MODE_SPECS
from ._helpers_C import MODES
from ._helpers_C import OBJ
from ._helpers_C import Socks5Spec
from ._helpers_C import socks5_init_env
from ._helpers_C import StrictSpec

PROP = "C20"
REG = {
    "strength": "partial",
    "technique": "typestate exploration of the HttpStream and Socks5Proxy models in 'deny mode' + decision-table extraction of "
    "ProxyAuth's hook methods by abstract evaluation (exception edges included) + split-idiom check + addon/hook registry",
    "claim": "with proxyauth set and a client that never presents accepted credentials no reachable transition of the extracted "
    "HttpStream / Socks5Proxy models forwards anything upstream or starts a child layer, and a completed request is answered; "
    "ProxyAuth's methods reject on every path except validator-accepted credentials, authenticated connections and replays, "
    "remove the credential header on success, answer 407/401 per mode and split credentials at the first colon only.",
    "note": "Models are over-approximations extracted from source on every run (refinements listed in the evidence). Validators, "
    "base64 decoding and the addon manager's dispatch are trusted.",
}

PA = "mitmproxy/addons/proxyauth.py"
HK = "mitmproxy/proxy/layers/http/_hooks.py"
STATUS = "mitmproxy/net/http/status_codes.py"
FORWARD = ("getconn", "open", "child_start")


# ---------------------------------------------------------------------------------------------------
# R20.2 / R20.6  HTTP: deny-mode exploration of HttpStream


class DenyHttpSpec(HttpStreamSpec):
    """HttpStream model in which ProxyAuth refuses: after HttpRequestHeadersHook / HttpConnectHook ``flow.response`` is the
    auth-required response (status 407/401); other addons do not remove it; streaming flags stay arbitrary."""

    AUTH_HOOKS = ("HttpRequestHeadersHook", "HttpConnectHook")

    def events(self, node, st):
        out = HttpStreamSpec.events(self, node, st)
        if isinstance(node, ast.Raise):
            out.append(("raise", last_attr(node.exc) if node.exc is not None else "?", qual_of(node)))
        return out

    def effect(self, stmt, st, depth):
        if isinstance(stmt, ast.Expr) and isinstance(stmt.value, ast.Yield) and isinstance(stmt.value.value, ast.Call):
            name = last_attr(stmt.value.value.func)
            if name.endswith("Hook"):
                for k in ("self.flow.request.stream", "self.flow.response.stream"):
                    st = st.set(k, UNKNOWN)
                if name in self.AUTH_HOOKS:
                    st = st.set("self.flow.response", C(True))
                return st
        return HttpStreamSpec.effect(self, stmt, st, depth)

    def decide_extra(self, cond, st, depth):
        # the auth-required response has status 407 or 401 (R20.3 checks that table)
        if isinstance(cond, ast.Compare) and st.get("self.flow.response") == C(True):
            operands = [cond.left] + list(cond.comparators)
            if any(attr_chain(o) == "self.flow.response.status_code" for o in operands):
                res = []
                for status in (407, 401):
                    vals = []
                    for o in operands:
                        if attr_chain(o) == "self.flow.response.status_code":
                            vals.append(status)
                        elif isinstance(o, ast.Constant) and isinstance(o.value, int):
                            vals.append(o.value)
                        else:
                            return HttpStreamSpec.decide_extra(self, cond, st, depth)
                    ok = True
                    for (a, b), op in zip(zip(vals, vals[1:]), cond.ops):
                        table = {ast.Lt: a < b, ast.LtE: a <= b, ast.Gt: a > b, ast.GtE: a >= b, ast.Eq: a == b, ast.NotEq: a != b}
                        if type(op) not in table:
                            return HttpStreamSpec.decide_extra(self, cond, st, depth)
                        ok = ok and table[type(op)]
                    res.append(ok)
                if res[0] == res[1]:
                    return res[0]
        return HttpStreamSpec.decide_extra(self, cond, st, depth)


class DenyMonitor(Monitor):
    """mon = (client phase, flags)."""

    init = ("new", frozenset())

    def __init__(self):
        self.excs = []

    def offers(self, env, mon):
        phase, flags = mon
        if flags & {"dropped", "passthrough", "over"}:
            return []
        if phase == "new":
            return [EV("Start")]
        if phase == "started":
            return [EV("RequestHeaders", end_stream=True, replay_flow=None), EV("RequestHeaders", end_stream=False, replay_flow=None)]
        out = []
        if phase == "headers":
            out += [EV("RequestData"), EV("RequestTrailers"), EV("RequestEndOfMessage")]
        if phase in ("headers", "eom") and "cerr" not in flags:
            out.append(EV("RequestProtocolError"))
        return out

    def step(self, mon, ev, trace, env, report, exc=None):
        phase, flags = mon
        flags = set(flags)
        kind = ev[1]
        if kind == "Start":
            phase = "started"
        elif kind == "RequestHeaders":
            phase = "headers"
        elif kind == "RequestEndOfMessage":
            phase = "eom"
        elif kind == "RequestProtocolError":
            flags.add("cerr")
        hooks = [e[1] for e in trace if e[0] == "hook"]
        for e in trace:
            if e[0] in FORWARD or (e[0] == "send" and e[2] == "server"):
                report(f"R20.2 {e} is reachable although the client never authenticated")
            elif e[0] == "send" and e[1] == "ResponseHeaders" and e[2] == "client":
                flags.add("answered")
            elif e[0] == "drop":
                flags.add("dropped")
            elif e[0] == "set" and e[1] == "self._handle_event" and e[2] == "self.passthrough":
                flags.add("passthrough")
        if exc is not None:
            site = next((e[2] for e in reversed(trace) if e[0] == "raise" and e[1] == exc), "an implicit edge")
            self.excs.append((exc, kind, site))
            report(f"R20.6 {kind}: {exc} raised in {site} escapes HttpStream (unauthenticated request, deny mode)")
            return None
        killed = any(e[0] == "send" and e[1] == "ResponseProtocolError" and e[2] == "client" for e in trace)
        if "HttpConnectHook" in hooks:
            flags.add("over")
            if env.get("self.client_state") != R("self.state_errored"):
                report("R20.2 refused CONNECT leaves the stream in a live client state")
            if not killed:  # (killed: the client went away / the flow was killed while the hook ran)
                if "HttpConnectErrorHook" not in hooks:
                    report("R20.2 refused CONNECT does not end in HttpConnectErrorHook")
                if "answered" not in flags:
                    report("R20.2 refused CONNECT is not answered")
        errored = env.get("self.client_state") == R("self.state_errored")
        if phase == "eom" and kind == "RequestEndOfMessage" and not errored and "dropped" not in flags and "answered" not in flags:
            report("R20.2 unauthenticated request was read completely but no response was sent to the client")
        return (phase, frozenset(flags))


def r20_2_http(ctx):
    spec = DenyHttpSpec(ctx.model)
    entry = ctx.func(HTTP, "HttpStream._handle_event")
    for n in ("state_wait_for_request_headers", "state_consume_request_body", "start_request_stream", "handle_connect", "handle_connect_regular",
              "handle_connect_upstream", "handle_connect_finish", "make_server_connection", "check_body_size", "check_killed", "send_response"):
        ctx.func(HTTP, f"HttpStream.{n}")
    mon = DenyMonitor()
    res = explore(spec, entry, init_env(), mon)
    ctx.paths += res["transitions"]
    ctx.require(res["states"] >= 8, f"deny-mode exploration of HttpStream collapsed to {res['states']} states")
    ctx.note(f"HTTP deny mode: {res['states']} abstract states, {res['transitions']} transitions, inlined {res['inlined']}")
    ctx.assume("deny mode: every requestheaders / http_connect hook leaves the auth-required response (status 407/401) on the flow; "
               "no other addon removes it; request/response streaming flags are arbitrary")
    seen = set()
    n = {"R20.2": 0, "R20.6": 0}
    for v in res["violations"]:
        rule, msg = v["message"].split(" ", 1)
        if (rule, msg) in seen:
            continue
        seen.add((rule, msg))
        n[rule] += 1
        hist = " ; ".join(f"{k}->{[e for e in t if e[0] in ('hook', 'getconn', 'open', 'child_start', 'send')]}" for k, t in v["history"])
        ctx.fail(rule, (HTTP, "HttpStream", entry), msg, f"reachable in the extracted model via: {hist}", history=v["history"])
    if not n["R20.2"]:
        ctx.ok("R20.2", f"HTTP: {res['transitions']} deny-mode transitions of HttpStream, nothing forwarded, completed requests answered, CONNECT refused")
    if not n["R20.6"]:
        ctx.ok("R20.6", f"HTTP: no exception escapes HttpStream on {res['transitions']} deny-mode transitions")


# ---------------------------------------------------------------------------------------------------
# R20.2  SOCKS5


def r20_2_socks(ctx):
    spec = Socks5Spec(ctx.model)
    entry = ctx.func(MODES, "Socks5Proxy._handle_event")
    for nme in ("state_greet", "state_auth", "state_connect", "socks_err"):
        ctx.func(MODES, f"Socks5Proxy.{nme}")
    where = (MODES, "Socks5Proxy", entry)
    states, trans, eng = explore_socks5(spec, entry, socks5_init_env(**{"$proxyauth": C(True)}))
    ctx.paths += len(trans)
    ctx.require(len(trans) >= 20, f"SOCKS5 exploration collapsed to {len(trans)} transitions")
    ctx.assume("SOCKS5: proxyauth configured => the option is registered; Socks5AuthHook outcome (data.valid) is arbitrary")
    bad = {}
    n_deny = n_ok = 0
    gate = ("addr:=", "open", "child_start", "child_data", "child:=")
    for src, kind, tr, dst, exc in trans:
        if exc is not None:
            bad.setdefault(f"{exc} escapes the SOCKS5 layer", tr)
            continue
        authed = src.get("self.state") == R("self.state_connect")
        hooked = False
        for i, e in enumerate(tr):
            if e[0] == "hook" and e[1] == "Socks5AuthHook":
                hooked = True
            elif e[0] == "c" and e[1] == "valid":
                if not hooked:
                    bad.setdefault("data.valid is tested before Socks5AuthHook was yielded", tr)
                if e[3]:
                    authed = True
                    n_ok += 1
                else:
                    n_deny += 1
                    rest = tr[i + 1 :]
                    if not any(x[0] == "send" and x[1] == "client" and x[2] == C(b"\x01\x01") for x in rest):
                        bad.setdefault("failed authentication is not answered with 01 01", tr)
                    if not any(x[0] == "close" and x[1] == "client" for x in rest):
                        bad.setdefault("failed authentication does not close the client connection", tr)
                    if dst.get("self._handle_event") != R("self.done"):
                        bad.setdefault("failed authentication does not end the layer (handler is not `done`)", tr)
                    if any(x[0] in gate or x[0] == "enter" and x[1] == "self.state_connect" for x in rest):
                        bad.setdefault("request processing continues after a failed authentication", tr)
            elif e[0] in gate or (e[0] == "enter" and e[1] == "self.state_connect") or (e[0] == "set" and e[1] == "self.state" and e[2] == "self.state_connect"):
                if not authed:
                    bad.setdefault(f"{e[0]} {e[1] if len(e) > 1 and isinstance(e[1], str) else ''} reached without a successful Socks5AuthHook".replace("  ", " "), tr)
            elif e[0] == "send" and e[1] == "client" and is_const(e[2]) and isinstance(e[2][1], bytes):
                p = e[2][1]
                if len(p) == 2 and p[0] == 5 and p[1] not in (0x02, 0xFF):
                    bad.setdefault(f"method selection {p!r} offered although proxyauth is set", tr)
    if not bad:
        ctx.require(n_deny >= 1 and n_ok >= 1, "SOCKS5 model: no path tests data.valid (state_auth changed shape)")
    for msg, tr in sorted(bad.items()):
        ctx.fail("R20.2", where, "SOCKS5: " + msg, "an unauthenticated SOCKS5 client gets further than the authentication step", trace=[str(e) for e in tr])
    if not bad:
        ctx.ok("R20.2", f"SOCKS5: {len(trans)} transitions with proxyauth set; connect phase only after Socks5AuthHook with data.valid; failure => 01 01, close, done")


# ---------------------------------------------------------------------------------------------------
# R20.3 decision tables of ProxyAuth


class AuthTableSpec(StrictSpec):
    allowed_stmts = StrictSpec.allowed_stmts + (ast.Try, ast.Delete)
    max_depth = 4

    def __init__(self, model, cell, status_consts):
        super().__init__()
        self.model = model
        self.cell = cell
        self.status_consts = status_consts
        self.mod = model.module(PA)

    # exception edges: every statement of a try body may raise into an `except Exception`
    def raises_into(self, stmt, handler_names, st):
        return ["Exception"] if any(h in ("Exception", "BaseException") for h in handler_names) else []

    def handler_event(self, h, ename, st):
        return ("except",)

    def inline(self, call, st, depth):
        f = call.func
        if isinstance(f, ast.Attribute) and isinstance(f.value, ast.Name) and f.value.id == "self" and f.attr == "authenticate_http":
            return self.model.func(PA, "ProxyAuth.authenticate_http")
        if isinstance(f, ast.Name) and f.id in ("is_http_proxy", "http_auth_header", "make_auth_required_response"):
            d = self.mod.get(f.id)
            if isinstance(d, ast.FunctionDef):
                return d
        return None

    def path_of(self, expr, st, depth):
        """'flow.request.headers' for attribute chains rooted in a name bound to the flow / socks data object."""
        parts = []
        e = expr
        while isinstance(e, ast.Attribute):
            parts.append(e.attr)
            e = e.value
        if isinstance(e, ast.Name):
            base = st.get(f"{depth}:{e.id}")
            if is_obj(base, "root"):
                return ".".join([base[2]] + list(reversed(parts)))
        return None

    def atom(self, expr, st, depth):
        ch = attr_chain(expr)
        if ch == "self.validator":
            return OBJ("validator") if self.cell["validator"] else C(None)
        if ch == "self.authenticated":
            return OBJ("authenticated")
        if ch.startswith("status_codes.") or ch.startswith("http.status_codes."):
            name = ch.split(".")[-1]
            if name in self.status_consts:
                return C(self.status_consts[name])
        p = self.path_of(expr, st, depth) if isinstance(expr, ast.Attribute) else None
        if p is not None:
            if p == "flow.client_conn.proxy_mode":
                return OBJ("mode", self.cell["mode"])
            if p == "flow.is_replay":
                return C(self.cell["replay"])
            if p == "flow.request.headers":
                return OBJ("reqheaders")
            if p == "flow.metadata":
                return OBJ("metadata")
            if p in ("flow.client_conn", "flow.request", "data.client_conn", "data.username", "data.password"):
                return OBJ("path", p)
            if p in ("flow.response", "data.valid"):
                raise AnalysisError(f"ProxyAuth: decision reads {p}, which the table does not model")
            raise AnalysisError(f"ProxyAuth: unmodelled attribute {norm(expr)}")
        if isinstance(expr, ast.Dict):
            items = []
            for k, v in zip(expr.keys, expr.values):
                if not (isinstance(k, ast.Constant) and isinstance(k.value, str)):
                    raise AnalysisError(f"ProxyAuth: unmodelled dict key in {norm(expr)}")
                items.append(k.value)
            return OBJ("dict", tuple(items))
        if isinstance(expr, ast.Subscript):
            base = self.value(expr.value, st, depth)
            if is_obj(base, "metadata") or is_obj(base, "authenticated"):
                return OBJ("stored")
            return None
        if isinstance(expr, ast.Tuple):
            return OBJ("tuple", *[self.value(e, st, depth) for e in expr.elts])
        if isinstance(expr, ast.Call):
            f = expr.func
            if attr_chain(f) == "self.validator":
                if not self.cell["validator"]:
                    self.problems.append("self.validator is called although it is None")
                args = [self.value(a, st, depth) for a in expr.args]
                want_http = [OBJ("cred", "user"), OBJ("cred", "password")]
                want_socks = [OBJ("path", "data.username"), OBJ("path", "data.password")]
                if args not in (want_http, want_socks):
                    self.problems.append(f"validator called with {norm(expr)}: not (username, password) in this order")
                return C(self.cell["accepts"])
            if isinstance(f, ast.Attribute) and f.attr == "get" and is_obj(self.value(f.value, st, depth), "reqheaders") and expr.args:
                k = self.value(expr.args[0], st, depth)
                if not (is_const(k) and isinstance(k[1], str)):
                    raise AnalysisError(f"ProxyAuth: header name not decided in {norm(expr)}")
                return OBJ("headervalue", k[1])
            if last_attr(f) == "make" and attr_chain(f).endswith("Response.make") and len(expr.args) >= 3:
                status = self.value(expr.args[0], st, depth)
                hdrs = self.value(expr.args[2], st, depth)
                if not (is_const(status) and is_obj(hdrs, "dict")):
                    raise AnalysisError(f"ProxyAuth: unmodelled response construction {norm(expr)}")
                return OBJ("response", status[1], hdrs[2])
            if isinstance(f, ast.Name) and f.id == "parse_http_basic_auth":
                a = self.value(expr.args[0], st, depth) if expr.args else UNKNOWN
                if not is_obj(a, "headervalue"):
                    raise AnalysisError(f"ProxyAuth: parse_http_basic_auth argument is not a request header value: {norm(expr)}")
                return OBJ("parsed", a[2])
        return None

    def decide_isinstance(self, cond, st, depth):
        v = self.value(cond.args[0], st, depth)
        if is_obj(v, "mode"):
            return any(class_isa(self.model, MODE_SPECS, v[2], n) for n in isinstance_targets(cond))
        return None

    def decide_leaf(self, cond, st, depth):
        if isinstance(cond, ast.Compare) and len(cond.ops) == 1 and isinstance(cond.ops[0], (ast.In, ast.NotIn)):
            if is_obj(self.value(cond.comparators[0], st, depth), "authenticated"):
                if self.value(cond.left, st, depth) != OBJ("path", "flow.client_conn"):
                    raise AnalysisError(f"ProxyAuth: unmodelled membership test {norm(cond)}")
                r = self.cell["authd"]
                return r if isinstance(cond.ops[0], ast.In) else not r
        return StrictSpec.decide_leaf(self, cond, st, depth)

    def bind_tuple(self, target, v, stmt, st, depth):
        if is_obj(v, "parsed") and len(target.elts) == 3 and all(isinstance(e, ast.Name) for e in target.elts):
            st = st.emit(("parsed", v[2]))
            st = st.set(f"{depth}:{target.elts[0].id}", OBJ("cred", "scheme"))
            st = st.set(f"{depth}:{target.elts[1].id}", OBJ("cred", "user"))
            return st.set(f"{depth}:{target.elts[2].id}", OBJ("cred", "password"))
        return StrictSpec.bind_tuple(self, target, v, stmt, st, depth)

    def write_event(self, target, value, stmt, st, depth):
        if isinstance(target, ast.Subscript):
            base = self.value(target.value, st, depth)
            if is_obj(base, "metadata"):
                return ("meta",)
            if is_obj(base, "authenticated"):
                key = self.value(target.slice, st, depth)
                if key not in (OBJ("path", "flow.client_conn"), OBJ("path", "data.client_conn")):
                    raise AnalysisError(f"ProxyAuth: unmodelled key in {norm(stmt)}")
                return ("authd:=",)
        if isinstance(target, ast.Attribute):
            p = self.path_of(target, st, depth)
            if p == "flow.response":
                if not is_obj(value, "response"):
                    raise AnalysisError(f"ProxyAuth: flow.response is set to an unmodelled value in {norm(stmt)}")
                return ("response:=", value[2], value[3])
            if p == "data.valid":
                if not is_const(value):
                    raise AnalysisError(f"ProxyAuth: data.valid is set to an unmodelled value in {norm(stmt)}")
                return ("valid:=", value[1])
        raise AnalysisError(f"ProxyAuth: unmodelled write {norm(stmt)}")

    def effect(self, stmt, st, depth):
        if isinstance(stmt, ast.Delete):
            for t in stmt.targets:
                if isinstance(t, ast.Subscript) and is_obj(self.value(t.value, st, depth), "reqheaders"):
                    k = self.value(t.slice, st, depth)
                    if not (is_const(k) and isinstance(k[1], str)):
                        raise AnalysisError(f"ProxyAuth: deleted header name not decided in {norm(stmt)}")
                    st = st.emit(("delhdr", k[1]))
                else:
                    raise AnalysisError(f"ProxyAuth: unmodelled delete {norm(stmt)}")
            return st
        return StrictSpec.effect(self, stmt, st, depth)


def auth_expect(cell):
    is_proxy = cell["mode"] in ("RegularMode", "UpstreamMode")
    hdr = "Proxy-Authorization" if is_proxy else "Authorization"
    resp = (407, ("Proxy-Authenticate",)) if is_proxy else (401, ("WWW-Authenticate",))
    return hdr, resp


def classify(trace, cell):
    """-> 'accept' | 'reject' | 'skip' | 'bad: reason' for one path of a method that may authenticate."""
    hdr, resp = auth_expect(cell)
    dels = [e[1] for e in trace if e[0] == "delhdr"]
    resps = [(e[1], e[2]) for e in trace if e[0] == "response:="]
    parsed = [e[1] for e in trace if e[0] == "parsed"]
    if resps:
        if dels:
            return "bad: sets the auth-required response AND deletes the credential header"
        if resps != [resp]:
            return f"bad: refusal answers {resps} instead of status {resp[0]} with {resp[1][0]}"
        return "reject"
    if dels:
        if dels != [hdr]:
            return f"bad: deletes header {dels} instead of {hdr}"
        if parsed != [hdr]:
            return f"bad: credentials are parsed from {parsed} but {hdr} is the credential header"
        return "accept"
    return "skip"


def run_all(spec, fn, bindings):
    eng = Engine(spec)
    o = eng.run(fn, State(), bindings)
    out = []
    for s in o.ret:
        out.append(("return", s))
    for s in o.exc:
        e = s.get("$exc")
        out.append(("raise:" + (e[1] if is_const(e) else "?"), s))
    return out


def r20_3(ctx):
    m = ctx.model
    modes = mode_classes(ctx)
    for need in ("RegularMode", "UpstreamMode", "ReverseMode", "TransparentMode", "Socks5Mode"):
        ctx.require(need in modes, f"mode_specs.{need} vanished")
    status_consts = {}
    for name in ("PROXY_AUTH_REQUIRED", "UNAUTHORIZED"):
        status_consts[name] = m.literal(STATUS, name)
    ctx.check(status_consts == {"PROXY_AUTH_REQUIRED": 407, "UNAUTHORIZED": 401}, "R20.3", (STATUS, "<module>", 0), "PROXY_AUTH_REQUIRED=407, UNAUTHORIZED=401",
              f"status code constants changed: {status_consts}", desc="status_codes: 407 / 401")
    for fnm in ("is_http_proxy", "http_auth_header", "make_auth_required_response", "parse_http_basic_auth"):
        ctx.func(PA, fnm)
    fns = {q: ctx.func(PA, f"ProxyAuth.{q}") for q in ("requestheaders", "http_connect", "socks5_auth", "authenticate_http")}
    for q, fn in fns.items():
        AuthTableSpec(m, {}, status_consts).vet(fn)
    bad = 0

    def fail(q, cell, msg):
        nonlocal bad
        bad += 1
        short = ",".join(f"{k}={cell[k]}" for k in sorted(cell) if k != "mode") + f",mode={cell.get('mode')}"
        ctx.fail("R20.3", (PA, f"ProxyAuth.{q}", fns[q]), f"{q}: {msg}", f"first cell: {short}", cell=cell)

    reported = set()

    def once(q, cell, msg):
        if (q, msg) not in reported:
            reported.add((q, msg))
            fail(q, cell, msg)

    # --- methods taking a flow
    for q in ("authenticate_http", "requestheaders", "http_connect"):
        fn = fns[q]
        params = [a.arg for a in fn.args.args]
        ctx.require(len(params) == 2, f"ProxyAuth.{q}: unexpected signature {params}")
        for validator in (True, False):
            if q == "authenticate_http" and not validator:
                continue  # asserted by the function itself
            for accepts in (True, False):
                for authd in (True, False) if q == "requestheaders" else (False,):
                    for replay in (True, False) if q == "requestheaders" else (False,):
                        for mode in modes:
                            cell = {"validator": validator, "accepts": accepts, "authd": authd, "replay": replay, "mode": mode}
                            spec = AuthTableSpec(m, cell, status_consts)
                            finals = run_all(spec, fn, {params[1]: OBJ("root", "flow")})
                            ctx.cells += 1
                            for p in spec.problems:
                                once(q, cell, p)
                            must_auth = validator and not (q == "requestheaders" and (authd or replay))
                            kinds = []
                            for how, s in finals:
                                if how != "return":
                                    once(q, cell, f"{how} escapes")
                                    continue
                                k = classify(s.trace, cell)
                                exc = any(e == ("except",) for e in s.trace)
                                ret = s.get("$ret")
                                wrote_authd = any(e == ("authd:=",) for e in s.trace)
                                kinds.append((k, exc))
                                if k.startswith("bad"):
                                    once(q, cell, k[5:])
                                    continue
                                if not must_auth:
                                    if k != "skip":
                                        once(q, cell, f"authenticates / refuses although it must skip ({k})")
                                    if wrote_authd:
                                        once(q, cell, "marks the connection authenticated without validator")
                                    continue
                                if k == "skip":
                                    once(q, cell, "a path neither accepts nor refuses: authentication is skipped")
                                if k == "accept" and (exc or not accepts):
                                    once(q, cell, "credentials are accepted although the validator refused them or parsing failed")
                                if q == "authenticate_http" and ((k == "accept") != (ret == C(True)) or (k == "reject") != (ret == C(False))):
                                    once(q, cell, f"return value {ret} does not match the outcome {k}")
                                if wrote_authd and not (q == "http_connect" and k == "accept"):
                                    once(q, cell, f"self.authenticated is written on a {k} path of {q}")
                                if q == "http_connect" and k == "accept" and not wrote_authd:
                                    once(q, cell, "accepted CONNECT does not mark the connection authenticated")
                            if must_auth and accepts and ("accept", False) not in kinds:
                                once(q, cell, "validator-accepted credentials are not accepted on the exception-free path")
                            if len(ctx.samples) < 3 and must_auth and accepts:
                                ctx.sample({"method": q, "cell": cell, "paths": [f"{k}{' (exception)' if x else ''}" for k, x in kinds]})
    # --- socks5_auth
    fn = fns["socks5_auth"]
    params = [a.arg for a in fn.args.args]
    ctx.require(len(params) == 2, f"ProxyAuth.socks5_auth: unexpected signature {params}")
    for validator in (True, False):
        for accepts in (True, False):
            cell = {"validator": validator, "accepts": accepts, "authd": False, "replay": False, "mode": "Socks5Mode"}
            spec = AuthTableSpec(m, cell, status_consts)
            finals = run_all(spec, fn, {params[1]: OBJ("root", "data")})
            ctx.cells += 1
            for p in spec.problems:
                once("socks5_auth", cell, p)
            for how, s in finals:
                if how != "return":
                    once("socks5_auth", cell, f"{how} escapes")
                    continue
                valid = [e[1] for e in s.trace if e[0] == "valid:="]
                wrote = any(e == ("authd:=",) for e in s.trace)
                ok = validator and accepts
                if (valid == [True]) != ok or (valid not in ([], [True])):
                    once("socks5_auth", cell, f"data.valid writes {valid} for validator={validator} accepts={accepts}")
                if wrote != ok:
                    once("socks5_auth", cell, f"self.authenticated written={wrote} for validator={validator} accepts={accepts}")
    if not bad:
        ctx.ok("R20.3", f"ProxyAuth tables: {ctx.cells} cells over validator x accepted x authenticated x replay x {len(modes)} modes agree")


# ---------------------------------------------------------------------------------------------------
# R20.4 first-colon split


def r20_4(ctx):
    fn = ctx.func(PA, "parse_http_basic_auth")
    where = (PA, "parse_http_basic_auth", fn)
    rets = [n for n in walk_in_order(fn) if isinstance(n, ast.Return) and n.value is not None]
    ctx.require(len(rets) == 1 and isinstance(rets[0].value, ast.Tuple) and len(rets[0].value.elts) == 3 and all(isinstance(e, ast.Name) for e in rets[0].value.elts),
                "parse_http_basic_auth no longer returns (scheme, user, password) names")
    user, pw = rets[0].value.elts[1].id, rets[0].value.elts[2].id
    assigns = []
    for n in walk_in_order(fn):
        if isinstance(n, ast.Assign) and len(n.targets) == 1 and isinstance(n.targets[0], (ast.Tuple, ast.List)):
            names = [getattr(e, "id", None) for e in n.targets[0].elts]
            if user in names or pw in names:
                assigns.append((n, names))
    ctx.require(len(assigns) == 1, f"parse_http_basic_auth: user/password are bound by {len(assigns)} unpacking assignments (the rule models one)")
    node, names = assigns[0]
    call = node.value
    ctx.require(isinstance(call, ast.Call) and isinstance(call.func, ast.Attribute), f"parse_http_basic_auth: unmodelled credential split {norm(node)}")
    recv = ast.unparse(call.func.value)
    ctx.require("a2b_base64" in recv or "b64decode" in recv, f"parse_http_basic_auth: the split is not applied to the decoded credentials: {norm(call)}")
    meth = call.func.attr
    sep = call.args[0] if call.args else None
    ctx.require(isinstance(sep, ast.Constant) and sep.value in (":", b":"), f"parse_http_basic_auth: unmodelled separator in {norm(call)}")
    maxsplit = None
    if len(call.args) >= 2:
        maxsplit = call.args[1]
    for k in call.keywords:
        if k.arg == "maxsplit":
            maxsplit = k.value
    if meth == "split":
        ok = isinstance(maxsplit, ast.Constant) and maxsplit.value == 1 and names == [user, pw]
        why = "split(':') without maxsplit=1 raises on a password containing ':' (valid credentials refused on HTTP paths only)"
    elif meth == "partition":
        ok = len(names) == 3 and names[0] == user and names[2] == pw
        why = "partition result is not unpacked as (user, _, password)"
    elif meth in ("rsplit", "rpartition"):
        ok = False
        why = f"{meth} splits at the LAST colon: a password containing ':' is cut into the user name"
    else:
        raise AnalysisError(f"parse_http_basic_auth: unmodelled split idiom {norm(call)}")
    ctx.check(ok, "R20.4", where, f"credentials split: .{meth}({', '.join(norm(a) for a in call.args)})", why, desc=f"decoded credentials split at the first colon only: .{meth}(...)")


# ---------------------------------------------------------------------------------------------------


def r20_7(ctx):
    """Authentication *histories*: the three ProxyAuth hook methods are interpreted from their AST (pyint) on every sequence of up
    to three hook invocations on one client connection x credential class {none, malformed, wrong, valid (password with ':')}
    x proxy mode, with the addon's state (self.authenticated, flow metadata) carried along.  After every step the outcome must be
    the reference's: a request is let through only if THIS connection authenticated successfully before or the request itself
    carries valid credentials (then the credential header is removed); otherwise the auth-required response of the mode is set.
    Catches cooperating edits (state written on one path, trusted on another) that per-function tables cannot see."""
    import base64
    import binascii
    import itertools

    from ..pyint import DictRec
    from ..pyint import Interp
    from ..pyint import Raised
    from ..pyint import Rec

    VALID = ("user", "p:w")
    CREDS = {
        "none": None,
        "malformed": "Basic !!!notbase64",
        "wrong": "Basic " + base64.b64encode(b"user:nope").decode(),
        "valid": "Basic " + base64.b64encode(b"user:p:w").decode(),
    }
    MS = "mitmproxy/proxy/mode_specs.py"
    modes = ["RegularMode", "UpstreamMode", "ReverseMode", "TransparentMode", "Socks5Mode"]
    steps_http = [("CONNECT", c) for c in CREDS] + [("REQUEST", c) for c in CREDS]
    steps_socks = [("SOCKS", "wrong"), ("SOCKS", "valid")]
    fn = ctx.func(PA, "ProxyAuth.authenticate_http")
    where = (PA, "ProxyAuth", ctx.model.cls(PA, "ProxyAuth"))
    bad = {}
    n = 0
    for mode in modes:
        anc = [c.name for _, c in ctx.model.mro(MS, mode)]
        is_proxy = mode in ("RegularMode", "UpstreamMode")
        hdr = "Proxy-Authorization" if is_proxy else "Authorization"
        kinds = list(steps_http)
        if mode in ("ReverseMode", "TransparentMode"):
            kinds = [k for k in kinds if k[0] != "CONNECT"]
        if mode == "Socks5Mode":
            kinds = [k for k in kinds if k[0] != "CONNECT"] + steps_socks
        for length in ((1, 2, 3) if ctx.tier == "thorough" else (1, 2)):
            for seq in itertools.product(kinds, repeat=length):
                it = Interp(ctx.model, trusted_modules={"binascii": binascii, "base64": base64, "weakref": __import__("weakref"), "re": __import__("re")},
                            externals={"http.Response.make": lambda status_code=200, content=b"", headers=(): Rec("Response", status_code=status_code, headers=headers, content=content)})
                conn = Rec("Client", _name="client_conn", proxy_mode=Rec(mode, _bases=tuple(anc[1:]), _impl=(MS, mode)))
                addon = Rec("ProxyAuth", _impl=(PA, "ProxyAuth"), validator=(lambda u, p: (u, p) == VALID), authenticated=DictRec("WeakKeyDictionary", {}, _name="self.authenticated"))
                authed = False
                hist = []
                for kind, cred in seq:
                    hist.append(f"{kind}({cred})")
                    n += 1
                    if kind == "SOCKS":
                        u, p = VALID if cred == "valid" else ("user", "nope")
                        data = Rec("Socks5AuthData", client_conn=conn, username=u, password=p, valid=False)
                        try:
                            it.method(addon, "socks5_auth", data)
                            got = ("valid", bool(data.valid))
                        except Raised as r:
                            got = ("raises", r.name)
                        want = ("valid", cred == "valid")
                        authed = authed or cred == "valid"
                    else:
                        headers = DictRec("Headers", {"Host": "example.com"}, case_insensitive=True, _name="request.headers")
                        if CREDS[cred] is not None:
                            headers._items[hdr] = CREDS[cred]
                        req = Rec("Request", headers=headers, method="CONNECT" if kind == "CONNECT" else "GET", host="example.com", port=443, scheme="https", authority="example.com:443")
                        f = Rec("HTTPFlow", _name="flow", request=req, response=None, client_conn=conn, metadata=DictRec("dict", {}, _name="flow.metadata"), is_replay=None, live=True,
                                server_conn=Rec("Server", via=None, address=None))
                        try:
                            it.method(addon, "http_connect" if kind == "CONNECT" else "requestheaders", f)
                            status = getattr(f.response, "status_code", None) if f.response is not None else None
                            got = ("status", status, "header-kept" if hdr.lower() in {k.lower() for k in headers._items} else "header-gone")
                        except Raised as r:
                            got = ("raises", r.name)
                        ok_now = (authed and kind == "REQUEST") or cred == "valid"  # a CONNECT always has to carry its own credentials
                        if kind == "REQUEST" and authed:
                            want = ("status", None, got[2] if got[0] == "status" else None)  # header handling on pre-authenticated connections is not demanded
                        elif ok_now:
                            want = ("status", None, "header-gone")
                        else:
                            want = ("status", 407 if is_proxy else 401, "header-kept" if CREDS[cred] is not None else "header-gone")
                            if got[0] == "status" and got[1] == want[1]:
                                want = got  # header may or may not be kept on a refused request
                        if kind == "CONNECT" and cred == "valid":
                            authed = True
                    if got != want:
                        bad.setdefault((mode, got, want), " -> ".join(hist))
                        break
                else:
                    # probe: a request without credentials on ANOTHER connection is never let through
                    other = Rec("Client", _name="other_conn", proxy_mode=conn.proxy_mode)
                    headers = DictRec("Headers", {"Host": "example.com"}, case_insensitive=True, _name="request.headers")
                    f = Rec("HTTPFlow", _name="flow", request=Rec("Request", headers=headers, method="GET", host="example.com", port=80, scheme="http", authority=""), response=None,
                            client_conn=other, metadata=DictRec("dict", {}, _name="flow.metadata"), is_replay=None, live=True, server_conn=Rec("Server", via=None, address=None))
                    try:
                        it.method(addon, "requestheaders", f)
                        got = getattr(f.response, "status_code", None) if f.response is not None else None
                    except Raised as r:
                        got = f"raises {r.name}"
                    n += 1
                    if got != (407 if is_proxy else 401):
                        bad.setdefault((mode, ("other-connection", got), ("status", 407 if is_proxy else 401)), " -> ".join(hist) + " ; then REQUEST(none) on another connection")
    ctx.cells += n
    for (mode, got, want), h in sorted(bad.items(), key=str):
        ctx.fail("R20.7", where, f"{mode}: history {h}: outcome {got}, expected {want}",
                 "a request on a connection that never presented valid credentials is let through (or a valid one is refused / keeps its credential header)")
    if not bad:
        ctx.ok("R20.7", f"{n} hook invocations over all histories of length <= 3 x 4 credential classes x {len(modes)} modes agree with the reference")
    ctx.bounds.append("R20.7: histories of at most 2 (quick) / 3 (thorough) hook invocations on one connection, plus a probe on a second connection")


def check(ctx):
    ctx.rule("R20.7", "ProxyAuth hook methods interpreted over all histories (<= 3 steps) x credential classes x modes: only connections/requests with valid credentials pass")
    ctx.guard(r20_7, ctx)
    ctx.rule("R20.1", "ProxyAuth is a default addon and implements requestheaders / http_connect / socks5_auth as dispatched by the hook classes; Socks5AuthData.valid defaults to False")
    ctx.rule("R20.2", "deny mode: nothing is forwarded and no child layer starts in the HttpStream / Socks5Proxy models; refusals are answered")
    ctx.rule("R20.3", "ProxyAuth decision tables: skip only for authenticated connections / replays; accept => header removed; else auth-required response per mode")
    ctx.rule("R20.4", "parse_http_basic_auth splits the decoded credentials at the first colon only")
    ctx.rule("R20.5", "ProxyAuth() precedes UpstreamAuth() in default_addons")
    ctx.rule("R20.6", "an unauthenticated request is answered, never aborted by an exception escaping HttpStream")
    ctx.trust("addon manager dispatches a hook to the addon method named after it; validators decide (username, password) correctly")
    m = ctx.model
    # R20.1
    order = default_addon_order(ctx)
    ctx.check("ProxyAuth" in order, "R20.1", ("mitmproxy/addons/__init__.py", "default_addons", 0), "proxyauth.ProxyAuth() in default_addons",
              "the ProxyAuth addon is not loaded: the proxyauth option is never enforced", desc="ProxyAuth() in default_addons")
    m.cls(PA, "ProxyAuth")
    pairs = [(HK, "HttpRequestHeadersHook"), (HK, "HttpConnectHook"), (MODES, "Socks5AuthHook")]
    missing = False
    for rel, hook in pairs:
        meth = hook_method(ctx, rel, hook)
        has = m.has(PA, f"ProxyAuth.{meth}")
        missing |= not has
        ctx.check(has, "R20.1", (PA, "ProxyAuth", m.cls(PA, "ProxyAuth")), f"ProxyAuth.{meth} <- {hook}", f"ProxyAuth does not implement {meth}: {hook} is never authenticated",
                  desc=f"ProxyAuth.{meth} <- {hook}")
    data = m.cls(MODES, "Socks5AuthData")
    dflt = [s.value for s in data.body if isinstance(s, ast.AnnAssign) and isinstance(s.target, ast.Name) and s.target.id == "valid"]
    ctx.require(len(dflt) == 1, "Socks5AuthData.valid field vanished")
    ctx.check(isinstance(dflt[0], ast.Constant) and dflt[0].value is False, "R20.1", (MODES, "Socks5AuthData", data), "Socks5AuthData.valid default",
              "SOCKS5 credentials are valid unless an addon says otherwise", desc="Socks5AuthData.valid = False by default")
    ctx.expect_instances("R20.1", 5)
    # R20.5
    if "ProxyAuth" in order and "UpstreamAuth" in order:
        ctx.check(order.index("ProxyAuth") < order.index("UpstreamAuth"), "R20.5", ("mitmproxy/addons/__init__.py", "default_addons", 0), "ProxyAuth() before UpstreamAuth()",
                  "UpstreamAuth runs first: ProxyAuth validates / deletes the upstream credentials instead of the client's", desc="ProxyAuth() < UpstreamAuth() in default_addons")
    else:
        ctx.require("UpstreamAuth" in order, "UpstreamAuth() vanished from default_addons")
    ctx.expect_instances("R20.5", 1 if "ProxyAuth" in order else 0)
    # R20.2 / R20.6
    ctx.guard(r20_2_http, ctx)
    ctx.guard(r20_2_socks, ctx)
    ctx.expect_instances("R20.2", 2)
    # R20.3
    if not missing:
        ctx.guard(r20_3, ctx)
        ctx.expect_instances("R20.3", 2)
    # R20.4
    ctx.guard(r20_4, ctx)
    ctx.expect_instances("R20.4", 1)


I = HTTP
MUTANTS = [
    Mutant("connect-trusts-metadata-set-before-validation", PA, """        if self.validator and self.authenticate_http(f):
            # Make a note""", """        if self.validator and (self.authenticate_http(f) or f.request.headers.get("Proxy-Authorization")):
            # Make a note""", "R20.7"),
    Mutant("authenticated-any-connection", PA, "            if f.client_conn in self.authenticated:", "            if self.authenticated:", "R20.7"),
    Mutant("socks-marks-before-validating", PA, """        if self.validator and self.validator(data.username, data.password):
            data.valid = True
            self.authenticated[data.client_conn] = data.username, data.password""", """        self.authenticated[data.client_conn] = data.username, data.password
        if self.validator and self.validator(data.username, data.password):
            data.valid = True""", "R20.7"),
    Mutant("proxyauth-not-default", "mitmproxy/addons/__init__.py", "        proxyauth.ProxyAuth(),\n", "", "R20.1"),
    Mutant("connect-hook-method-renamed", PA, "    def http_connect(self, f: http.HTTPFlow) -> None:", "    def httpconnect(self, f: http.HTTPFlow) -> None:", "R20.1"),
    Mutant("socks-valid-by-default", MODES, "    valid: bool = False\n", "    valid: bool = True\n", "R20.1"),
    Mutant("consume-ignores-preset-response", I, "            elif self.flow.response:\n                # response was set by an inline script.", "            elif False:\n                # response was set by an inline script.", "R20.2"),
    Mutant("requestheaders-hook-dropped", I, "        yield HttpRequestHeadersHook(self.flow)\n        if (yield from self.check_killed(True)):\n            return\n\n        if self.flow.request.headers.get(\"expect\"",
           "        if self.flow.request.headers.get(\"expect\"", "R20.2"),
    Mutant("connect-eager-open-before-auth", I, "            not self.flow.response\n            and self.context.options.connection_strategy == \"eager\"", "            self.context.options.connection_strategy == \"eager\"", "R20.2"),
    Mutant("connect-refusal-starts-child", I, "        if 200 <= self.flow.response.status_code < 300:\n            yield HttpConnectedHook(self.flow)", "        if 200 <= self.flow.response.status_code < 500:\n            yield HttpConnectedHook(self.flow)", "R20.2"),
    Mutant("upstream-connect-raises-on-preset-response", I, "    def handle_connect_upstream(self):\n", "    def handle_connect_upstream(self):\n        if self.flow.response:\n            raise NotImplementedError(\"Can't set a response for a CONNECT in upstream mode.\")\n", "R20.6"),
    Mutant("socks-no-return-after-failed-auth", MODES, "            yield from self.socks_err(\"authentication failed\")\n            return\n", "            yield from self.socks_err(\"authentication failed\")\n", "R20.2"),
    Mutant("socks-greet-skips-auth", MODES, "            method = SOCKS5_METHOD_USER_PASSWORD_AUTHENTICATION\n            self.state = self.state_auth\n", "            method = SOCKS5_METHOD_USER_PASSWORD_AUTHENTICATION\n            self.state = self.state_connect\n", "R20.2"),
    Mutant("socks-valid-test-inverted", MODES, "        if not data.valid:\n", "        if data.valid:\n", "R20.2"),
    Mutant("replay-check-inverted", PA, "            elif f.is_replay:\n                pass\n            else:\n                self.authenticate_http(f)", "            elif not f.is_replay:\n                pass\n            else:\n                self.authenticate_http(f)", "R20.3"),
    Mutant("header-not-removed", PA, "            del f.request.headers[auth_header]\n", "", "R20.3"),
    Mutant("validator-exception-accepts", PA, "        is_valid = False\n\n        is_proxy", "        is_valid = True\n\n        is_proxy", "R20.3"),
    Mutant("reverse-mode-answers-407", PA, "(mode_specs.RegularMode, mode_specs.UpstreamMode)", "(mode_specs.RegularMode, mode_specs.UpstreamMode, mode_specs.ReverseMode)", "R20.3"),
    Mutant("challenge-header-swapped", PA, "        headers = {\"WWW-Authenticate\": f'Basic realm=\"{REALM}\"'}", "        headers = {\"Proxy-Authenticate\": f'Basic realm=\"{REALM}\"'}", "R20.3"),
    Mutant("connect-authenticated-without-check", PA, "        if self.validator and self.authenticate_http(f):\n", "        if self.validator and (self.authenticate_http(f) or True):\n", "R20.3"),
    Mutant("socks-auth-ignores-validator-result", PA, "        if self.validator and self.validator(data.username, data.password):", "        if self.validator:", "R20.3"),
    Mutant("F-C20-split-every-colon", PA, "            .split(\":\", 1)\n", "            .split(\":\")\n", "R20.4"),
    Mutant("split-at-last-colon", PA, "            .split(\":\", 1)\n", "            .rsplit(\":\", 1)\n", "R20.4"),
    Mutant("upstreamauth-before-proxyauth", "mitmproxy/addons/__init__.py", "        proxyauth.ProxyAuth(),\n        proxyserver.Proxyserver(),", "        upstream_auth.UpstreamAuth(),\n        proxyauth.ProxyAuth(),\n        proxyserver.Proxyserver(),", "R20.5"),
]
