"""C27 - DNS replies correspond to client queries; TCP framing ignores segmentation.

Decided:
  R27.1  symbolic path analysis of `DNSLayer.state_query`, case-split on the direction flag: a message from the *server*
         never constructs a DNSFlow, never registers one, never reaches handle_request, and reaches handle_response only
         with the flow found under `self.flows[msg.id]` (never on the KeyError path) - so no request-less flow is ever
         shown to addons (F-C27, repaired).  A message from the *client* reaches handle_request only with the flow
         registered / found under that message's id, and never handle_response.  handle_request stores the query in
         flow.request before any hook fires.
  R27.2  `DNSMessage.fail` builds its result from self.id / self.op_code / self.recursion_desired / self.questions,
         query=False, the given response code; `handle_error` sends `flow.request.fail(SERVFAIL)` (a non-NOERROR code)
         to the *client* after the error hook.
  R27.3  finite evaluation: `DNSLayer.unpack_message`'s AST is interpreted on concrete length-prefixed streams under
         EVERY segmentation (all 2^(n-1) compositions of the stream) and with both directions interleaved: the extracted
         message sequence and the retained tail never depend on the segmentation, directions do not share a buffer, a
         zero length prefix raises the exception class `state_query` handles, datagrams are not buffered.  On that
         exception `state_query` closes the sender's connection, processes nothing and enters `state_done`, which is silent.
NOT decided: that an upstream reply has the same *question* as the query with its id (the layer does not compare them).
"""

from __future__ import annotations

import ast
import struct as pystruct

from ..core import AnalysisError
from ..core import norm
from ..model import attr_chain
from ..model import last_attr
from ..model import walk_in_order
from ..model import yields_in
from ..paths import C
from ..paths import is_const
from ..paths import traces_of
from ..selftest import Mutant
from ._helpers_D import attr_of
from ._helpers_D import Concrete
from ._helpers_D import int_constants
from ._helpers_D import Raised
from ._helpers_D import show
from ._helpers_D import sym
from ._helpers_D import SymSpec
from ._helpers_D import call_args
from ._helpers_D import last_attr_name
from ._helpers_D import SendSpec

PROP = "C27"
REG = {
    "strength": "partial",
    "technique": "symbolic path analysis of DNSLayer.state_query (case split on direction, exception edges), constructor provenance of "
    "DNSMessage.fail, finite evaluation of unpack_message's AST over all segmentations of length-prefixed streams",
    "claim": "flows are created only for client queries and responses are matched by message id to a registered flow; synthesised SERVFAIL "
    "copies id/opcode/RD/questions and goes to the client; TCP frame extraction is independent of segmentation and direction, malformed "
    "length closes the sender and stops the layer.",
    "note": "struct.Struct semantics are taken from the Python stdlib; DNSMessage.unpack is an opaque identity in the framing evaluation.",
}

LAYER = "mitmproxy/proxy/layers/dns.py"
DNS = "mitmproxy/dns.py"
RC = "mitmproxy/net/dns/response_codes.py"


class QuerySpec(SendSpec):
    """state_query: implicit exception edges of the two try blocks + flow provenance events"""

    def raises_into(self, stmt, handler_names, st):
        out = []
        for n in ast.walk(stmt):
            if isinstance(n, ast.Subscript) and isinstance(n.ctx, ast.Load) and attr_chain(n.value) == "self.flows" and "KeyError" in handler_names:
                out.append("KeyError")
            if isinstance(n, ast.Call) and attr_chain(n.func) == "self.unpack_message" and "error" in handler_names:
                out.append("error")
        return out

    def handler_event(self, h, ename, st):
        return ("except", ename)

    def stmt_events(self, stmt, st, depth):
        out = SendSpec.stmt_events(self, stmt, st, depth)
        if isinstance(stmt, ast.Assign):
            if isinstance(stmt.value, ast.Call) and last_attr(stmt.value.func) == "DNSFlow":
                out.append(("new_flow",))
            for t in stmt.targets:
                if isinstance(t, ast.Subscript):
                    out.append(("store", self.value(t.value, st, depth), self.value(t.slice, st, depth), self.value(stmt.value, st, depth)))
                elif attr_chain(t) == "self._handle_event":
                    out.append(("state", attr_chain(stmt.value)))
        v = stmt.value if isinstance(stmt, (ast.Expr, ast.Assign)) else None
        if isinstance(v, ast.Yield) and isinstance(v.value, ast.Call) and last_attr(v.value.func) in ("CloseConnection", "CloseTcpConnection") and v.value.args:
            out.append(("close", self.value(v.value.args[0], st, depth)))
        return out


def direction_flag(sq) -> str:
    """name of the local that holds `event.connection is/== self.context.client`"""
    hits = []
    for n in walk_in_order(sq):
        if isinstance(n, ast.Assign) and len(n.targets) == 1 and isinstance(n.targets[0], ast.Name) and isinstance(n.value, ast.Compare):
            c = n.value
            if len(c.ops) == 1 and isinstance(c.ops[0], (ast.Is, ast.Eq)) and {attr_chain(c.left), attr_chain(c.comparators[0])} == {"event.connection", "self.context.client"}:
                hits.append(n.targets[0].id)
    if len(hits) != 1:
        raise AnalysisError(f"state_query: direction flag `x = event.connection is self.context.client` not found uniquely ({hits})")
    return hits[0]


def check_r271(ctx):
    sq = ctx.func(LAYER, "DNSLayer.state_query")
    flag = direction_flag(sq)
    where = (LAYER, "DNSLayer.state_query", sq)
    seen = {True: 0, False: 0}
    for from_client in (True, False):
        spec = QuerySpec(loop_vars=SymSpec.loop_vars_of(sq), forced={flag: from_client})
        traces, eng = traces_of(sq, spec)
        ctx.paths += len(traces)
        side = "client" if from_client else "server"
        for trace, how, st in traces:
            if how != "return":
                continue
            subs = [e for e in trace if e[0] == "sub" and e[1] in ("self.handle_request", "self.handle_response")]
            news = [e for e in trace if e[0] == "new_flow"]
            stores = [e for e in trace if e[0] == "store" and e[1] == sym("self.flows")]
            if not from_client:
                ctx.check(not news and not stores, "R27.1", where, "a server message creates / registers a DNSFlow",
                          "a message received from the upstream server constructs or registers a DNSFlow: an unsolicited reply becomes a request-less flow",
                          desc="server path: no DNSFlow construction / registration")
            for e in subs:
                seen[from_client] += 1
                want = "self.handle_request" if from_client else "self.handle_response"
                if e[1] != want:
                    ctx.fail("R27.1", where, f"message from the {side} handled by {e[1][5:]}",
                             f"a message received from the {side} is passed to {e[1]}: queries and replies are confused")
                    continue
                if len(e[2]) != 2:
                    raise AnalysisError(f"state_query: unexpected arguments for {e[1]}: {e[2]}")
                flow_v, msg_v = e[2]
                key = attr_of(msg_v, "id")
                looked_up = flow_v == ("idx", sym("self.flows"), key)
                fresh = isinstance(flow_v, tuple) and flow_v[0] == "call" and last_attr_name(flow_v) == "DNSFlow"
                registered = any(s[2] == key and s[3] == flow_v for s in stores)
                if from_client:
                    ok = looked_up or (fresh and registered)
                    ctx.check(ok, "R27.1", where, "handle_request(flow, msg): flow is self.flows[msg.id] or a new flow registered under msg.id",
                              f"query is handled with flow {show(flow_v)} which is neither looked up nor registered under {show(key)} (stores: {[(show(s[2])) for s in stores]}): the reply cannot be matched",
                              desc="client path: flow looked up / registered under msg.id")
                else:
                    ctx.check(looked_up, "R27.1", where, "handle_response(flow, msg): flow is self.flows[msg.id]",
                              f"a reply from the server is handled with flow {show(flow_v)}, not the flow registered for its id {show(key)}: "
                              "dns_response fires for a flow without the matching request / the reply goes out unmatched",
                              desc="server path: flow found under msg.id")
    ctx.require(seen[True] >= 2 and seen[False] >= 1 or ctx.findings, f"state_query: delegation paths not found {seen}")
    # the query is stored before any hook
    hr = ctx.func(LAYER, "DNSLayer.handle_request")
    first = None
    for stmt in hr.body:
        if isinstance(stmt, ast.Expr) and isinstance(stmt.value, ast.Constant):
            continue
        first = stmt
        break
    ok = isinstance(first, ast.Assign) and [attr_chain(t) for t in first.targets] == ["flow.request"] and attr_chain(first.value) == "msg"
    if not ok:
        # accept any position as long as it precedes the first hook on every path
        class S(SendSpec):
            def stmt_events(self, stmt, st, depth):
                out = SendSpec.stmt_events(self, stmt, st, depth)
                if isinstance(stmt, ast.Assign) and any(attr_chain(t) == "flow.request" for t in stmt.targets):
                    out.append(("set_request", self.value(stmt.value, st, depth)))
                return out

        traces, eng = traces_of(hr, S())
        ok = all(
            (lambda hooks, sets: not hooks or (sets and sets[0][0] < hooks[0] and sets[0][1] == sym("msg")))(
                [i for i, e in enumerate(t) if e[0] == "hook"], [(i, e[1]) for i, e in enumerate(t) if e[0] == "set_request"]
            )
            for t, how, st in traces
        )
    ctx.check(ok, "R27.1", (LAYER, "DNSLayer.handle_request", hr), "flow.request = msg precedes the first hook",
              "a hook can fire for a flow whose request is not (yet) the query that created it", desc="handle_request: flow.request = msg before any hook")


def dataclass_fields(model, rel, cls):
    out = []
    for st in model.cls(rel, cls).body:
        if isinstance(st, ast.AnnAssign) and isinstance(st.target, ast.Name) and "ClassVar" not in ast.unparse(st.annotation):
            out.append(st.target.id)
    return out


def check_r272(ctx):
    m = ctx.model
    fail = ctx.func(DNS, "DNSMessage.fail")
    fields = dataclass_fields(m, DNS, "DNSMessage")
    ctx.require(fields[:3] == ["id", "query", "op_code"] and "questions" in fields and "recursion_desired" in fields, f"DNSMessage fields changed: {fields}")
    traces, eng = traces_of(fail, SymSpec())
    rets = [st.get("$ret") for t, how, st in traces if how == "return"]
    ctx.require(len(rets) >= 1, "DNSMessage.fail never returns")
    params = [a.arg for a in fail.args.args]
    ctx.require(params == ["self", "response_code"], f"DNSMessage.fail signature changed: {params}")
    want = {
        "id": sym("self.id"),
        "query": C(False),
        "op_code": sym("self.op_code"),
        "recursion_desired": sym("self.recursion_desired"),
        "questions": sym("self.questions"),
        "response_code": sym("response_code"),
    }
    for r in rets:
        if not (isinstance(r, tuple) and r[0] == "call" and last_attr_name(r) in ("DNSMessage", "cls", "type(self)")):
            raise AnalysisError(f"DNSMessage.fail returns something that is not a DNSMessage(...) construction: {show(r)}")
        args = call_args(r, fields)
        if args is None:
            # keywords only, possibly not all fields: map what is there
            args_map = {a[1]: a[2] for a in r[2] if isinstance(a, tuple) and a and a[0] == "kw"}
            pos = [a for a in r[2] if not (isinstance(a, tuple) and a and a[0] == "kw")]
            for f, v in zip(fields, pos):
                args_map[f] = v
        else:
            args_map = dict(zip(fields, args))
        for f, w in want.items():
            got = args_map.get(f)
            ctx.check(got == w, "R27.2", (DNS, "DNSMessage.fail", fail), f"fail(): {f} = {show(w)}",
                      f"the synthesised failure reply has {f}={show(got) if got is not None else 'missing'}; the client's resolver matches replies on id/question and expects opcode/RD echoed, QR=1",
                      desc=f"fail(): {f} <- {show(w)}")
    # NOERROR is refused
    codes = int_constants(m, RC)
    ctx.require("SERVFAIL" in codes and "NOERROR" in codes and codes["SERVFAIL"] != codes["NOERROR"], "response_codes.SERVFAIL / NOERROR changed")
    he = ctx.func(LAYER, "DNSLayer.handle_error")
    traces, eng = traces_of(he, SendSpec())
    n = 0
    for trace, how, st in traces:
        sends = [(i, e) for i, e in enumerate(trace) if e[0] == "send"]
        ctx.require(how == "return" and len(sends) == 1, f"handle_error: expected exactly one SendData per path, got {len(sends)} ({how})")
        i, e = sends[0]
        n += 1
        pay = e[2]
        a = call_args(pay)
        if a is None or last_attr_name(pay) != "pack_message" or not a:
            raise AnalysisError(f"handle_error payload is not pack_message(..): {show(pay)}")
        x = a[0]
        xa = call_args(x)
        ok = (
            e[1] == sym("self.context.client")
            and isinstance(x, tuple) and x[0] == "call" and x[1] == "flow.request.fail" and xa == [sym("response_codes.SERVFAIL")]
            and any(t == ("hook", "DnsErrorHook") for t in trace[:i])
        )
        ctx.check(ok, "R27.2", (LAYER, "DNSLayer.handle_error", he), "SendData(client, pack_message(flow.request.fail(SERVFAIL)))",
                  f"on an upstream failure the layer sends {show(x)} to {show(e[1])}: the client must receive a SERVFAIL built from its own query, after the error hook",
                  desc="handle_error: SERVFAIL from flow.request to the client after DnsErrorHook")
    ctx.require(n >= 1, "handle_error sends nothing")


# ---------------------------------------------------------------------------------------------------
# R27.3 finite evaluation of unpack_message


def compositions(n, limit=None):
    """all ways to cut a stream of n bytes into consecutive non-empty segments (as tuples of lengths)"""
    for mask in range(1 << (n - 1)):
        cuts, last = [], 0
        for i in range(n - 1):
            if mask >> i & 1:
                cuts.append(i + 1 - last)
                last = i + 1
        cuts.append(n - last)
        yield tuple(cuts)


class FramingHarness:
    def __init__(self, ctx):
        m = ctx.model
        self.ctx = ctx
        self.fn = ctx.func(LAYER, "DNSLayer.unpack_message")
        params = [a.arg for a in self.fn.args.args]
        ctx.require(params == ["self", "data", "from_client"], f"unpack_message signature changed: {params}")
        label = m.const(LAYER, "_LENGTH_LABEL")
        ctx.require(isinstance(label, ast.Call) and attr_chain(label.func) == "struct.Struct" and len(label.args) == 1 and isinstance(label.args[0], ast.Constant),
                    "_LENGTH_LABEL is no struct.Struct(<literal>)")
        try:
            self.label = pystruct.Struct(label.args[0].value)
        except pystruct.error:
            raise AnalysisError(f"_LENGTH_LABEL format {label.args[0].value!r} is not a struct format")
        init = ctx.func(LAYER, "DNSLayer.__init__")
        self.buffers = []
        for st in init.body:
            if isinstance(st, ast.Assign) and isinstance(st.value, ast.Call) and attr_chain(st.value.func) == "bytearray" and not st.value.args:
                self.buffers += [attr_chain(t)[5:] for t in st.targets if attr_chain(t).startswith("self.")]
        ctx.require(len(self.buffers) >= 2, f"DNSLayer.__init__ creates {self.buffers} as bytearray buffers; expected one per direction")
        self.steps = 0

    def fresh(self, proto):
        return {"attrs": {b: bytearray() for b in self.buffers}, "proto": proto}

    def feed(self, layer, data: bytes, from_client: bool):
        """-> ('ok', [messages]) | ('raise', ExcName)"""
        label = self.label

        def resolve(name):
            if name in ("self.context.client.transport_protocol", "self.context.server.transport_protocol"):
                return layer["proto"]
            if name == "_LENGTH_LABEL.size":
                return label.size
            raise KeyError(name)

        funcs = {
            "_LENGTH_LABEL.unpack_from": lambda buf, off=0: self._unpack(buf, off),
            "dns.DNSMessage.unpack": lambda data, timestamp=None: bytes(data),
            "time.time": lambda: 0.0,
            "struct.error": lambda *a: "struct.error",
        }
        ev = Concrete(resolve, layer["attrs"], funcs, max_steps=50000)
        try:
            out = ev.call(self.fn, bytes(data), from_client)
        except Raised as r:
            self.steps += ev.steps
            return ("raise", r.name)
        self.steps += ev.steps
        if not isinstance(out, list):
            raise AnalysisError(f"unpack_message returned {type(out).__name__}, expected a list")
        return ("ok", out)

    def _unpack(self, buf, off):
        try:
            return self.label.unpack_from(bytes(buf), off)
        except pystruct.error:
            raise Raised("error")


def frames(payloads):
    return b"".join(len(p).to_bytes(2, "big") + p for p in payloads)


def check_r273(ctx):
    h = FramingHarness(ctx)
    where = (LAYER, "DNSLayer.unpack_message", h.fn)
    thorough = ctx.tier == "thorough"
    streams = [
        ([b"abc", b"z"], b""),               # two complete frames
        ([b"q"], b"\x00\x05he"),             # complete frame + incomplete frame (tail stays buffered)
        ([b"xy"], b"\x00"),                  # half a length prefix stays buffered
    ]
    if thorough:
        streams.append(([b"a", b"bc", b"d"], b"\x00\x02e"))
    bad = {}
    n_seg = 0
    for payloads, tail in streams:
        stream = frames(payloads) + tail
        for comp in compositions(len(stream)):
            n_seg += 1
            for from_client in (True, False):
                layer = h.fresh("tcp")
                got, pos, failed = [], 0, None
                for ln in comp:
                    r = h.feed(layer, stream[pos:pos + ln], from_client)
                    pos += ln
                    if r[0] == "raise":
                        failed = r[1]
                        break
                    got += r[1]
                rest = {b: bytes(v) for b, v in layer["attrs"].items() if v}
                # exactly the complete frames, in order; the incomplete tail (and nothing else) stays in ONE buffer
                if failed or got != payloads or sorted(rest.values()) != ([tail] if tail else []):
                    bad.setdefault("segmentation changes the extracted messages", (payloads, tail, comp, from_client, failed, got, rest))
            ctx.cells += 2
    # a 2-byte length > 255 (endianness) with cuts around the prefix and the end
    big = bytes(range(256)) + b"!!"
    stream = frames([big, b"k"])
    for cut in (1, 2, 3, 259, 260, 261, 262, 263):
        layer = h.fresh("tcp")
        got = []
        for seg in (stream[:cut], stream[cut:]):
            r = h.feed(layer, seg, True)
            got = got + r[1] if r[0] == "ok" else ["raise " + r[1]]
        ctx.cells += 1
        if got != [big, b"k"]:
            bad.setdefault("258-byte frame is not extracted (length prefix byte order / arithmetic)", ([b"<258 bytes>", b"k"], b"", (cut, len(stream) - cut), True, None, [g if len(g) < 10 else f"<{len(g)} bytes>" for g in got], {}))
    for why, (payloads, tail, comp, from_client, failed, got, rest) in bad.items():
        ctx.fail("R27.3", where, why,
                 f"stream of frames {payloads} + tail {tail!r} from the {'client' if from_client else 'server'} delivered in segments of lengths {comp}: "
                 f"extracted {got}{' then raised ' + failed if failed else ''}, buffers left {rest}; expected exactly {payloads} and tail {tail!r} retained")
    if not bad:
        ctx.ok("R27.3", f"unpack_message(tcp): {n_seg} segmentations x 2 directions of {len(streams)} streams + 8 cuts of a 258-byte frame extract identical messages")
    # directions do not share state
    c_stream, s_stream = frames([b"CLIENT"]), frames([b"SERVER!"])
    okdir = True
    detail = ""
    for cc in range(1, len(c_stream)):
        for sc in range(1, len(s_stream)):
            layer = h.fresh("tcp")
            seq = [(c_stream[:cc], True), (s_stream[:sc], False), (c_stream[cc:], True), (s_stream[sc:], False)]
            outs = {True: [], False: []}
            for seg, fc in seq:
                r = h.feed(layer, seg, fc)
                if r[0] != "ok":
                    outs[fc].append("raise " + r[1])
                else:
                    outs[fc] += r[1]
            ctx.cells += 1
            if outs != {True: [b"CLIENT"], False: [b"SERVER!"]} and okdir:
                okdir = False
                detail = f"client segments {c_stream[:cc]!r},{c_stream[cc:]!r} interleaved with server segments {s_stream[:sc]!r},{s_stream[sc:]!r} yield client={outs[True]} server={outs[False]}"
    ctx.check(okdir, "R27.3", where, "interleaved directions are framed independently", f"partial frames of the two directions are mixed: {detail}",
              desc="unpack_message(tcp): interleaved partial frames of both directions stay separate")
    # zero length prefix
    handled = handled_framing_exceptions(ctx)
    okz = True
    detail = ""
    for stream in (b"\x00\x00", frames([b"ok"]) + b"\x00\x00rest"):
        for comp in compositions(len(stream)):
            layer = h.fresh("tcp")
            pos, res = 0, None
            for ln in comp:
                r = h.feed(layer, stream[pos:pos + ln], True)
                pos += ln
                if r[0] == "raise":
                    res = r[1]
                    break
            ctx.cells += 1
            if res not in handled and okz:
                okz = False
                detail = f"stream {stream!r} in segments {comp}: {'no exception' if res is None else 'raises ' + res}; state_query handles only {sorted(handled)}"
    ctx.check(okz, "R27.3", where, "zero length prefix raises the handled exception", f"a malformed (zero) length prefix does not close the connection: {detail}",
              desc=f"unpack_message(tcp): zero length prefix raises {sorted(handled)} under every segmentation")
    # datagrams
    layer = h.fresh("udp")
    outs = []
    for d in (b"one", b"\x00\x00", b"three"):
        r = h.feed(layer, d, True)
        outs.append(r)
    ctx.cells += 3
    oku = outs == [("ok", [b"one"]), ("ok", [b"\x00\x00"]), ("ok", [b"three"])] and not any(layer["attrs"].values())
    ctx.check(oku, "R27.3", where, "one datagram = one message, nothing buffered", f"UDP datagrams are not mapped one-to-one: {outs}, buffers {layer['attrs']}",
              desc="unpack_message(udp): datagram -> one message, no buffering")
    ctx.note(f"R27.3 interpreted unpack_message for {h.steps} AST steps")
    # malformed => close sender, stop
    sq = ctx.func(LAYER, "DNSLayer.state_query")
    spec = QuerySpec(loop_vars=SymSpec.loop_vars_of(sq))
    traces, eng = traces_of(sq, spec)
    n = 0
    for trace, how, st in traces:
        if ("except", "error") not in trace:
            continue
        n += 1
        i = trace.index(("except", "error"))
        after = trace[i + 1:]
        closes = [e for e in after if e[0] == "close"]
        states = [e for e in after if e[0] == "state"]
        subs = [e for e in after if e[0] in ("sub", "send", "hook")]
        ok = closes == [("close", sym("event.connection"))] and states[-1:] == [("state", "self.state_done")] and not subs and how == "return"
        ctx.check(ok, "R27.3", (LAYER, "DNSLayer.state_query", sq), "malformed message: CloseConnection(event.connection); state_done",
                  f"after an unparsable message the layer does {[e[:2] for e in after if e[0] != 'cond']} ({how}): the sender's connection must be closed and nothing further processed",
                  desc="state_query: malformed message closes the sender and enters state_done")
    ctx.require(n >= 1, "state_query: no handler path for the framing exception found")
    sd = ctx.func(LAYER, "DNSLayer.state_done")
    loud = [y for y in yields_in(sd) if not (isinstance(y, ast.YieldFrom) and isinstance(y.value, ast.Tuple) and not y.value.elts)]
    ctx.check(not loud, "R27.3", (LAYER, "DNSLayer.state_done", sd), "state_done yields nothing", "the finished DNS layer still emits commands", desc="state_done is silent")


def handled_framing_exceptions(ctx) -> set:
    sq = ctx.func(LAYER, "DNSLayer.state_query")
    out = set()
    for n in walk_in_order(sq):
        if isinstance(n, ast.Try) and any(isinstance(c, ast.Call) and attr_chain(c.func) == "self.unpack_message" for s in n.body for c in ast.walk(s)):
            for h in n.handlers:
                if h.type is None:
                    out |= {"error", "Exception"}
                else:
                    out |= {last_attr(x) for x in (h.type.elts if isinstance(h.type, ast.Tuple) else [h.type])}
    if not out:
        raise AnalysisError("state_query no longer guards unpack_message with try/except")
    return out


def check(ctx):
    ctx.rule("R27.1", "flows are created/registered only for client queries; replies reach handle_response only via self.flows[msg.id]; request stored before hooks")
    ctx.rule("R27.2", "DNSMessage.fail echoes id/op_code/RD/questions with QR=1; handle_error sends flow.request.fail(SERVFAIL) to the client")
    ctx.rule("R27.3", "unpack_message: segmentation/direction independent frame extraction (finite evaluation), malformed length closes the sender and stops")
    ctx.trust("struct.Struct.unpack_from (Python stdlib) for the length label")
    check_r271(ctx)
    check_r272(ctx)
    check_r273(ctx)
    for rule, n in (("R27.1", 6), ("R27.2", 7), ("R27.3", 6)):
        if not any(f.rule == rule for f in ctx.findings):
            ctx.expect_instances(rule, n)


MUTANTS = [
    # R27.1 (first = reverse of the F-C27 repair)
    Mutant("unsolicited-reply-creates-flow", LAYER,
           "                        if not from_client:\n                            yield commands.Log(\n                                f\"{event.connection} sent an unsolicited message: {msg.id}\"\n                            )\n                            continue\n",
           "", "R27.1"),
    Mutant("flow-registered-under-wrong-key", LAYER, "                        self.flows[msg.id] = flow\n", "                        self.flows[msg.op_code] = flow\n", "R27.1"),
    Mutant("flow-not-registered", LAYER, "                        self.flows[msg.id] = flow\n", "", "R27.1"),
    Mutant("directions-swapped", LAYER, "                    if from_client:\n                        yield from self.handle_request(flow, msg)\n", "                    if not from_client:\n                        yield from self.handle_request(flow, msg)\n", "R27.1"),
    Mutant("request-hook-before-request-set", LAYER, "        flow.request = msg  # if already set, continue and query upstream again\n        yield DnsRequestHook(flow)\n",
           "        yield DnsRequestHook(flow)\n        flow.request = msg\n", "R27.1"),
    # R27.2
    Mutant("servfail-id-zero", DNS, "            id=self.id,\n            query=False,\n            op_code=self.op_code,\n            authoritative_answer=False,\n            truncation=False,\n            recursion_desired=self.recursion_desired,\n            recursion_available=False,",
           "            id=0,\n            query=False,\n            op_code=self.op_code,\n            authoritative_answer=False,\n            truncation=False,\n            recursion_desired=self.recursion_desired,\n            recursion_available=False,", "R27.2"),
    Mutant("servfail-drops-rd", DNS, "            recursion_desired=self.recursion_desired,\n            recursion_available=False,", "            recursion_desired=False,\n            recursion_available=False,", "R27.2"),
    Mutant("servfail-without-question", DNS, "            response_code=response_code,\n            questions=self.questions,", "            response_code=response_code,\n            questions=[],", "R27.2"),
    Mutant("servfail-is-a-query", DNS, "            query=False,\n            op_code=self.op_code,\n            authoritative_answer=False,\n            truncation=False,\n            recursion_desired=self.recursion_desired,\n            recursion_available=False,",
           "            query=True,\n            op_code=self.op_code,\n            authoritative_answer=False,\n            truncation=False,\n            recursion_desired=self.recursion_desired,\n            recursion_available=False,", "R27.2"),
    Mutant("servfail-sent-upstream", LAYER, "        yield commands.SendData(\n            self.context.client,\n            pack_message(servfail,", "        yield commands.SendData(\n            self.context.server,\n            pack_message(servfail,", "R27.2"),
    Mutant("error-answers-with-noerror-template", LAYER, "servfail = flow.request.fail(response_codes.SERVFAIL)", "servfail = flow.request.succeed([])", "R27.2"),
    # R27.3
    Mutant("frame-needs-one-more-byte", LAYER, "                if size - offset < expected_size:\n", "                if size - offset <= expected_size:\n", "R27.3"),
    Mutant("incomplete-frame-no-rewind", LAYER, "                    offset -= _LENGTH_LABEL.size\n                    break\n", "                    break\n", "R27.3"),
    Mutant("consumed-bytes-kept", LAYER, "            del buf[:offset]\n", "", "R27.3"),
    Mutant("length-little-endian", LAYER, '_LENGTH_LABEL = struct.Struct("!H")', '_LENGTH_LABEL = struct.Struct("<H")', "R27.3"),
    Mutant("one-buffer-for-both-directions", LAYER, "        buf = self.req_buf if from_client else self.resp_buf\n", "        buf = self.req_buf\n", "R27.3"),
    Mutant("zero-length-accepted", LAYER, "                if expected_size == 0:\n                    raise struct.error(\"Message length field cannot be zero\")\n", "", "R27.3"),
    Mutant("zero-length-raises-unhandled", LAYER, "raise struct.error(\"Message length field cannot be zero\")", "raise ValueError(\"Message length field cannot be zero\")", "R27.3"),
    Mutant("malformed-keeps-connection", LAYER, "                yield commands.CloseConnection(event.connection)\n                self._handle_event = self.state_done\n", "                self._handle_event = self.state_done\n", "R27.3"),
    Mutant("malformed-keeps-running", LAYER, "                yield commands.CloseConnection(event.connection)\n                self._handle_event = self.state_done\n", "                yield commands.CloseConnection(event.connection)\n", "R27.3"),
    Mutant("prefix-split-loses-byte", LAYER, "                if size - offset < _LENGTH_LABEL.size:\n                    break\n", "                if size - offset < _LENGTH_LABEL.size:\n                    offset = size\n                    break\n", "R27.3"),
]
