"""C27 - DNS replies correspond to client queries; TCP framing ignores segmentation.

Every clause is decided by INTERPRETATION of the layer's code (its AST, through the model; nothing is imported or run): `DNSLayer`
is instantiated by interpreting its constructor chain, events are delivered through the handler installed at that moment (as
`Layer.handle_event` does), every generator runs eagerly and every yielded command is answered by the rule's environment (hooks may
be given an addon action, `OpenConnection` an outcome).  Helper methods, renamed locals, `.get` vs `try/except KeyError`, `match`,
extra logging / assertions / optional parameters are therefore all analysed through their *behaviour*; the rule never looks at the
shape of `state_query`, `handle_*`, `unpack_message` or `pack_message`.

The DNS wire codec is abstracted (it is C25/C26's subject): `DNSMessage.unpack` is replaced by a total toy decoder that yields
records bound to the repository's `DNSMessage` class (so `fail()` & co. are interpreted from the repository), `DNSMessage.packed`
by the matching toy encoder.  The framing of TCP streams handed to the layer is produced by the rule itself (RFC 1035 4.2.2:
two-byte big-endian length).

Decided:
  R27.1  bounded model check against a reference model: for EVERY short sequence (quick: 7 events up to length 2 and the 5 core events up
         to length 3 - starting with a query - over UDP, core events up to length 2 over TCP; thorough: up to length 3 / 4 over UDP, 3 over TCP) of {client query
         id A, the same id A with a *different question*, client query id B, a query id A that an addon fails (flow.error => SERVFAIL),
         upstream reply id A (carrying the question of the most recent query with that id), reply id B, reply with an id nobody asked
         for}, plus a list of longer id re-use sequences:
           * a client query fires exactly one DnsRequestHook, before any other hook, whose flow.request IS that query when it fires;
           * a query whose id is new, or belongs to a *completed* exchange (answered or failed; F-C27b, repaired), is a query of its
             own: the flow of its request hook has no response / error, only that hook fires, it is asked upstream and nothing is
             sent to the client; an *unanswered* re-sent query may keep its flow and is not constrained beyond the first bullet;
           * an upstream reply whose id is outstanding fires exactly one DnsResponseHook for a flow whose request is the client's
             most recent query with that id and whose response is that reply, and exactly one message goes to the client: a response
             with that id and the question of that query; a further reply for a completed exchange is delivered likewise or dropped;
           * an upstream reply with an id nobody asked for fires no hook and sends nothing (F-C27, repaired);
           * no hook ever fires for a flow without a client query in flow.request; every message sent to the client is a response
             with the question of the client's MOST RECENT query with that id.
  R27.2  `DNSMessage.fail` is interpreted on a matrix of queries (ids, opcodes, RD, question lists) x error codes: the result is a
         response (query=False) with id / op_code / recursion_desired / questions of the query and the given code.  End to end, for
         "no upstream address", "addon sets flow.error" and "OpenConnection fails" (UDP and TCP): after the DnsErrorHook exactly
         one message goes to the *client*: QR=1, rcode = response_codes.SERVFAIL (!= NOERROR), id / opcode / RD / question of the
         client's query.
  R27.3  finite evaluation: length-prefixed streams are delivered under EVERY segmentation (all 2^(n-1) compositions), from either
         side and with both directions interleaved: the sequence of byte strings handed to the codec never depends on the
         segmentation and the directions do not share a buffer; a 258-byte frame pins the byte order of the prefix; UDP datagrams
         map one-to-one and are never buffered.  A zero length prefix (under every segmentation) or a message the codec rejects
         makes the layer close the *sender's* connection without raising, nothing after the malformed prefix is ever decoded, and
         afterwards the layer is silent (further data and close events cause no command and no decoding).
NOT decided: that an upstream reply has the same *question* as the query with its id (the layer does not compare them); the wire
codec itself; what addons do to a message (only the three error sources of R27.2 are played).
"""

from __future__ import annotations

import ast
import itertools

from ..core import AnalysisError
from ..pyint import ClassRef
from ..pyint import Raised
from ..pyint import Rec
from ..selftest import Mutant
from ._helpers_C import CachedModel
from ._helpers_C import GenDone
from ._helpers_C import LayerInterp
from ._helpers_C import OpenRec
from ._helpers_D import int_constants

PROP = "C27"
REG = {
    "strength": "partial",
    "technique": "interpretation of DNSLayer (constructor, event handlers, helpers, DNSMessage.fail) from its AST against an environment that "
    "answers every command; bounded model check of short event sequences against a reference model of the property; finite evaluation of "
    "the TCP framing over all segmentations of length-prefixed streams",
    "claim": "flows are reported only for client queries and replies are matched by message id to the client's query; synthesised SERVFAIL "
    "copies id/opcode/RD/questions and goes to the client; TCP frame extraction is independent of segmentation and direction, a malformed "
    "length closes the sender and stops the layer.",
    "note": "struct / time / uuid come from the Python stdlib (time and uuid as deterministic stubs); the DNS wire codec is replaced by a toy "
    "bijection (DNSMessage.unpack / .packed), event sequences and streams are bounded (stated in the evidence).",
}

LAYER = "mitmproxy/proxy/layers/dns.py"
DNS = "mitmproxy/dns.py"
RC = "mitmproxy/net/dns/response_codes.py"
EVENTS = "mitmproxy/proxy/events.py"

MSG_FIELDS = ("id", "query", "op_code", "recursion_desired", "response_code", "questions")


# ---------------------------------------------------------------------------------------------------
# the interpreted world


class _Clock:
    now = 1000.0

    @staticmethod
    def time():
        _Clock.now += 1.0
        return _Clock.now


class _Uuid:
    n = 0

    @staticmethod
    def uuid4():
        _Uuid.n += 1
        return f"00000000-0000-4000-8000-{_Uuid.n:012d}"


def toy_wire(id, response=False, op_code=0, rd=False, rcode=0, qname=b""):
    """the toy codec's wire form: id(2) | QR(1 bit) opcode(4 bits) RD(1 bit) | rcode(1) | question name"""
    return bytes([id >> 8 & 255, id & 255, (0x80 if response else 0) | (op_code & 15) << 3 | (4 if rd else 0), rcode & 255]) + qname


def toy_decode(data: bytes):
    d = bytes(data) + b"\0\0\0\0"
    return {"id": d[0] << 8 | d[1], "query": not d[2] & 0x80, "op_code": d[2] >> 3 & 15, "recursion_desired": bool(d[2] & 4), "response_code": d[3], "qname": bytes(data[4:])}


MALFORMED = b"\xff\xff\xff\xff"  # a payload the toy codec rejects (struct.error, like the real one does for garbage); never produced by toy_wire


class _DNSInterp(LayerInterp):
    """LayerInterp + the codec abstraction, keyed on the *resolved* class (not on how the layer spells the call)"""

    world = None

    def getattr(self, base, attr, node, depth):
        if isinstance(base, ClassRef) and base._key() == (DNS, "DNSMessage"):
            if attr == "unpack":
                return self.world.codec_unpack
            if attr == "unpack_from":
                raise AnalysisError("DNS harness: the layer decodes messages through DNSMessage.unpack_from (only DNSMessage.unpack is abstracted)")
        if isinstance(base, Rec) and base._impl == (DNS, "DNSMessage") and attr in ("packed", "content") and attr not in base.__dict__:
            return self.world.codec_pack(base)
        return super().getattr(base, attr, node, depth)

    def stmt(self, st, env, mod, depth):
        # `buf += data` on a bytearray / list mutates the object in place (every alias sees it); pyint rebinds the target to a new object
        if isinstance(st, ast.AugAssign) and isinstance(st.op, ast.Add):
            cur = self.ev(st.target, env, mod, depth)
            if isinstance(cur, (bytearray, list)):
                self.tick()
                rhs = self.ev(st.value, env, mod, depth)
                if isinstance(rhs, GenDone):
                    rhs = list(rhs.yields)
                try:
                    cur += rhs
                except TypeError:
                    raise Raised("TypeError")
                self.assign(st.target, cur, env, mod, depth)
                return
        return super().stmt(st, env, mod, depth)

    def native_call(self, f, args, kwargs, where):
        # a helper generator that yields *data* (frames, messages) has been run eagerly: list(g) / sorted(g) / enumerate(g) see its values
        if any(isinstance(a, GenDone) for a in args):
            args = [list(a.yields) if isinstance(a, GenDone) else a for a in args]
        return super().native_call(f, args, kwargs, where)


MODEL_LIMIT_EXCEPTIONS = ("TypeError", "AttributeError", "NameError", "UnboundLocalError", "NotImplementedError", "RecursionError")


class Step:
    """what the layer did for one event"""

    __slots__ = ("event", "trace", "exc", "decoded")

    def __init__(self, event):
        self.event = event
        self.trace = []  # ('hook', Cls, flow, request, response, error) | ('send', conn, bytes) | ('close', conn) | ('open', conn) | ('other', text)
        self.exc = None
        self.decoded = []  # (bytes handed to the codec, message record | None if rejected)

    def hooks(self, cls=None):
        return [e for e in self.trace if e[0] == "hook" and (cls is None or e[1] == cls)]

    def sends(self, conn=None):
        return [e for e in self.trace if e[0] == "send" and (conn is None or e[1] == conn)]

    def visible(self):
        return [e for e in self.trace if e[0] != "open"]

    def show(self):
        out = []
        for e in self.trace:
            if e[0] == "hook":
                out.append(f"{e[1]}(request={_show_msg(e[3])}, response={_show_msg(e[4])})")
            elif e[0] == "send":
                out.append(f"SendData({e[1]}, {_short(e[2])})")
            else:
                out.append(f"{e[0]}({', '.join(str(x) for x in e[1:])})")
        if self.exc:
            out.append(f"raises {self.exc}")
        return "[" + ", ".join(out) + "]"


def _short(b):
    return repr(b) if not isinstance(b, (bytes, bytearray)) or len(b) <= 24 else f"<{len(b)} bytes>"


def _show_msg(m):
    if not isinstance(m, Rec):
        return repr(m)
    d = m.__dict__
    return f"<{'query' if d.get('query') else 'reply'} id={d.get('id')}>"


class DNSWorld:
    def __init__(self, ctx):
        m = ctx.model
        ctx.require(m.has(LAYER, "DNSLayer"), f"anchor vanished: {LAYER}::DNSLayer")
        ctx.require(m.has(DNS, "DNSMessage") and m.has(DNS, "DNSFlow"), f"anchor vanished: {DNS}::DNSMessage / DNSFlow")
        for ev in ("Start", "DataReceived", "ConnectionClosed"):
            ctx.require(m.has(EVENTS, ev), f"anchor vanished: {EVENTS}::{ev}")
        self.model = CachedModel(m)
        self.it = _DNSInterp(self.model, respond=self._respond, trusted_modules={"time": _Clock, "uuid": _Uuid}, max_steps=4_000_000)
        self.it.world = self
        self.evmod = self.model.module(EVENTS)
        self.steps = 0
        self.events = 0
        self.runs = 0
        self.addon = None  # callable(hook class name, flow record): what the addons do in a hook
        self.open_err = None  # outcome of OpenConnection
        self.step = None
        self.sender = None
        self.from_client = []  # message records decoded from client data (identity)

    # ---- codec abstraction
    def codec_unpack(self, buffer, timestamp=None):
        if isinstance(buffer, (Rec,)) or not isinstance(buffer, (bytes, bytearray, memoryview)):
            raise AnalysisError(f"DNS harness: DNSMessage.unpack called with {type(buffer).__name__}")
        data = bytes(buffer)
        if data[:4] == MALFORMED:
            if self.step is not None:
                self.step.decoded.append((data, None))
            raise Raised("error", "toy codec: malformed message")
        f = toy_decode(data)
        qs = [Rec("Question", _impl=(DNS, "Question"), name=f["qname"].decode("latin-1"), type=1, class_=1)] if f["qname"] else []
        msg = Rec("DNSMessage", _impl=(DNS, "DNSMessage"), id=f["id"], query=f["query"], op_code=f["op_code"], authoritative_answer=False, truncation=False,
                  recursion_desired=f["recursion_desired"], recursion_available=False, reserved=0, response_code=f["response_code"], questions=qs,
                  answers=[], authorities=[], additionals=[], timestamp=timestamp)
        if self.step is not None:
            self.step.decoded.append((data, msg))
        if self.sender == "client":
            self.from_client.append(msg)
        return msg

    codec_unpack._abstract_ok = True

    def codec_pack(self, msg: Rec) -> bytes:
        d = msg.__dict__
        missing = [f for f in MSG_FIELDS if f not in d]
        if missing:
            raise AnalysisError(f"DNS harness: a DNSMessage record without {missing} is serialised")
        qs = d["questions"]
        if not isinstance(d["id"], int) or not isinstance(d["op_code"], int) or not isinstance(d["response_code"], int) or not isinstance(qs, (list, tuple)):
            raise AnalysisError(f"DNS harness: DNSMessage fields outside the toy codec's domain: id={d['id']!r} op_code={d['op_code']!r} rcode={d['response_code']!r}")
        names = []
        for q in qs:
            n = q.__dict__.get("name") if isinstance(q, Rec) else None
            if not isinstance(n, str):
                raise AnalysisError("DNS harness: question without a name is serialised")
            names.append(n.encode("latin-1"))
        return toy_wire(d["id"], not d["query"], d["op_code"], bool(d["recursion_desired"]), d["response_code"], b"|".join(names))

    # ---- environment: answers every command
    @staticmethod
    def _conn(v):
        return v._name if isinstance(v, Rec) else repr(v)

    def _respond(self, cmd):
        tr = self.step.trace if self.step is not None else []
        if not isinstance(cmd, Rec) or not cmd.isa("Command"):
            return None  # a value yielded by a helper generator to its caller inside the layer (frames, messages): not a command
        d = cmd.__dict__
        if cmd.isa("SendData"):
            data = d.get("data")
            tr.append(("send", self._conn(d.get("connection")), bytes(data) if isinstance(data, (bytes, bytearray)) else data))
        elif cmd.isa("CloseConnection"):
            c = d.get("connection")
            tr.append(("close", self._conn(c)))
            if isinstance(c, Rec):
                object.__setattr__(c, "connected", False)
        elif cmd.isa("OpenConnection"):
            c = d.get("connection")
            tr.append(("open", self._conn(c)))
            if self.open_err is not None:
                return self.open_err
            if isinstance(c, Rec):
                object.__setattr__(c, "connected", True)
        elif cmd.isa("Log"):
            pass
        elif cmd.isa("StartHook") or cmd._cls.endswith("Hook"):
            flow = d.get("flow")
            if not isinstance(flow, Rec):
                flow = next((v for v in d.values() if isinstance(v, Rec)), None)
            fd = flow.__dict__ if isinstance(flow, Rec) else {}
            tr.append(("hook", cmd._cls, flow, fd.get("request"), fd.get("response"), fd.get("error")))
            if self.addon is not None and isinstance(flow, Rec):
                self.addon(cmd._cls, flow)
        else:
            tr.append(("other", cmd._cls))
        return None

    # ---- driving the layer
    def _mk_event(self, cls, *args):
        return self.it.instantiate(ClassRef(self.evmod, self.model.cls(EVENTS, cls)), list(args), {}, 0, cls)

    def new(self, proto: str, address=("upstream.example", 53), connected=True):
        self.runs += 1
        self.steps += self.it.steps
        self.it.steps = 0
        self.it.writes = []
        self.it.log = []
        self.addon = None
        self.open_err = None
        self.from_client = []
        self.proto = proto
        self.client = OpenRec("Client", _bases=("Connection",), _name="client", transport_protocol=proto, connected=True, address=None)
        self.server = OpenRec("Server", _bases=("Connection",), _name="server", transport_protocol=proto, connected=bool(connected and address), address=address)
        self.context = OpenRec("Context", _name="context", client=self.client, server=self.server, layers=[])
        self.layer = self.it.instantiate(ClassRef(self.model.module(LAYER), self.model.cls(LAYER, "DNSLayer")), [self.context], {}, 0, "DNSLayer")
        if not isinstance(self.layer, Rec) or self.layer.__dict__.get("context") is not self.context:
            raise AnalysisError("DNS harness: constructing DNSLayer(context) does not give a layer bound to the context")
        st = self._deliver("Start", None)
        if st.exc or st.visible():
            raise AnalysisError(f"DNS harness: events.Start is not handled silently: {st.show()}")
        return self

    def _deliver(self, kind, sender, *args):
        self.step = Step((kind, sender) + tuple(args))
        self.sender = sender
        self.events += 1
        conn = {"client": self.client, "server": self.server, None: None}[sender]
        ev = self._mk_event(kind, *(([conn] if conn is not None else []) + list(args)))
        self.it.log = []
        self.it.writes = []
        try:
            h = self.it.getattr(self.layer, "_handle_event", None, 0)
            self.it.apply(h, [ev], {}, 0)
        except Raised as e:
            if e.name in MODEL_LIMIT_EXCEPTIONS:
                # could be a defect, could be a construct the interpreter does not model exactly: never a verdict
                raise AnalysisError(f"DNS harness: handling {kind} from the {sender} raises {e.name} ({e.msg}) in the interpreted layer after {self.step.show()}")
            self.step.exc = e.name
        st, self.step, self.sender = self.step, None, None
        return st

    def data(self, sender, data: bytes) -> Step:
        return self._deliver("DataReceived", sender, bytes(data))

    def closed(self, sender) -> Step:
        return self._deliver("ConnectionClosed", sender)

    def wire(self, payload: bytes) -> bytes:
        """one message as it travels on this world's transport"""
        return frames([payload]) if self.proto == "tcp" else payload

    def unwire(self, data):
        """-> the message bytes a peer reads from one SendData, or None if it cannot be read as exactly one message"""
        if not isinstance(data, (bytes, bytearray)):
            return None
        if self.proto != "tcp":
            return bytes(data)
        if len(data) < 2 or int.from_bytes(data[:2], "big") != len(data) - 2:
            return None
        return bytes(data[2:])

    def total_steps(self):
        return self.steps + self.it.steps


def frames(payloads):
    return b"".join(len(p).to_bytes(2, "big") + p for p in payloads)


def compositions(n):
    """all ways to cut a stream of n bytes into consecutive non-empty segments (as tuples of lengths)"""
    for mask in range(1 << (n - 1)):
        cuts, last = [], 0
        for i in range(n - 1):
            if mask >> i & 1:
                cuts.append(i + 1 - last)
                last = i + 1
        cuts.append(n - last)
        yield tuple(cuts)


class Verdicts:
    """first counterexample per obligation; an obligation that was evaluated and never failed is an instance"""

    def __init__(self, ctx, rule, where):
        self.ctx, self.rule, self.where = ctx, rule, where
        self.bad = {}
        self.seen = {}
        ctx.__dict__.setdefault("_open_verdicts", []).append(self)

    def expect(self, cond, construct, reason, desc=None):
        self.seen.setdefault(construct, desc or construct)
        if not cond and construct not in self.bad:
            self.bad[construct] = reason() if callable(reason) else reason
        return bool(cond)

    def flush(self, suffix="", only_failures=False):
        if self in self.ctx._open_verdicts:
            self.ctx._open_verdicts.remove(self)
        for construct, desc in self.seen.items():
            if construct in self.bad:
                self.ctx.fail(self.rule, self.where, construct, self.bad[construct])
            elif not only_failures:
                self.ctx.ok(self.rule, desc + suffix)


def _where(ctx, rel, qual):
    node = ctx.model.cls(rel, qual) if "." not in qual else ctx.model.func(rel, qual)
    return (rel, qual, node)


def _note_functions(ctx):
    for rel, q in ((LAYER, "DNSLayer.__init__"), (LAYER, "DNSLayer.state_query"), (LAYER, "DNSLayer.state_done"), (LAYER, "DNSLayer.handle_request"),
                   (LAYER, "DNSLayer.handle_response"), (LAYER, "DNSLayer.handle_error"), (LAYER, "DNSLayer.unpack_message"), (LAYER, "pack_message"), (DNS, "DNSMessage.fail")):
        if ctx.model.has(rel, q):
            ctx.func(rel, q)
    cls = ctx.model.cls(LAYER, "DNSLayer")
    for st in cls.body:
        if isinstance(st, ast.FunctionDef):
            ctx.functions.add(f"{LAYER}::DNSLayer.{st.name}")


# ---------------------------------------------------------------------------------------------------
# R27.1 bounded model check against the reference model

# name -> (message id, opcode, RD, question); A and A2 are two *different questions under the same id* (ids are 16 bit and get re-used)
IDS = {"A": (0x0005, 0, True, b"a.example"), "A2": (0x0005, 0, True, b"a2.example"), "B": (0x1234, 2, False, b"b.example"), "C": (0x0909, 0, True, b"c.example")}
# Q = client query, E = client query that an addon fails (flow.error set in the request hook => SERVFAIL), R = upstream reply with that id
# (a well-behaved upstream: it carries the question of the most recent query with the id)
CORE = (("Q", "A"), ("Q", "B"), ("R", "A"), ("R", "B"), ("R", "C"))
ALPHABET = CORE + (("Q", "A2"), ("E", "A"))
# id re-use after a completed exchange (answered / failed), unanswered re-sends, replies arriving late - longer than the exhaustive bound
TARGETED = (
    "QA RA QA2 RA", "QA RA QA RA", "EA QA2 RA", "EA QA RA", "EA EA QA2 RA", "QA QA2 RA", "QA QA RA QA2 RA", "QA RA RA QA2 RA",
    "QA RA QA2 QB RB RA", "QB QA RA RB QA2 RB RA", "QA RA QA2 RA QA RA", "QA RA EA QA2 RA", "QA2 RA QA RC RA",
)


def _parse(text):
    return tuple((t[0], t[1:]) for t in text.split())


def _seq_text(seq, proto):
    kinds = {"Q": "client query", "E": "client query (failed by an addon)", "R": "upstream reply"}
    return proto.upper() + ": " + " ; ".join(f"{kinds[k]} id={IDS[w][0]:#06x}" + (f" {IDS[w][3].decode()}" if k != "R" else "") for k, w in seq)


def _fail_in_request_hook(hook, flow):
    if hook == "DnsRequestHook":
        object.__setattr__(flow, "error", Rec("Error", _name="error", msg="addon says no", timestamp=0.0))


def run_sequence(w: DNSWorld, proto, seq, v: Verdicts):
    w.new(proto)
    latest = {}  # message id -> (question, record) of the client's most recent query with that id
    status = {}  # message id -> 'outstanding' | 'completed' (answered or failed)
    for n, (kind, who) in enumerate(seq):
        id, op, rd, q = IDS[who]
        if kind == "R":
            q = latest[id][0] if id in latest else q
            wire = toy_wire(id, True, op, rd, 0, q)
        else:
            wire = toy_wire(id, False, op, rd, 0, q)
        w.addon = _fail_in_request_hook if kind == "E" else None
        st = w.data("server" if kind == "R" else "client", w.wire(wire))
        w.addon = None
        at = lambda: f"{_seq_text(seq[:n + 1], proto)}: the last event makes the layer do {st.show()}"  # noqa: E731
        if not v.expect(st.exc is None and not [e for e in st.trace if e[0] == "close"], "ordinary queries and replies neither raise nor close a connection",
                        lambda: at() + "; well-formed traffic must be processed"):
            return
        msgs = [m for _, m in st.decoded]
        if not v.expect(len(msgs) == 1 and msgs[0] is not None, "one message per datagram / frame reaches the codec",
                        lambda: at() + f"; {len(msgs)} messages were decoded from one complete message"):
            return
        msg = msgs[0]
        hooks = st.hooks()
        before = status.get(id)
        if kind != "R":
            latest[id] = (q, msg)
        # no hook for a flow that does not carry the client's query
        v.expect(all(any(h[3] is m for m in w.from_client) for h in hooks), "every hook's flow.request is a query received from the client",
                 lambda: at() + ": a flow without the client's query is shown to addons (request-less flow / reply taken for a query)")
        # nothing reaches the client that does not answer its most recent query with that id
        for s in st.sends("client"):
            body = w.unwire(s[2])
            f = toy_decode(body) if body is not None else None
            v.expect(f is not None and not f["query"] and f["id"] in latest and latest[f["id"]][0] == f["qname"],
                     "every message sent to the client answers its most recent query with that id (id, question, QR=1)",
                     lambda: at() + f": the client receives {_short(s[2])}; its most recent queries are { {hex(i): x[0] for i, x in latest.items()} } - "
                     "an answer that belongs to an earlier exchange (or to nobody) is delivered for a different question")
        if kind != "R":
            req = st.hooks("DnsRequestHook")
            v.expect(len(req) == 1 and req[0][3] is msg and hooks[0] is req[0], "client query: exactly one DnsRequestHook, first hook of the event, flow.request is that query when it fires",
                     lambda: at() + ": the query must be stored in flow.request before the (single) request hook, which precedes every other hook")
            if before == "completed" and len(req) == 1:
                # the id belongs to an exchange that is over: this is a query of its own (F-C27b, repaired)
                v.expect(req[0][4] is None and req[0][5] is None, "query re-using the id of a completed exchange: shown to addons as a query of its own (no response / error yet)",
                         lambda: at() + ": the flow of the request hook still carries the previous exchange's response / error, which is then sent for the new question")
            if kind == "Q":
                asked_up = [toy_decode(b) for b in (w.unwire(s[2]) for s in st.sends("server")) if b is not None]
                fresh = before != "outstanding"
                v.expect(len(hooks) == 1 and not st.sends("client") and (not fresh or [(f["id"], f["query"], f["qname"]) for f in asked_up] == [(id, True, q)]),
                         "client query (first use of the id, or re-use after a completed exchange): only the request hook, asked upstream, nothing sent to the client yet",
                         lambda: at() + ": the query must be asked upstream; nothing can answer it yet")
                status[id] = "outstanding"
            else:
                errs = st.hooks("DnsErrorHook")
                sends = st.sends("client")
                v.expect(len(errs) == 1 and errs[0][3] is msg and len(hooks) == 2 and len(sends) == 1, "client query failed by an addon: request hook, error hook for that query, one reply to the client",
                         lambda: at() + ": expected DnsRequestHook, DnsErrorHook and one SERVFAIL for this query")
                status[id] = "completed"
        elif before == "completed" and not hooks and not st.sends():
            # a further reply for an exchange that is over: dropping it is as good as delivering it again
            v.expect(True, "duplicate reply for an answered query: delivered to the query's flow or dropped", "")
        elif before is not None:
            resp = st.hooks("DnsResponseHook")
            want = latest[id][1]
            ok = len(resp) == 1 and len(hooks) == 1 and resp[0][4] is msg and (resp[0][3] is want if before == "outstanding" else any(resp[0][3] is m for m in w.from_client) and resp[0][3].__dict__.get("id") == id)
            v.expect(ok, "reply with a requested id: exactly one DnsResponseHook for the flow of the client's query with that id",
                     lambda: at() + f": expected one DnsResponseHook with flow.request = the client's most recent query id={id:#06x} and flow.response = this reply")
            sends = st.sends("client")
            body = w.unwire(sends[0][2]) if len(sends) == 1 else None
            f = toy_decode(body) if body is not None else None
            v.expect(f is not None and f["id"] == id and not f["query"] and f["qname"] == q, "reply with a requested id: exactly one response with that id and question goes to the client",
                     lambda: at() + ": the client must receive exactly this reply")
            status[id] = "completed"
        else:
            v.expect(not hooks and not st.sends(), "reply with an id nobody asked for: no hook, nothing sent",
                     lambda: at() + ": an unsolicited upstream message must be dropped (no flow, no hook, no bytes)")


def check_r271(ctx, w: DNSWorld):
    thorough = ctx.tier == "thorough"
    v = Verdicts(ctx, "R27.1", _where(ctx, LAYER, "DNSLayer"))
    # (transport, alphabet, maximal length)
    plan = [("udp", ALPHABET, 3), ("udp", ALPHABET[:-1], 4), ("tcp", ALPHABET, 3)] if thorough else [("udp", ALPHABET, 2), ("udp", CORE, 3), ("tcp", CORE, 2)]
    seen = set()
    for proto, alphabet, depth in plan:
        for ln in range(1, depth + 1):
            for seq in itertools.product(alphabet, repeat=ln):
                if not thorough and ln == depth == 3 and seq[0][0] == "R":
                    continue  # quick tier: a reply into the fresh layer is followed by every event at length 2 already
                if (proto, seq) not in seen:
                    seen.add((proto, seq))
                    run_sequence(w, proto, seq, v)
    for proto in ("udp", "tcp"):
        for text in TARGETED if thorough or proto == "udp" else TARGETED[:3]:
            if (proto, _parse(text)) not in seen:
                seen.add((proto, _parse(text)))
                run_sequence(w, proto, _parse(text), v)
    n = len(seen)
    ctx.paths += n
    ctx.bounds.append("R27.1: all event sequences " + ", ".join(f"over {len(a)} events up to length {d} ({p.upper()})" for p, a, d in plan) + ("" if thorough else " (length 3: starting with a query)") + f" + {len(TARGETED)} longer id re-use sequences (UDP, TCP): {n} runs")
    v.flush()
    return n


# ---------------------------------------------------------------------------------------------------
# R27.2 synthesised failure replies

FAIL_WANT = {"id": "self.id", "query": "False", "op_code": "self.op_code", "recursion_desired": "self.recursion_desired", "questions": "self.questions", "response_code": "response_code"}


def check_fail(ctx, w: DNSWorld, codes):
    fail = ctx.func(DNS, "DNSMessage.fail")
    where = (DNS, "DNSMessage.fail", fail)
    v = Verdicts(ctx, "R27.2", where)
    rcodes = sorted({codes["SERVFAIL"]} | {codes[k] for k in ("NXDOMAIN", "REFUSED", "FORMERR") if k in codes and codes[k] != codes["NOERROR"]})
    it = w.it
    n = 0

    def names(qs):
        return [q.__dict__.get("name") if isinstance(q, Rec) else q for q in qs] if isinstance(qs, (list, tuple)) else qs

    for id, op, rd, nq in itertools.product((0, 5, 0xFFFF), (0, 2, 5), (True, False), (1, 0, 2)):
        for rc in rcodes:
            w.sender = None
            src = w.codec_unpack(toy_wire(id, False, op, rd, 0, b"q.example" if nq else b""))
            if nq == 2:
                src.__dict__["questions"].append(Rec("Question", _impl=(DNS, "Question"), name="second.example", type=28, class_=1))
            before = {k: (list(x) if isinstance(x, list) else x) for k, x in src.__dict__.items() if not k.startswith("_")}
            try:
                r = it.method(src, "fail", rc)
            except Raised as e:
                v.expect(False, "fail(): returns a reply for every error code", f"query id={id} op_code={op} rd={rd}: fail({rc}) raises {e.name}")
                continue
            n += 1
            ctx.cells += 1
            if not (isinstance(r, Rec) and r.isa("DNSMessage")):
                raise AnalysisError(f"DNSMessage.fail returns {r!r}, not a DNSMessage record")
            d = r.__dict__
            got = {"id": d.get("id"), "query": d.get("query"), "op_code": d.get("op_code"), "recursion_desired": d.get("recursion_desired"),
                   "questions": names(d.get("questions")), "response_code": d.get("response_code")}
            want = {"id": id, "query": False, "op_code": op, "recursion_desired": rd, "questions": names(before["questions"]), "response_code": rc}
            for f, text in FAIL_WANT.items():
                same = got[f] == want[f] and type(got[f]) is type(want[f])
                v.expect(same, f"fail(): {f} = {text}",
                         f"the failure reply synthesised for the query (id={id}, op_code={op}, recursion_desired={rd}, questions={want['questions']}) with code {rc} has {f}={got[f]!r}; "
                         "the client's resolver matches replies on id/question and expects opcode/RD echoed, QR=1", desc=f"fail(): {f} <- {text}")
            v.expect(names(src.__dict__.get("questions")) == names(before["questions"]) and src.__dict__.get("id") == id, "fail(): the query itself is left unchanged",
                     f"fail({rc}) modifies the query it answers: {before} -> {dict((k, x) for k, x in src.__dict__.items() if not k.startswith('_'))}")
    ctx.require(n >= 1, "DNSMessage.fail never returns")
    v.flush(f" ({n} evaluations)")


ERROR_SOURCES = ("no upstream address", "addon sets flow.error", "OpenConnection fails")


def check_errors(ctx, w: DNSWorld, codes):
    v = Verdicts(ctx, "R27.2", _where(ctx, LAYER, "DNSLayer"))
    queries = ((0xBEEF, 2, True, b"x.example"), (7, 0, False, b"y.example"), (0, 5, True, b"z.example"))
    n = 0
    for proto, source, (id, op, rd, q) in itertools.product(("udp", "tcp"), ERROR_SOURCES, queries):
        if source == "no upstream address":
            w.new(proto, address=None)
        elif source == "OpenConnection fails":
            w.new(proto, connected=False)
            w.open_err = "connection refused"
        else:
            w.new(proto)

            def addon(hook, flow):
                if hook == "DnsRequestHook":
                    object.__setattr__(flow, "error", Rec("Error", _name="error", msg="addon says no", timestamp=0.0))

            w.addon = addon
        st = w.data("client", w.wire(toy_wire(id, False, op, rd, 0, q)))
        n += 1
        ctx.cells += 1
        at = lambda: f"{proto.upper()}, {source}: client query id={id:#06x} op_code={op} rd={rd} question={q!r} makes the layer do {st.show()}"  # noqa: E731
        if not v.expect(st.exc is None, "an upstream failure is answered, not raised", lambda: at()):
            continue
        idx = [i for i, e in enumerate(st.trace) if e[0] == "hook" and e[1] == "DnsErrorHook"]
        sends = [(i, e) for i, e in enumerate(st.trace) if e[0] == "send" and e[1] == "client"]
        msg = st.decoded[0][1] if len(st.decoded) == 1 else None
        v.expect(len(idx) == 1 and msg is not None and st.trace[idx[0]][3] is msg, "upstream failure: one DnsErrorHook for the flow of the client's query",
                 lambda: at() + ": the error must be reported once, on the flow that carries the query")
        body = w.unwire(sends[0][1][2]) if len(sends) == 1 else None
        f = toy_decode(body) if body is not None else None
        ok = f is not None and idx and sends[0][0] > idx[0] and not f["query"] and f["response_code"] == codes["SERVFAIL"] and (f["id"], f["op_code"], f["recursion_desired"], f["qname"]) == (id, op, rd, q)
        v.expect(ok, "SendData(client, pack_message(flow.request.fail(SERVFAIL)))",
                 lambda: at() + f": after the error hook the *client* must receive exactly one SERVFAIL (rcode {codes['SERVFAIL']}) built from its own query "
                 f"(id, opcode, RD, question echoed, QR=1); it gets {toy_decode(body) if body is not None else [_short(s[1][2]) for s in sends]}",
                 desc="upstream failure: SERVFAIL from flow.request to the client after DnsErrorHook")
    v.flush(f" ({n} scenarios: {len(ERROR_SOURCES)} error sources x 3 queries x UDP/TCP)")


def check_r272(ctx, w: DNSWorld):
    codes = int_constants(ctx.model, RC)
    ctx.require("SERVFAIL" in codes and "NOERROR" in codes and codes["SERVFAIL"] != codes["NOERROR"] and 0 <= codes["SERVFAIL"] < 256, "response_codes.SERVFAIL / NOERROR changed")
    check_fail(ctx, w, codes)
    check_errors(ctx, w, codes)


# ---------------------------------------------------------------------------------------------------
# R27.3 framing


def feed(w: DNSWorld, sender, stream, comp):
    """deliver ``stream`` in segments of the given lengths -> (decoded byte strings in order, first exception or None, steps)"""
    got, pos, steps = [], 0, []
    for ln in comp:
        st = w.data(sender, stream[pos:pos + ln])
        pos += ln
        steps.append(st)
        got += [d for d, _ in st.decoded]
        if st.exc:
            return got, st.exc, steps
    return got, None, steps


def silent_afterwards(w: DNSWorld, sender):
    """the layer has ended: whatever arrives now causes no command, no decoding, no exception"""
    probes = [w.data(sender, w.wire(toy_wire(0x0042, False, 0, True, 0, b"later.example"))), w.data("server" if sender == "client" else "client", w.wire(toy_wire(0x0042, True, 0, True, 0, b"later.example"))),
              w.closed(sender), w.closed("server" if sender == "client" else "client")]
    for p in probes:
        if p.exc or p.visible() or p.decoded:
            return False, p
    return True, None


def check_r273(ctx, w: DNSWorld):
    thorough = ctx.tier == "thorough"
    v = Verdicts(ctx, "R27.3", _where(ctx, LAYER, "DNSLayer"))
    # (payloads, directions): every cut position of a two-frame stream in every combination; more shapes in the thorough tier
    # quick tier: the first stream from the client under all 64 segmentations; from the server, and the second stream, in <= 3 segments
    streams = [([b"ab", b"c"], ("client", "server")), ([b"q", b"he"], ("client", "server") if thorough else ("client",))]
    if thorough:
        streams += [([b"abc", b"z"], ("client", "server")), ([b"a", b"bc", b"d"], ("client", "server")), ([b"xyz", b"uv"], ("client", "server"))]
    n_seg = 0
    C_SEG = "TCP: the decoded messages do not depend on the segmentation"
    for payloads, senders in streams:
        stream = frames(payloads)
        for comp in compositions(len(stream)):
            n_seg += 1
            for sender in senders:
                if not thorough and len(comp) > 3 and (sender == "server" or payloads is not streams[0][0]):
                    continue
                w.new("tcp")
                got, exc, steps = feed(w, sender, stream, comp)
                ctx.cells += 1
                # every prefix of the stream: exactly the complete frames so far have been decoded
                v.expect(exc is None and got == payloads, C_SEG,
                         lambda: f"stream of frames {payloads} from the {sender} delivered in segments of lengths {comp}: decoded {got}{' then raised ' + exc if exc else ''}; expected exactly {payloads}",
                         desc="unpack(tcp): all segmentations of short framed streams, both directions, decode identical messages")
                if sender == "client" and exc is None:
                    hooks = [h[3].__dict__.get("id") for s in steps for h in s.hooks("DnsRequestHook") if isinstance(h[3], Rec)]
                    v.expect(hooks == [toy_decode(p)["id"] for p in got], "TCP: every decoded client message is reported once, in order",
                             lambda: f"frames {payloads} in segments {comp}: request hooks for ids {hooks}, decoded {got}")
    # a 2-byte length > 255 (endianness) with cuts around the prefix and the end
    big = bytes(range(200)) + bytes(range(58))
    stream = frames([big, b"k"])
    for cut in (1, 2, 3, 259, 260, 261, 262, 263):
        w.new("tcp")
        got, exc, _ = feed(w, "client", stream, (cut, len(stream) - cut))
        ctx.cells += 1
        v.expect(exc is None and got == [big, b"k"], "TCP: a 258-byte frame is extracted (length prefix byte order / arithmetic)",
                 lambda: f"a 258-byte frame followed by a 1-byte frame, cut after {cut} bytes: decoded {[g if len(g) < 10 else f'<{len(g)} bytes>' for g in got]}{' then raised ' + exc if exc else ''}",
                 desc="unpack(tcp): 258-byte frame + 1-byte frame under 8 cuts")
    # directions do not share state
    c_stream, s_stream = frames([b"CLIENT"]), frames([b"SERVER!"])
    for cc in range(1, len(c_stream), 1 if thorough else 2):
        for sc in range(1, len(s_stream), 1 if thorough else 2):
            w.new("tcp")
            outs = {"client": [], "server": []}
            for seg, sender in ((c_stream[:cc], "client"), (s_stream[:sc], "server"), (c_stream[cc:], "client"), (s_stream[sc:], "server")):
                st = w.data(sender, seg)
                outs[sender] += [d for d, _ in st.decoded] + (["raise " + st.exc] if st.exc else [])
            ctx.cells += 1
            v.expect(outs == {"client": [b"CLIENT"], "server": [b"SERVER!"]}, "interleaved directions are framed independently",
                     lambda: f"partial frames of the two directions are mixed: client segments {c_stream[:cc]!r},{c_stream[cc:]!r} interleaved with server segments {s_stream[:sc]!r},{s_stream[sc:]!r} "
                     f"decode client={outs['client']} server={outs['server']}", desc="unpack(tcp): interleaved partial frames of both directions stay separate")
    # malformed: zero length prefix under every segmentation, from either side; a message the codec rejects
    C_BAD = "malformed message: CloseConnection(event.connection); state_done"
    bad_streams = [(b"\x00\x00", []), (frames([b"k"]) + b"\x00\x00r", [b"k"])]
    for stream, may_decode in bad_streams:
        for comp in compositions(len(stream)):
            for sender in ("client", "server") if thorough or len(stream) < 4 else ("client",):
                if not thorough and len(comp) > 3:
                    continue
                w.new("tcp")
                ctx.cells += 1
                got, pos, closed_at, trouble = [], 0, None, None
                for i, ln in enumerate(comp):
                    st = w.data(sender, stream[pos:pos + ln])
                    pos += ln
                    got += [d for d, _ in st.decoded]
                    if st.exc:
                        trouble = f"segment {i + 1} raises {st.exc}"
                        break
                    closes = [e[1] for e in st.trace if e[0] == "close"]
                    if closed_at is not None and (st.visible() or st.decoded):
                        trouble = f"after closing, segment {i + 1} still causes {st.show()}"
                        break
                    if closes and closed_at is None:
                        closed_at = pos
                        if closes != [sender]:
                            trouble = f"closes {closes}, not the sender"
                            break
                ok = trouble is None and closed_at is not None and got == may_decode[:len(got)]
                if ok:
                    quiet, p = silent_afterwards(w, sender)
                    if not quiet:
                        ok, trouble = False, f"the layer keeps running after the malformed message: a later event causes {p.show()}{' / decodes ' + str([d for d, _ in p.decoded]) if p.decoded else ''}"
                v.expect(ok, C_BAD,
                         lambda: f"TCP stream {stream!r} (zero length prefix) from the {sender} in segments {comp}: {trouble or ('decoded ' + str(got) + (', connection never closed' if closed_at is None else ', closed after ' + str(closed_at) + ' bytes'))}; "
                         "a malformed length must close the sender's connection (no exception, nothing decoded past it) and stop the layer",
                         desc="malformed length prefix (every segmentation): sender closed, layer silent afterwards")
    for proto in ("udp", "tcp"):
        for sender in ("client", "server"):
            w.new(proto)
            ctx.cells += 1
            st = w.data(sender, w.wire(MALFORMED + b"garbage"))
            closes = [e[1] for e in st.trace if e[0] == "close"]
            ok = st.exc is None and closes == [sender] and not st.hooks() and not st.sends()
            trouble = None
            if ok:
                ok, p = silent_afterwards(w, sender)
                trouble = None if ok else f"a later event causes {p.show()}"
            v.expect(ok, "undecodable message: CloseConnection(event.connection); state_done", lambda: f"{proto.upper()}: a message from the {sender} that the codec rejects (struct.error) makes the layer do {st.show()}{'; ' + trouble if trouble else ''}; "
                     "expected: close the sender's connection, process nothing, stay silent", desc="undecodable message (UDP/TCP, either side): sender closed, layer silent afterwards")
    # datagrams
    for sender in ("client", "server"):
        w.new("udp")
        outs = []
        for d in (b"one", b"\x00\x00", b"\x00\x05he", b"three"):
            st = w.data(sender, d)
            outs.append(([x for x, _ in st.decoded], st.exc, [e for e in st.trace if e[0] == "close"]))
            ctx.cells += 1
        v.expect(outs == [([b"one"], None, []), ([b"\x00\x00"], None, []), ([b"\x00\x05he"], None, []), ([b"three"], None, [])], "one datagram = one message, nothing buffered",
                 lambda: f"UDP datagrams from the {sender} are not mapped one-to-one: (decoded, exception, closes) per datagram = {outs}", desc="unpack(udp): datagram -> one message, no buffering")
    ctx.bounds.append(f"R27.3: {n_seg} segmentations of {len(streams)} framed streams (<= {max(len(frames(s)) for s, _ in streams)} bytes), "
                      + ("all of them from the client and the server" if thorough else "all of the first stream from the client; from the server and for the second stream those with <= 3 segments")
                      + f", 8 cuts of a 258-byte frame, {'all' if thorough else '<= 3-segment'} segmentations of {len(bad_streams)} streams with a zero length prefix")
    v.flush()


def check(ctx):
    ctx.rule("R27.1", "hooks fire only for flows carrying the client's query; replies are matched to the client's query by message id, unsolicited replies are dropped (bounded model check by interpretation)")
    ctx.rule("R27.2", "DNSMessage.fail echoes id/op_code/RD/questions with QR=1; every upstream failure sends fail(SERVFAIL) of the client's query to the client after the error hook")
    ctx.rule("R27.3", "TCP frame extraction is independent of segmentation and direction (finite evaluation), datagrams map one-to-one, a malformed length / message closes the sender and stops the layer")
    ctx.trust("struct (Python stdlib) for the length prefix; time / uuid replaced by deterministic stubs")
    ctx.assume("DNSMessage.unpack / DNSMessage.packed are replaced by a toy bijection between bytes and message records (the codec is C25/C26's subject)")
    _note_functions(ctx)
    w = DNSWorld(ctx)
    ctx.guard(check_r271, ctx, w)
    ctx.guard(check_r272, ctx, w)
    ctx.guard(check_r273, ctx, w)
    for v in list(ctx.__dict__.get("_open_verdicts", [])):
        # a rule stopped at something it does not model (deferred above): counterexamples found before that still stand and take precedence
        v.flush(only_failures=True)
    ctx.note(f"interpreted {w.runs} layer runs / {w.events} events for {w.total_steps()} AST steps")
    for rule, n in (("R27.1", 11), ("R27.2", 10), ("R27.3", 7)):
        if not any(f.rule == rule for f in ctx.findings):
            ctx.expect_instances(rule, n)


MUTANTS = [
    # R27.1 (first = reverse of the F-C27 repair)
    Mutant("unsolicited-reply-creates-flow", LAYER,
           "                        if not from_client:\n                            yield commands.Log(\n                                f\"{event.connection} sent an unsolicited message: {msg.id}\"\n                            )\n                            continue\n",
           "", "R27.1"),
    Mutant("flow-registered-under-wrong-key", LAYER, "                        self.flows[msg.id] = flow\n", "                        self.flows[msg.op_code] = flow\n", "R27.1"),
    Mutant("flow-not-registered", LAYER, "                        self.flows[msg.id] = flow\n", "", "R27.1"),
    Mutant("directions-swapped", LAYER, "                    if from_client:\n                        yield from self.handle_request(flow, msg)\n", "                    if not from_client:\n                        yield from self.handle_request(flow, msg)\n", "R27.1"),
    Mutant("request-hook-before-request-set", LAYER, "        flow.request = msg  # if already set, continue and query upstream again\n        yield DnsRequestHook(flow)\n",
           "        yield DnsRequestHook(flow)\n        flow.request = msg\n", "R27.1"),
    Mutant("reply-matched-by-opcode", LAYER, "                        flow = self.flows[msg.id]\n", "                        flow = self.flows[msg.id if from_client else msg.op_code]\n", "R27.1"),
    # F-C27b (repaired): the reverse of the fix, and half of it
    Mutant("id-reuse-replays-previous-exchange", LAYER,
           "                        if from_client and (flow.response or flow.error):\n                            # the exchange with this id is complete: the client re-uses the id for a new query.\n                            flow.live = False\n                            raise KeyError(msg.id)\n",
           "", "R27.1"),
    Mutant("id-reuse-after-error-not-recognised", LAYER, "if from_client and (flow.response or flow.error):", "if from_client and flow.response:", "R27.1"),
    Mutant("id-reuse-after-answer-not-recognised", LAYER, "if from_client and (flow.response or flow.error):", "if from_client and flow.error:", "R27.1"),
    # R27.2
    Mutant("servfail-id-zero", DNS, "            id=self.id,\n            query=False,\n            op_code=self.op_code,\n            authoritative_answer=False,\n            truncation=False,\n            recursion_desired=self.recursion_desired,\n            recursion_available=False,",
           "            id=0,\n            query=False,\n            op_code=self.op_code,\n            authoritative_answer=False,\n            truncation=False,\n            recursion_desired=self.recursion_desired,\n            recursion_available=False,", "R27.2"),
    Mutant("servfail-drops-rd", DNS, "            recursion_desired=self.recursion_desired,\n            recursion_available=False,", "            recursion_desired=False,\n            recursion_available=False,", "R27.2"),
    Mutant("servfail-without-question", DNS, "            response_code=response_code,\n            questions=self.questions,", "            response_code=response_code,\n            questions=[],", "R27.2"),
    Mutant("servfail-is-a-query", DNS, "            query=False,\n            op_code=self.op_code,\n            authoritative_answer=False,\n            truncation=False,\n            recursion_desired=self.recursion_desired,\n            recursion_available=False,",
           "            query=True,\n            op_code=self.op_code,\n            authoritative_answer=False,\n            truncation=False,\n            recursion_desired=self.recursion_desired,\n            recursion_available=False,", "R27.2"),
    Mutant("servfail-sent-upstream", LAYER, "        yield commands.SendData(\n            self.context.client,\n            pack_message(servfail,", "        yield commands.SendData(\n            self.context.server,\n            pack_message(servfail,", "R27.2"),
    Mutant("error-answers-with-noerror-template", LAYER, "servfail = flow.request.fail(response_codes.SERVFAIL)", "servfail = flow.request.succeed([])", "R27.2"),
    Mutant("servfail-before-error-hook", LAYER, "        yield DnsErrorHook(flow)\n        servfail = flow.request.fail(response_codes.SERVFAIL)\n        yield commands.SendData(\n            self.context.client,\n            pack_message(servfail, flow.client_conn.transport_protocol),\n        )\n",
           "        servfail = flow.request.fail(response_codes.SERVFAIL)\n        yield commands.SendData(\n            self.context.client,\n            pack_message(servfail, flow.client_conn.transport_protocol),\n        )\n        yield DnsErrorHook(flow)\n", "R27.2"),
    # R27.3
    Mutant("frame-needs-one-more-byte", LAYER, "                if size - offset < expected_size:\n", "                if size - offset <= expected_size:\n", "R27.3"),
    Mutant("incomplete-frame-no-rewind", LAYER, "                    offset -= _LENGTH_LABEL.size\n                    break\n", "                    break\n", "R27.3"),
    Mutant("consumed-bytes-kept", LAYER, "            del buf[:offset]\n", "", "R27.3"),
    Mutant("length-little-endian", LAYER, '_LENGTH_LABEL = struct.Struct("!H")', '_LENGTH_LABEL = struct.Struct("<H")', "R27.3"),
    Mutant("one-buffer-for-both-directions", LAYER, "        buf = self.req_buf if from_client else self.resp_buf\n", "        buf = self.req_buf\n", "R27.3"),
    Mutant("zero-length-accepted", LAYER, "                if expected_size == 0:\n                    raise struct.error(\"Message length field cannot be zero\")\n", "", "R27.3"),
    Mutant("zero-length-raises-unhandled", LAYER, "raise struct.error(\"Message length field cannot be zero\")", "raise ValueError(\"Message length field cannot be zero\")", "R27.3"),
    Mutant("malformed-keeps-connection", LAYER, "                yield commands.CloseConnection(event.connection)\n                self._handle_event = self.state_done\n", "                self._handle_event = self.state_done\n", "R27.3"),
    Mutant("malformed-keeps-running", LAYER, "                yield commands.CloseConnection(event.connection)\n                self._handle_event = self.state_done\n", "                yield commands.CloseConnection(event.connection)\n", "R27.3"),
    Mutant("prefix-split-loses-byte", LAYER, "                if size - offset < _LENGTH_LABEL.size:\n                    break\n", "                if size - offset < _LENGTH_LABEL.size:\n                    offset = size\n                    break\n", "R27.3"),
    Mutant("malformed-closes-the-other-side", LAYER, "                yield commands.CloseConnection(event.connection)\n                self._handle_event = self.state_done\n",
           "                yield commands.CloseConnection(self.context.server if from_client else self.context.client)\n                self._handle_event = self.state_done\n", "R27.3"),
]
