"""C41 - HAR export followed by HAR import preserves the exchange.

Every rule is decided by INTERPRETING the exporter and the importer from their AST with ``mitmlint/pyint.py`` (nothing is
imported or run): ``SaveHar.flow_entry`` on abstract HTTP flows, ``json`` round trip of the entry, ``har.request_to_flow`` on
the result - helpers (``format_multidict``, ``_body_fields``, ``fix_headers``, a version table + normalising function ...),
``match`` / ``if`` chains / dict dispatch, temporaries, keyword arguments, logging, assertions are followed by the interpreter.
The abstract flows: records bound to ``http.Request`` / ``http.Response`` (so that ``http_version`` and the ``is_http*``
predicates are the repository's own properties, interpreted), with rule-supplied values for the rest of the message API;
on the import side ``http.Request.make`` / ``http.Response`` / ``http.HTTPFlow`` / ``connection.*`` / ``http.encoding`` are
stand-ins of the rule that record their arguments (resolved by import target, not by local name).

  R41.1 version vocabulary, identity on mitmproxy's own literals: the canonical literals are the ones for which
        ``Message.is_http10/11/2/3`` hold (candidates = the constants of those properties, decided by interpreting them).  A
        flow whose request / response carries such a literal - other than the HTTP/2 one, see R41.3 - must come back from
        export + import with the same literal (or at least satisfying the same predicate).  Foreign spellings (Chrome's
        ``http/2.0``, ``h3`` ...) are outside the property and pinned by the repo's expected-output files.
  R41.3 the same obligation for the HTTP/2 literal ``HTTP/2.0`` (separate id: on today's tree it falls into the default
        case and is imported as HTTP/1.1 - defect F-C41, which cannot be repaired without editing an expected-output
        file of the existing test-suite; listed as known finding).
  R41.2 request body, request line, status and required keys: for POST, PUT and PATCH requests the body the importer hands
        to ``Request.make`` is the request text the exporter saw; method, URL and status code survive; importing an exported
        entry (text / binary / empty body, with and without response, error, websocket messages) never fails with a
        KeyError / IndexError / TypeError (a key the importer requires is not written by the exporter in some branch).
  R41.4 "in the same order": ``SaveHar.make_har`` and ``FlowReader.stream`` are interpreted on flow lists whose generated
        entries carry, under every key ``flow_entry`` writes, values that increase / decrease / zig-zag with the position
        (``flow_entry`` and ``request_to_flow`` are replaced by tagging stubs; they are the subject of R41.1-R41.3).
        ``make_har(flows)["log"]["entries"]`` must be exactly the entries of the HTTP flows, in the order of ``flows``
        (non-HTTP flows skipped), and ``stream()`` must yield one flow per element of ``log.entries`` in file order;
        ``export_har`` and ``done`` must serialise what ``make_har`` returns for the flows they were given.
NOT decided: header equality, charset handling of the response bodies, timings; the order in which ``hardump`` collects flows.
"""

from __future__ import annotations

import ast

from ..core import AnalysisError
from ..model import attr_chain
from ..selftest import Mutant
from ._helpers_E import expect
from ._helpers_E import params
from ._helpers_E import prop_parts

PROP = "C41"
REG = {
    "strength": "partial",
    "technique": "abstract interpretation (pyint) of SaveHar.flow_entry -> json -> har.request_to_flow on abstract HTTP flows whose version literals are the ones "
    "Message.is_http* accept; recording stand-ins for Request.make / Response; interpretation of make_har / FlowReader.stream over position-tagged entries for the order clause",
    "claim": "every canonical HTTP version literal of mitmproxy comes back from export+import as itself (HTTP/2.0 reported separately as R41.3); "
    "the request text of POST/PUT/PATCH requests is imported as the request body, method / URL / status survive and no exported variant fails to import on a missing key; "
    "make_har lists the entries of the HTTP flows in the order given and FlowReader.stream yields them in file order.",
    "note": "Foreign version spellings are out of scope. Header and response-body equality are not decided.",
}

HAR = "mitmproxy/io/har.py"
SH = "mitmproxy/addons/savehar.py"
HTTP = "mitmproxy/http.py"
H2_RULE = "R41.3"
PREDICATES = ("is_http10", "is_http11", "is_http2", "is_http3")
STANDARD = (b"HTTP/1.0", b"HTTP/1.1", b"HTTP/2.0", b"HTTP/2", b"HTTP/3", b"HTTP/3.0", b"HTTP/0.9")


# ---------------------------------------------------------------------------------------------------
# the rule's own stand-ins (native objects: pyint treats them like values of a trusted library)


def _abs(fn):
    fn._pyint_accepts_abstract = True
    return fn


class _Stub:
    """namespace stand-in; an unknown member is a refusal (exit 2), never a guess"""

    _pyint_accepts_abstract = True

    def __init__(self, what, **members):
        self.__dict__["_what"] = what
        self.__dict__.update(members)

    def __getattr__(self, name):
        if name.startswith("__"):
            raise AttributeError(name)
        raise AnalysisError(f"C41: the stand-in for {self._what} has no member '{name}' (extend the rule's domain)")


class _MD:
    """stand-in for Headers / MultiDictView / cookie attributes: an ordered multi-dict with case-insensitive lookup"""

    _pyint_accepts_abstract = True

    def __init__(self, fields=(), what="multidict"):
        self.fields = [(k, v) for k, v in fields]
        self.what = what

    @staticmethod
    def _k(k):
        return k.lower() if isinstance(k, str) else k

    def items(self, multi=False):
        if multi:
            return list(self.fields)
        out = {}
        for k, v in self.fields:
            out.setdefault(k, v)
        return list(out.items())

    def keys(self, multi=False):
        return [k for k, _ in self.items(multi)]

    def values(self, multi=False):
        return [v for _, v in self.items(multi)]

    def get(self, key, default=None):
        for k, v in self.fields:
            if self._k(k) == self._k(key):
                return v
        return default

    def get_all(self, key):
        return [v for k, v in self.fields if self._k(k) == self._k(key)]

    def __getitem__(self, key):
        for k, v in self.fields:
            if self._k(k) == self._k(key):
                return v
        raise KeyError(key)

    def __contains__(self, key):
        return any(self._k(k) == self._k(key) for k, _ in self.fields)

    def __iter__(self):
        return iter(self.keys())

    def __len__(self):
        return len(self.keys())

    def __bool__(self):
        return bool(self.fields)

    def __str__(self):
        return "".join(f"{k}: {v}\r\n" for k, v in self.fields)

    def __bytes__(self):
        return str(self).encode()

    def __getattr__(self, name):
        if name.startswith("__"):
            raise AttributeError(name)
        raise AnalysisError(f"C41: the stand-in for a {self.what} has no member '{name}' (extend the rule's domain)")


def _noop(*a, **k):
    return None


_noop._pyint_accepts_abstract = True


def _codec_encode(content, enc="utf-8", errors="strict"):
    """stand-in for mitmproxy.net.encoding.encode: text -> bytes with a python codec, bytes pass (content codings are not the rule's subject)"""
    import codecs

    if content is None:
        return None
    if isinstance(content, str):
        try:
            codecs.lookup(enc)
        except (LookupError, TypeError):
            raise ValueError(f"unknown encoding {enc!r}")
        return content.encode(enc, errors)
    return content


_codec_encode._pyint_accepts_abstract = True


def _make_interp(ctx, made):
    """pyint with the import-side stand-ins; ``made`` collects what Request.make / Response received"""
    import base64
    import datetime
    import json
    import re
    import time
    import urllib.parse
    import zlib

    from ..pyint import Interp
    from ..pyint import NullLog
    from ..pyint import Rec

    def message(kind, version, **attrs):
        data = Rec(kind + "Data", http_version=version, timestamp_start=None, timestamp_end=None)
        return Rec(kind, _bases=("Message",), _impl=(HTTP, kind), data=data, decode=_noop, encode=_noop, **attrs)

    @_abs
    def request_make(method, url, content="", headers=(), **kw):
        r = message("Request", b"HTTP/1.1", headers=headers if isinstance(headers, _MD) else _MD(list(headers.items()) if isinstance(headers, dict) else headers, "Headers"))
        made.append(("request", r, {"method": method, "url": url, "content": content, "headers": headers}))
        return r

    class _ResponseCls(_Stub):
        def __call__(self, http_version, status_code, reason=b"", headers=(), content=b"", trailers=None, timestamp_start=0.0, timestamp_end=None):
            r = message("Response", http_version if isinstance(http_version, bytes) else str(http_version).encode(), headers=headers)
            r.data.__dict__.update(timestamp_start=timestamp_start, timestamp_end=timestamp_end)
            made.append(("response", r, {"status_code": status_code, "content": content, "headers": headers}))
            return r

        def make(self, status_code=200, content=b"", headers=()):
            return self(b"HTTP/1.1", status_code, b"", headers if isinstance(headers, _MD) else _MD(headers, "Headers"), content, None, 0.0, None)

    @_abs
    def headers_cls(fields=(), **kw):
        return _MD([(k.decode("utf-8", "surrogateescape") if isinstance(k, bytes) else k, v.decode("utf-8", "surrogateescape") if isinstance(v, bytes) else v) for k, v in fields], "Headers")

    @_abs
    def httpflow(client_conn, server_conn, live=False):
        return Rec("HTTPFlow", _bases=("Flow",), client_conn=client_conn, server_conn=server_conn, live=live, request=None, response=None, error=None,
                   websocket=None, metadata={}, comment="", marked="", is_replay=None, intercepted=False)

    @_abs
    def conn(kind):
        @_abs
        def mk(*a, **k):
            base = {"timestamp_start": None, "timestamp_end": None, "address": None, "peername": None, "sockname": None, "timestamp_tcp_setup": None, "timestamp_tls_setup": None}
            base.update(k)
            return Rec(kind, _bases=("Connection",), **base)

        return mk

    @_abs
    def infer(content_type="", content=b""):
        m = re.search(r"charset=([\w-]+)", content_type or "")
        return m.group(1) if m else "utf-8"

    encoding = _Stub("mitmproxy.net.encoding", encode=_codec_encode, decode=_codec_encode)
    http_stub = _Stub("mitmproxy.http", Headers=headers_cls, Request=_Stub("http.Request", make=request_make), Response=_ResponseCls("http.Response"), HTTPFlow=httpflow,
                      encoding=encoding, status_codes=_Stub("http.status_codes", RESPONSES={200: "OK", 404: "Not Found"}))
    conn_stub = _Stub("mitmproxy.connection", Client=conn("Client"), Server=conn("Server"))
    hdr_stub = _Stub("mitmproxy.net.http.headers", infer_content_encoding=infer)
    routes = {"mitmproxy.http": http_stub, "mitmproxy.connection": conn_stub, "mitmproxy.net.http.headers": hdr_stub, "mitmproxy.net.encoding": encoding}

    class HarInterp(Interp):
        """pyint + inside io/har.py the imports of mitmproxy.http / connection / encoding resolve to the rule's recording stand-ins (by import target, whatever the local name)"""

        def name(self, ident, env, mod, depth, node):
            if mod.rel == HAR and ident not in env and ident in mod.imports and mod.get(ident) is None:
                clo, shadowed = env.get("$closure"), False
                while clo is not None and not shadowed:
                    shadowed = ident in clo
                    clo = clo.get("$closure")
                if not shadowed:
                    target = mod.imports[ident]
                    for root, stub in routes.items():
                        if target == root:
                            return stub
                        if target.startswith(root + "."):
                            obj = stub
                            for part in target[len(root) + 1:].split("."):
                                obj = getattr(obj, part)
                            return obj
            return super().name(ident, env, mod, depth, node)

    trusted = {"json": json, "datetime": datetime, "base64": base64, "time": time, "re": re, "zlib": zlib, "urllib": urllib, "urllib.parse": urllib.parse, "logging": NullLog()}
    return HarInterp(ctx.model, trusted_modules=trusted, max_steps=2_000_000), message


# ---------------------------------------------------------------------------------------------------
# vocabulary


def _vocabulary(ctx, it, message):
    """{predicate name: [canonical literal (bytes)]}: the constants of Message.is_http* for which the interpreted predicate holds"""
    cls = ctx.model.cls(HTTP, "Message")
    mod = ctx.model.module(HTTP)
    out = {}
    for name in PREDICATES:
        g, _ = prop_parts(cls, name)
        ctx.require(g is not None, f"Message.{name} property vanished")
        cands = list(STANDARD)
        for n in ast.walk(g):
            if isinstance(n, ast.Constant) and isinstance(n.value, (bytes, str)) and n.value:
                cands.append(n.value if isinstance(n.value, bytes) else n.value.encode())
            elif isinstance(n, ast.Name) and mod.assigns(n.id):
                for v in mod.assigns(n.id):
                    for c in ast.walk(v):
                        if isinstance(c, ast.Constant) and isinstance(c.value, (bytes, str)) and c.value:
                            cands.append(c.value if isinstance(c.value, bytes) else c.value.encode())
        hold = []
        for lit in dict.fromkeys(cands):
            msg = message("Request", lit)
            if it.truthy(it.getattr(msg, name, g, 0)):
                hold.append(lit)
        ctx.require(hold, f"Message.{name} holds for none of the version literals {sorted(set(cands))}: vocabulary not modelled")
        out[name] = hold
    return out


# ---------------------------------------------------------------------------------------------------
# abstract HTTP flows for the exporter

BODY_TEXT = "a=1&b=%20x&note=café"
BODY_FORM = [("a", "1"), ("b", " x"), ("note", "café")]


def _export_flow(message, req_version=b"HTTP/1.1", resp_version=b"HTTP/1.1", method="GET", url="https://example.com/path?q=1", response="text", error=False, websocket=False, tag="flow"):
    from ..pyint import Rec

    body = BODY_TEXT.encode()
    req_headers = _MD([("Host", "example.com"), ("Content-Type", "application/x-www-form-urlencoded; charset=utf-8"), ("X-Dup", "1"), ("x-dup", "2"), ("Cookie", "c=d")], "Headers")
    has_body = method in ("POST", "PUT", "PATCH", "DELETE")

    @_abs
    def req_text(strict=True):
        return BODY_TEXT if has_body else ""

    @_abs
    def req_content(strict=True):
        return body if has_body else b""

    request = message(
        "Request", req_version, method=method, url=url, pretty_url=url, host="example.com", pretty_host="example.com", port=443 if url.startswith("https") else 80,
        scheme=url.split(":")[0], path="/path?q=1", authority="", headers=req_headers, trailers=None, cookies=_MD([("c", "d")], "cookies view"), query=_MD([("q", "1")], "query view"),
        urlencoded_form=_MD(BODY_FORM if has_body else [], "form view"), multipart_form=_MD([], "form view"), content=body if has_body else b"", raw_content=body if has_body else b"",
        text=BODY_TEXT if has_body else "", get_text=req_text, get_content=req_content, timestamp_start=1700000000.0, timestamp_end=1700000000.25, stream=False,
    )
    request.data.__dict__.update(timestamp_start=1700000000.0, timestamp_end=1700000000.25)
    resp = None
    if response is not None:
        if response == "binary":
            content, text = bytes(range(0, 40)) + b"\xff\xfe\x00", None
            ctype = "application/octet-stream"
        elif response == "empty":
            content, text, ctype = b"", "", "text/plain"
        else:
            text = "hello wörld"
            content, ctype = text.encode(), "text/plain; charset=utf-8"

        @_abs
        def resp_text(strict=True):
            return text

        @_abs
        def resp_content(strict=True):
            return content

        attrs_ = _MD([("path", "/"), ("secure", None), ("sameSite", "Lax")], "cookie attributes")
        resp = message(
            "Response", resp_version, status_code=404 if response == "empty" else 200, reason="OK", headers=_MD([("Content-Type", ctype), ("Location", ""), ("Set-Cookie", "s=t; Path=/")], "Headers"),
            trailers=None, cookies=_MD([("s", ("t", attrs_))], "cookies view"), content=content, raw_content=content, text=text, get_text=resp_text, get_content=resp_content,
            timestamp_start=1700000000.5, timestamp_end=1700000000.75, stream=False,
        )
        resp.data.__dict__.update(timestamp_start=1700000000.5, timestamp_end=1700000000.75)
    server = Rec("Server", _bases=("Connection",), timestamp_start=1699999999.0, timestamp_tcp_setup=1699999999.1, timestamp_tls_setup=1699999999.2, timestamp_end=None,
                 peername=("10.1.2.3", 443), address=("example.com", 443), sockname=("10.0.0.1", 50000), ip_address=("10.1.2.3", 443), tls_established=True, sni="example.com", alpn=None)
    client = Rec("Client", _bases=("Connection",), timestamp_start=1699999998.0, timestamp_end=None, peername=("127.0.0.1", 40000), sockname=("127.0.0.1", 8080), tls_established=True)
    ws = None
    if websocket:
        def wsmsg(is_text, from_client, n):
            return Rec("WebSocketMessage", is_text=is_text, text=f"msg{n}" if is_text else None, content=f"msg{n}".encode(), from_client=from_client, timestamp=1700000001.0 + n,
                       type=Rec("Opcode", value=1 if is_text else 2, name="TEXT" if is_text else "BINARY"), dropped=False, injected=False)

        ws = Rec("WebSocketData", messages=[wsmsg(True, True, 0), wsmsg(False, False, 1)], closed_by_client=None, close_code=None, close_reason=None, timestamp_end=None)
    err = Rec("Error", msg="connection lost", timestamp=1700000002.0) if error else None
    return Rec("HTTPFlow", _bases=("Flow",), _name=tag, request=request, response=resp, error=err, websocket=ws, server_conn=server, client_conn=client,
               id=f"id-{tag}", live=False, metadata={}, comment="", marked="", is_replay=None, intercepted=False, type="http", timestamp_created=1699999990.0)


def _roundtrip(ctx, fe, rtf, flow_kwargs):
    """interpret flow_entry(flow) -> json -> request_to_flow(entry); returns (entry, imported flow | ('raise', name, msg), made, interpreter)"""
    import json

    from ..pyint import Raised
    from ..pyint import Rec

    made = []
    it, message = _make_interp(ctx, made)
    flow = _export_flow(message, **flow_kwargs)
    me = Rec("SaveHar", _impl=(SH, "SaveHar"), flows=[], filt=None)
    extra = [set()] if len(params(fe)) >= 2 else []
    try:
        entry = it.method(me, "flow_entry", flow, *extra)
    except Raised as r:
        raise AnalysisError(f"SaveHar.flow_entry: the interpretation on the abstract flow {flow_kwargs} ends with {r.name} ({r.msg}): not modelled")
    ctx.require(isinstance(entry, dict), f"SaveHar.flow_entry returns {type(entry).__name__}, not a dict: not modelled")
    try:
        entry_json = json.loads(json.dumps(entry))
    except (TypeError, ValueError) as e:
        raise AnalysisError(f"SaveHar.flow_entry: the entry of the abstract flow {flow_kwargs} is not JSON-serialisable ({e}): not modelled")
    try:
        got = it.call(HAR, rtf.name, entry_json)
    except Raised as r:
        got = ("raise", r.name, r.msg)
    return entry_json, got, made, it, flow


def _r41_123(ctx):
    from ..pyint import Rec

    fe = ctx.func(SH, "SaveHar.flow_entry")
    rtf = ctx.func(HAR, "request_to_flow")
    ctx.require(len(params(fe)) >= 1, "SaveHar.flow_entry(flow, ...) signature changed")
    ctx.require(len(params(rtf, drop_self=False)) >= 1, "request_to_flow(request_json) signature changed")
    it0, message0 = _make_interp(ctx, [])
    vocab = _vocabulary(ctx, it0, message0)
    ctx.note(f"canonical version literals: { {k: [x.decode() for x in v] for k, v in vocab.items()} }")
    lits = [(p, lit) for p in PREDICATES for lit in vocab[p]]

    def imported(got, kw, what):
        if isinstance(got, tuple) and got and got[0] == "raise":
            return None
        ctx.require(isinstance(got, Rec), f"request_to_flow returns {type(got).__name__} for {what}: not modelled")
        return got

    # ---- R41.1 / R41.3: each canonical literal on the request and (a different one) on the response
    results = {}  # (side, pred, lit) -> imported version text | 'raise ...'
    for i, (pred, lit) in enumerate(lits):
        other_pred, other = lits[(i + 1) % len(lits)]
        kw = dict(req_version=lit, resp_version=other, method="POST" if i % 2 else "GET", tag=f"v{i}")
        entry, got, made, it, flow = _roundtrip(ctx, fe, rtf, kw)
        ctx.paths += 1
        if i == 0:
            ctx.sample({"exported entry keys": sorted(entry), "request keys": sorted(entry.get("request", {})), "response keys": sorted(entry.get("response", {}))})
        new = imported(got, kw, f"request version {lit!r}")
        for side, p_, l_ in (("request", pred, lit), ("response", other_pred, other)):
            if new is None:
                results[(side, p_, l_)] = (f"<{got[1]}>", False)
                continue
            msg = new.__dict__.get(side)
            ctx.require(isinstance(msg, Rec), f"request_to_flow: the imported flow has no {side} record (import shape not modelled)")
            v = it.getattr(msg, "http_version", rtf, 0)
            v = v.decode("utf-8", "surrogateescape") if isinstance(v, bytes) else v
            same_class = bool(it.truthy(it.getattr(msg, p_, rtf, 0)))
            results[(side, p_, l_)] = (v, same_class)
    for side in ("request", "response"):
        for pred, lit in sorted(lits):
            v = lit.decode()
            got, same_class = results[(side, pred, lit)]
            rule = H2_RULE if pred == "is_http2" else "R41.1"
            ctx.cells += 1
            ctx.check(got == v or same_class, rule, (HAR, "request_to_flow", rtf), f"{side} httpVersion '{v}' is imported as '{got}'",
                      f"SaveHar exports a {side} whose http_version is '{v}' (Message.{pred}), the import turns it into '{got}': the HTTP version does not survive export+import",
                      desc=f"{side}: '{v}' -> '{got}'")

    # ---- R41.2: bodies, request line, status, importability of every exported variant
    variants = [
        dict(method="POST", tag="post"), dict(method="PUT", tag="put"), dict(method="PATCH", tag="patch"),
        dict(method="GET", url="http://example.com/path?q=1", tag="get-http"), dict(method="DELETE", tag="delete"),
        dict(method="GET", response="binary", tag="binary"), dict(method="POST", response="empty", tag="empty"),
        dict(method="GET", response=None, error=True, tag="no-response"), dict(method="GET", response=None, tag="no-response-no-error"),
        dict(method="GET", websocket=True, tag="websocket"),
    ]
    body_bad, line_bad, crash = [], [], []
    n_body = 0
    for kw in variants:
        entry, got, made, it, flow = _roundtrip(ctx, fe, rtf, kw)
        ctx.paths += 1
        if isinstance(got, tuple) and got and got[0] == "raise":
            if got[1] in ("KeyError", "IndexError", "TypeError", "AttributeError"):
                crash.append(f"{kw['tag']}: {got[1]}")
                continue
            raise AnalysisError(f"request_to_flow: the interpretation on the exported entry of {kw} ends with {got[1]} ({got[2]}): not modelled")
        new = imported(got, kw, kw["tag"])
        reqs = [m for m in made if m[0] == "request" and m[1] is new.__dict__.get("request")]
        ctx.require(len(reqs) == 1, f"request_to_flow: the imported request of {kw['tag']} does not come from Request.make (import shape not modelled)")
        args = reqs[0][2]
        if kw["method"] in ("POST", "PUT", "PATCH"):
            n_body += 1
            c = args["content"]
            c = c.decode("utf-8", "surrogateescape") if isinstance(c, bytes) else c
            if c != BODY_TEXT:
                body_bad.append(f"{kw['method']}: body {BODY_TEXT!r} is imported as {c!r}")
        if args["method"] != kw["method"] or args["url"] != kw.get("url", "https://example.com/path?q=1"):
            line_bad.append(f"{kw['tag']}: {kw['method']} {kw.get('url', 'https://example.com/path?q=1')} is imported as {args['method']} {args['url']}")
        if kw.get("response", "text") is not None:
            resps = [m for m in made if m[0] == "response" and m[1] is new.__dict__.get("response")]
            ctx.require(len(resps) == 1, f"request_to_flow: the imported response of {kw['tag']} does not come from http.Response (import shape not modelled)")
            want = 404 if kw.get("response") == "empty" else 200
            if resps[0][2]["status_code"] != want:
                line_bad.append(f"{kw['tag']}: status {want} is imported as {resps[0][2]['status_code']}")
    ctx.check(not body_bad, "R41.2", (HAR, "request_to_flow", rtf), "request body of POST/PUT/PATCH requests does not survive export+import",
              "; ".join(body_bad), desc=f"request text of {n_body} POST/PUT/PATCH flows is handed to Request.make as the body")
    ctx.check(not line_bad, "R41.2", (HAR, "request_to_flow", rtf), "method / URL / status code do not survive export+import",
              "; ".join(line_bad), desc=f"method, URL and status code of {len(variants)} exported variants survive")
    ctx.check(not crash, "R41.2", (HAR, "request_to_flow", rtf), "importing an exported entry fails on a key the exporter does not write",
              "the importer requires a key / shape that SaveHar does not write in every branch: " + "; ".join(crash),
              desc=f"{len(variants)} exported variants (text / binary / empty body, no response, error, websocket) import without KeyError")
    ctx.bounds.append(f"R41.1-3: {len(lits)} version literals x request/response; R41.2: {len(variants)} flow variants")
    ctx.trust("json, datetime, base64, re, urllib.parse (handed to the interpreter as trusted modules); mitmproxy.http / connection / net.encoding on the import side replaced by recording stand-ins")

    expect(ctx, "R41.1", 6)
    expect(ctx, "R41.2", 3)
    expect(ctx, H2_RULE, 2)


# ---------------------------------------------------------------------------------------------------
# R41.4: order of the entries (exporter) and of the imported flows (importer)

IO = "mitmproxy/io/io.py"


def _sample_entry(ctx, fe):
    """one interpreted export of a standard flow: the shape of what flow_entry writes"""
    import json

    from ..pyint import Raised
    from ..pyint import Rec

    it, message = _make_interp(ctx, [])
    flow = _export_flow(message, method="POST", tag="shape")
    me = Rec("SaveHar", _impl=(SH, "SaveHar"), flows=[], filt=None)
    try:
        entry = it.method(me, "flow_entry", flow, *([set()] if len(params(fe)) >= 2 else []))
    except Raised as r:
        raise AnalysisError(f"SaveHar.flow_entry: the interpretation on an abstract flow ends with {r.name} ({r.msg}): not modelled")
    ctx.require(isinstance(entry, dict), "SaveHar.flow_entry does not return a dict")
    return json.loads(json.dumps(entry, default=str))


def _stub_entry(shape_of: dict, rank: int, tag: str) -> dict:
    """an entry shaped like what flow_entry writes, every leaf ordered by ``rank`` (so that a sort on ANY exported key is visible)"""

    def shape(d: dict, depth=0):
        out = {}
        for k, v in d.items():
            if isinstance(v, dict) and depth < 3:
                out[k] = shape(v, depth + 1)
            elif k.endswith("DateTime"):
                out[k] = f"2001-01-{rank + 1:02d}T00:00:00+00:00"
            elif isinstance(v, list):
                out[k] = [float(rank)] * (rank + 1)
            else:
                out[k] = float(rank)
        return out

    e = shape(shape_of)
    e["_tag"] = tag
    return e


def _first_arg(call: ast.Call, pname: str):
    if call.args:
        return call.args[0]
    for k in call.keywords:
        if k.arg == pname:
            return k.value
    return None


def _resolve_alias(fn, e):
    """value of a local that is assigned exactly once in ``fn`` from a plain name / attribute chain"""
    seen = 0
    while isinstance(e, ast.Name) and seen < 4:
        asg = [n for n in ast.walk(fn) if isinstance(n, (ast.Assign, ast.AnnAssign)) and n.value is not None
               and any(isinstance(t, ast.Name) and t.id == e.id for t in (n.targets if isinstance(n, ast.Assign) else [n.target]))]
        if len(asg) != 1 or not attr_chain(asg[0].value):
            break
        e = asg[0].value
        seen += 1
    return e


def r41_4(ctx):
    import datetime
    import itertools
    import json
    import types

    from ..pyint import Func
    from ..pyint import Interp
    from ..pyint import NullLog
    from ..pyint import Raised
    from ..pyint import Rec

    class StubInterp(Interp):
        """pyint + (a) rule-supplied stubs may receive abstract records, (b) interpreted functions handed to native callables (sort keys) are wrapped"""

        def native_call(self, f, args, kwargs, where):
            if getattr(f, "_stub", False):
                return f(*args, **kwargs)

            def wrap(v):
                return (lambda *a, **k: self.apply(v, list(a), k, 0)) if isinstance(v, Func) else v

            return super().native_call(f, [wrap(a) for a in args], {k: wrap(v) for k, v in kwargs.items()}, where)

    m = ctx.model
    fe = ctx.func(SH, "SaveHar.flow_entry")
    mh = ctx.func(SH, "SaveHar.make_har")
    mp = params(mh)
    n_required = len(mh.args.posonlyargs + mh.args.args) - 1 - len(mh.args.defaults)
    ctx.require(len(mp) >= 1 and n_required == 1 and not any(d is None for d in mh.args.kw_defaults), "SaveHar.make_har(flows) signature changed: more than the flow list is required")
    shape_of = _sample_entry(ctx, fe)
    ctx.require("startedDateTime" in shape_of and len(shape_of) >= 4, f"SaveHar.flow_entry: the exported entry has keys {sorted(shape_of)} (startedDateTime expected)")
    trusted = {"json": json, "datetime": datetime, "logging": NullLog()}

    # ---- exporter: entries follow the flows
    orders = [(0, 1, 2), (2, 1, 0), (1, 2, 0)] if ctx.tier != "thorough" else list(itertools.permutations(range(4)))
    n_exp = 0
    bad = None
    for ranks in orders:
        for skip_at in (None, 1):
            it = StubInterp(m, trusted_modules=trusted)
            flows, made = [], {}
            for i, r in enumerate(ranks):
                if skip_at == i:
                    flows.append(Rec("TCPFlow", _bases=("Flow",), _name="tcp"))
                flows.append(Rec("HTTPFlow", _bases=("Flow",), _name=f"http{i}", rank=r))

            def flow_entry(flow, *a, _made=made, **k):
                _made[flow._name] = _stub_entry(shape_of, flow.rank, flow._name)
                return _made[flow._name]

            flow_entry._stub = True
            me = Rec("SaveHar", _impl=(SH, "SaveHar"), flow_entry=flow_entry, flows=[], filt=None)
            try:
                har = it.method(me, "make_har", list(flows))
            except Raised as r:
                ctx.require(False, f"SaveHar.make_har: the interpretation on tagged flows ends with {r.name} ({r.msg}): not modelled")
            ctx.require(isinstance(har, dict) and isinstance(har.get("log"), dict) and isinstance(har["log"].get("entries"), list), "SaveHar.make_har does not return {'log': {'entries': [...]}}")
            got = [e.get("_tag") if isinstance(e, dict) else repr(e) for e in har["log"]["entries"]]
            want = [f._name for f in flows if f.isa("HTTPFlow")]
            n_exp += 1
            if got != want and bad is None:
                bad = (ranks, skip_at, got, want)
    ctx.cells += n_exp
    if bad:
        ranks, skip_at, got, want = bad
        ctx.fail("R41.4", (SH, "SaveHar.make_har", mh), f"make_har: flows {want} with start times / durations ranked {list(ranks)} are exported as {got}"[:300],
                 "the exported entries are not the HTTP flows' entries in the order given: the i-th imported flow is not the i-th exported one")
    else:
        ctx.ok("R41.4", f"make_har: log.entries follow the given flows on {n_exp} tagged flow lists (non-HTTP flows skipped)")

    # ---- export_har / done serialise make_har(<the flows they were given>)
    for qual, want_arg in (("SaveHar.export_har", None), ("SaveHar.done", "self.flows")):
        fn = ctx.func(SH, qual)
        want = want_arg or (params(fn)[0] if params(fn) else None)
        calls = [c for c in ast.walk(fn) if isinstance(c, ast.Call) and attr_chain(c.func) in ("self.make_har", "self.export_har")]
        ctx.require(calls, f"{qual}: no call of self.make_har / self.export_har (export path not modelled)")
        firsts = []
        for c in calls:
            callee = m.method(SH, "SaveHar", attr_chain(c.func).split(".")[1])
            pname = params(callee[1])[0] if callee is not None and params(callee[1]) else "flows"
            a = _first_arg(c, pname)
            firsts.append(attr_chain(_resolve_alias(fn, a)) if a is not None else None)
        okc = all(a == want for a in firsts) and not any(isinstance(c._parent, ast.Subscript) for c in calls)
        ctx.check(okc, "R41.4", (SH, qual, calls[0]), f"{qual}: {', '.join(ast.unparse(c) for c in calls)}"[:200],
                  f"the HAR is not built from {want} as given", desc=f"{qual} serialises make_har({want})")

    # ---- importer: one flow per entry, in file order
    st = ctx.func(IO, "FlowReader.stream")
    n_imp = 0
    bad = None
    for ranks in orders:
        entries = [_stub_entry(shape_of, r, f"entry{i}") for i, r in enumerate(ranks)]
        data = json.dumps({"log": {"version": "1.2", "creator": {"name": "x", "version": "1", "comment": ""}, "pages": [], "entries": entries}}).encode()

        class FakeFile:  # position-less: the generator is replayed by pyint, reads must be idempotent
            def peek(self, n=0):
                return data[:n] if n else data

            def read(self, n=-1):
                return data if n is None or n < 0 else b""

            def tell(self):
                return 0

            def seek(self, *a):
                return 0

        it = StubInterp(m, trusted_modules={**trusted, "io": __import__("io"), "os": types.SimpleNamespace()})

        def request_to_flow(entry):
            return ("flow-of", entry.get("_tag") if isinstance(entry, dict) else repr(entry))

        request_to_flow._stub = True
        it.overrides[(IO, "request_to_flow")] = request_to_flow
        reader = Rec("FlowReader", _impl=(IO, "FlowReader"), fo=FakeFile())
        try:
            got = [x[1] if isinstance(x, tuple) and x and x[0] == "flow-of" else repr(x) for x in it.iterate(it.method(reader, "stream"), st)]
        except Raised as r:
            ctx.require(False, f"FlowReader.stream: the interpretation on a tagged HAR file ends with {r.name} ({r.msg}): not modelled")
        want = [e["_tag"] for e in entries]
        n_imp += 1
        if got != want and bad is None:
            bad = (ranks, got, want)
    ctx.cells += n_imp
    if bad:
        ranks, got, want = bad
        ctx.fail("R41.4", (IO, "FlowReader.stream", st), f"stream: a HAR file with entries {want} (start times / durations ranked {list(ranks)}) is read as {got}"[:300],
                 "the imported flows are not the file's entries in file order")
    else:
        ctx.ok("R41.4", f"FlowReader.stream: one request_to_flow(entry) per log.entries element, in file order, on {n_imp} tagged files")
    ctx.bounds.append(f"R41.4: {len(orders)} rank orders of {len(orders[0])} HTTP flows (with / without an interleaved non-HTTP flow); every key of an interpreted flow_entry result ordered by the rank")
    ctx.trust("json, datetime (R41.4: handed to the interpreter as trusted modules)")
    expect(ctx, "R41.4", 4)


def check(ctx):
    ctx.rule("R41.1", "each canonical HTTP version literal other than HTTP/2.0 exported by SaveHar is imported as itself (request and response)")
    ctx.rule("R41.2", "the request text of POST/PUT/PATCH requests is imported as the request body; method, URL, status survive; every exported variant imports without a missing key")
    ctx.rule("R41.3", "the canonical HTTP/2 literal exported by SaveHar is imported as itself (known defect F-C41 on today's tree)")
    ctx.rule("R41.4", "make_har lists the entries of the HTTP flows in the order given, FlowReader.stream yields one flow per entry in file order (interpreted over position-tagged entries)")
    # each group is guarded: a shape one rule does not model must not hide a violation found by another
    ctx.guard(_r41_123, ctx)
    ctx.guard(r41_4, ctx)


MUTANTS = [
    Mutant("revert-fix-request-http10", HAR, "        case \"HTTP/1.0\":\n            new_flow.request.http_version = \"HTTP/1.0\"\n", "", "R41.1"),
    Mutant("revert-fix-response-http10", HAR, "        case \"HTTP/1.0\":\n            new_flow.response.http_version = \"HTTP/1.0\"\n", "", "R41.1"),
    Mutant("http3-imported-as-http2", HAR, "        case \"HTTP/3\":\n            new_flow.request.http_version = \"HTTP/3\"\n", "        case \"HTTP/3\":\n            new_flow.request.http_version = \"HTTP/2\"\n", "R41.1"),
    Mutant("default-becomes-http10", HAR, "        case _:\n            new_flow.response.http_version = \"HTTP/1.1\"\n", "        case _:\n            new_flow.response.http_version = \"HTTP/1.0\"\n", "R41.1"),
    Mutant("response-version-taken-from-request", HAR, "    match http_version_resp:\n", "    match http_version_req:\n", "R41.1"),
    Mutant("canonical-http3-literal-changes", HTTP, "        return self.data.http_version == b\"HTTP/3\"\n", "        return self.data.http_version == b\"HTTP/3.0\"\n", "R41.1"),
    Mutant("exporter-drops-minor-version", SH, "                \"httpVersion\": flow.request.http_version,\n", "                \"httpVersion\": flow.request.http_version.split(\".\")[0],\n", "R41.1"),
    Mutant("http2-imported-as-http3", HAR, "        case \"HTTP/3\":\n            new_flow.response.http_version = \"HTTP/3\"\n", "        case \"HTTP/3\" | \"HTTP/2.0\":\n            new_flow.response.http_version = \"HTTP/3\"\n", "R41.3"),
    Mutant("patch-bodies-not-exported", SH, "if flow.request.method in [\"POST\", \"PUT\", \"PATCH\"]:", "if flow.request.method in [\"POST\", \"PUT\"]:", "R41.2"),
    Mutant("postdata-text-missing", SH, "                \"text\": flow.request.get_text(strict=False),\n", "", "R41.2"),
    Mutant("importer-reads-wrong-postdata-key", HAR, "request_content = request_json[\"request\"][\"postData\"][\"text\"]", "request_content = request_json[\"request\"][\"postData\"][\"mimeType\"]", "R41.2"),
    Mutant("importer-drops-body", HAR, "        request_method, request_url, request_content, request_headers\n", "        request_method, request_url, \"\", request_headers\n", "R41.2"),
    Mutant("importer-swaps-method-and-url", HAR, "        request_method, request_url, request_content, request_headers\n", "        request_url, request_method, request_content, request_headers\n", "R41.2"),
    Mutant("entries-sorted-by-start-time", SH, "        if skipped > 0:\n            logger.info(", "        entries.sort(key=lambda entry: entry[\"startedDateTime\"])\n        if skipped > 0:\n            logger.info(", "R41.4"),
    Mutant("entries-newest-first", SH, "                \"entries\": entries,\n", "                \"entries\": entries[::-1],\n", "R41.4"),
    Mutant("entries-sorted-by-duration", SH, "                \"entries\": entries,\n", "                \"entries\": sorted(entries, key=lambda e: e[\"time\"], reverse=True),\n", "R41.4"),
    Mutant("exporter-prepends-entries", SH, "                entries.append(self.flow_entry(f, servers_seen))\n", "                entries.insert(0, self.flow_entry(f, servers_seen))\n", "R41.4"),
    Mutant("importer-sorts-entries-by-start-time", IO, "                for request_json in har_file[\"log\"][\"entries\"]:\n",
           "                for request_json in sorted(har_file[\"log\"][\"entries\"], key=lambda e: e[\"startedDateTime\"]):\n", "R41.4"),
    Mutant("importer-skips-first-entry", IO, "                for request_json in har_file[\"log\"][\"entries\"]:\n", "                for request_json in har_file[\"log\"][\"entries\"][1:]:\n", "R41.4"),
    Mutant("hardump-exports-filtered-copy-reversed", SH, "                har = self.make_har(self.flows)\n", "                har = self.make_har(self.flows[::-1])\n", "R41.4"),
    Mutant("exporter-renames-required-key", SH, "                \"status\": flow.response.status_code,\n", "                \"statusCode\": flow.response.status_code,\n", "R41.2"),
    Mutant("no-response-entry-lacks-content", SH, "                \"content\": {},\n                \"redirectURL\": \"\",\n", "                \"redirectURL\": \"\",\n", "R41.2"),
]
