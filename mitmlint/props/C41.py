"""C41 - HAR export followed by HAR import preserves the exchange.

Decided (addons/savehar.py::SaveHar.flow_entry vs io/har.py::request_to_flow):
  R41.1 version vocabulary, identity on mitmproxy's own literals: SaveHar emits ``message.http_version`` verbatim; the
        canonical literals are the ones ``Message.is_http10/11/2/3`` test for (read from http.py on every run).  Each of
        them - except the HTTP/2 literal, see R41.3 - must be mapped TO ITSELF by request_to_flow's version ``match``
        for the request and for the response.  Foreign spellings (Chrome's ``http/2.0``, ``h3`` ...) are outside the
        property and pinned by the repo's expected-output files; the rule does not look at them.
  R41.3 the same obligation for the HTTP/2 literal ``HTTP/2.0`` (separate id: on today's tree it falls into the default
        case and is imported as HTTP/1.1 - defect F-C41, which cannot be repaired without editing an expected-output
        file of the existing test-suite; listed as known finding).
  R41.2 request body and required keys: the exporter attaches ``postData`` (with the request text under ``text``) at
        least for POST, PUT and PATCH; the importer takes ``postData.text`` whenever present and passes it to
        ``Request.make`` as the body; every key the importer requires unconditionally (subscript access) is written
        by the exporter in every branch.
  R41.4 "in the same order": ``SaveHar.make_har`` and ``FlowReader.stream`` are INTERPRETED from their AST (pyint; nothing
        is imported or run) on flow lists whose generated entries carry, under every key ``flow_entry`` writes, values that
        increase / decrease / zig-zag with the position (``flow_entry`` and ``request_to_flow`` are replaced by tagging
        stubs; they are the subject of R41.1-R41.3).  ``make_har(flows)["log"]["entries"]`` must be exactly the entries of
        the HTTP flows, in the order of ``flows`` (non-HTTP flows skipped), and ``stream()`` must yield one flow per
        element of ``log.entries`` in file order; ``export_har`` and ``done`` must serialise what ``make_har`` returns
        for the flows they were given.  Any re-ordering that depends on the entries' content (sorting by start time,
        duration, URL ...), a reversal, or a drop / duplication makes the i-th imported flow differ from the i-th exported.
NOT decided: header/body equality, charset handling of the bodies, timings; the order in which ``hardump`` collects flows.
"""

from __future__ import annotations

import ast

from ..model import attr_chain
from ..selftest import Mutant
from ._helpers_E import expect
from ._helpers_E import params
from ._helpers_E import paths
from ._helpers_E import prop_parts
from ._helpers_E import show

PROP = "C41"
REG = {
    "strength": "narrow",
    "technique": "vocabulary agreement: literals tested by Message.is_http* x evaluation of the importer's match statements; key-path agreement between exporter dict literals and importer subscripts; "
    "path rule for postData; interpretation (pyint) of make_har / FlowReader.stream over position-tagged entries for the order clause",
    "claim": "every canonical HTTP version literal of mitmproxy that SaveHar exports verbatim is imported as itself (HTTP/2.0 reported "
    "separately as R41.3); postData is exported for POST/PUT/PATCH and imported as the request body; all keys the importer requires "
    "are exported; make_har lists the entries of the HTTP flows in the order given and FlowReader.stream yields them in file order.",
    "note": "Foreign version spellings are out of scope. Header and body equality are not decided.",
}

HAR = "mitmproxy/io/har.py"
SH = "mitmproxy/addons/savehar.py"
HTTP = "mitmproxy/http.py"
H2_RULE = "R41.3"


def _vocabulary(ctx):
    cls = ctx.model.cls(HTTP, "Message")
    out = {}
    for name in ("is_http10", "is_http11", "is_http2", "is_http3"):
        g, _ = prop_parts(cls, name)
        ctx.require(g is not None, f"Message.{name} property vanished")
        cmps = [n for n in ast.walk(g) if isinstance(n, ast.Compare) and len(n.ops) == 1 and isinstance(n.ops[0], ast.Eq)]
        lits = [c for n in cmps for c in (n.left, n.comparators[0]) if isinstance(c, ast.Constant) and isinstance(c.value, (bytes, str))]
        ctx.require(len(cmps) == 1 and len(lits) == 1 and "http_version" in ast.unparse(cmps[0]), f"Message.{name} is no longer 'http_version == <literal>'")
        v = lits[0].value
        out[name] = v.decode() if isinstance(v, bytes) else v
    return out


def _exporter(ctx, fe):
    """dict literals of flow_entry: entry, request, response variants, postData."""
    dicts = {"entry": [], "response": [], "postData": []}
    for n in ast.walk(fe):
        if isinstance(n, (ast.Assign, ast.AnnAssign)) and isinstance(n.value, ast.Dict):
            tg = n.targets[0] if isinstance(n, ast.Assign) else n.target
            if isinstance(tg, ast.Name) and tg.id in ("entry", "response"):
                dicts[tg.id].append(n.value)
            elif ast.unparse(tg).replace('"', "'") == "entry['request']['postData']":
                dicts["postData"].append(n)
    ctx.require(len(dicts["entry"]) == 1, "SaveHar.flow_entry: 'entry' dict literal not found")
    ctx.require(len(dicts["response"]) >= 1, "SaveHar.flow_entry: 'response' dict literal(s) not found")
    return dicts


def _keys(d: ast.Dict):
    return {k.value: v for k, v in zip(d.keys, d.values) if isinstance(k, ast.Constant)}


def _r41_123(ctx):
    vocab = _vocabulary(ctx)
    ctx.note(f"canonical version literals: {vocab}")
    fe = ctx.func(SH, "SaveHar.flow_entry")
    rtf = ctx.func(HAR, "request_to_flow")
    fp = params(fe)
    ctx.require(len(fp) >= 1, "SaveHar.flow_entry(flow, ...) signature changed")
    flow = fp[0]
    ex = _exporter(ctx, fe)
    entry = _keys(ex["entry"][0])

    # ---- exporter emits http_version verbatim
    emitted = {"request": [], "response": []}
    req = entry.get("request")
    ctx.require(isinstance(req, ast.Dict), "SaveHar.flow_entry: entry['request'] is not a dict literal")
    if "httpVersion" in _keys(req):
        emitted["request"].append(_keys(req)["httpVersion"])
    for d in ex["response"]:
        if "httpVersion" in _keys(d):
            emitted["response"].append(_keys(d)["httpVersion"])
    for side, vals in emitted.items():
        live = [v for v in vals if not (isinstance(v, ast.Constant) and v.value == "")]
        ctx.require(all(attr_chain(v) == f"{flow}.{side}.http_version" for v in live),
                    f"SaveHar.flow_entry: {side} httpVersion is not {flow}.{side}.http_version verbatim ({[ast.unparse(v) for v in live]}): exported vocabulary not modelled")

    # ---- importer: evaluate the version match statements
    rj = params(rtf, drop_self=False)
    ctx.require(len(rj) == 1, "request_to_flow(request_json) signature changed")
    rj = rj[0]
    origins = {}
    for n in ast.walk(rtf):
        if isinstance(n, ast.Assign) and isinstance(n.targets[0], ast.Name):
            txt = ast.unparse(n.value).replace('"', "'")
            for side in ("request", "response"):
                if txt == f"{rj}['{side}']['httpVersion']":
                    origins[n.targets[0].id] = side
    matches = {}
    for n in ast.walk(rtf):
        if isinstance(n, ast.Match) and isinstance(n.subject, ast.Name) and n.subject.id in origins:
            side = origins[n.subject.id]
            ctx.require(side not in matches, f"request_to_flow: two version matches for the {side}")
            matches[side] = n

    def evaluate(mt: ast.Match, side: str, v: str):
        def pat(p):
            if isinstance(p, ast.MatchValue) and isinstance(p.value, ast.Constant):
                return p.value.value == v
            if isinstance(p, ast.MatchOr):
                return any(pat(q) for q in p.patterns)
            if isinstance(p, ast.MatchAs) and p.pattern is None:
                return True
            ctx.require(False, f"request_to_flow: version match has an unmodelled pattern: {ast.unparse(p)}")

        for case in mt.cases:
            ctx.require(case.guard is None, "request_to_flow: guarded case in the version match is not modelled")
            if pat(case.pattern):
                asg = [s for s in case.body if isinstance(s, ast.Assign) and attr_chain(s.targets[0]).endswith(f".{side}.http_version")]
                ctx.require(len(asg) == 1 and len(case.body) == 1, f"request_to_flow: case body is not a single assignment of {side}.http_version: {ast.unparse(case)[:80]}")
                val = asg[0].value
                if isinstance(val, ast.Constant):
                    return val.value.decode() if isinstance(val.value, bytes) else val.value
                if isinstance(val, ast.Name) and val.id == mt.subject.id:
                    return v
                ctx.require(False, f"request_to_flow: assigned version is neither a literal nor the subject: {ast.unparse(val)}")
        ctx.require(False, f"request_to_flow: the {side} version match has no default case; the resulting version for {v!r} is not modelled")

    for side in ("request", "response"):
        if not emitted[side]:
            continue
        ctx.require(side in matches, f"request_to_flow: no 'match' on the {side} httpVersion (mapping shape not modelled)")
        for prop, v in sorted(vocab.items()):
            got = evaluate(matches[side], side, v)
            rule = H2_RULE if prop == "is_http2" else "R41.1"
            ctx.cells += 1
            ctx.check(got == v, rule, (HAR, "request_to_flow", matches[side]), f"{side} httpVersion '{v}' is imported as '{got}'",
                      f"SaveHar exports {flow}.{side}.http_version == '{v}' verbatim, the import turns it into '{got}': the HTTP version does not survive export+import",
                      desc=f"{side}: '{v}' -> '{got}'")

    # ---- R41.2 exporter attaches postData for POST/PUT/PATCH with the request text
    ctx.require(len(ex["postData"]) == 1, f"SaveHar.flow_entry: {len(ex['postData'])} postData assignments (expected one)")
    pd = ex["postData"][0]
    guard = pd._parent
    methods = None
    if guard is fe:
        methods = "all"
    elif isinstance(guard, ast.If) and pd in guard.body:
        t = guard.test
        if isinstance(t, ast.Compare) and len(t.ops) == 1 and isinstance(t.ops[0], ast.In) and attr_chain(t.left) == f"{flow}.request.method" and isinstance(t.comparators[0], (ast.List, ast.Tuple, ast.Set)):
            methods = set(ast.literal_eval(t.comparators[0]))
    ctx.require(methods is not None, f"SaveHar.flow_entry: postData guard not modelled: {ast.unparse(guard)[:80]}")
    need = {"POST", "PUT", "PATCH"}
    ctx.check(methods == "all" or need <= methods, "R41.2", (SH, "SaveHar.flow_entry", pd), f"postData exported for methods {sorted(methods) if methods != 'all' else 'all'}",
              f"request bodies of {sorted(need - methods) if methods != 'all' else []} requests are not exported", desc=f"postData for {sorted(methods) if methods != 'all' else 'all methods'}")
    pkeys = _keys(pd.value)
    tv = pkeys.get("text")
    tv_ok = tv is not None and ((isinstance(tv, ast.Call) and attr_chain(tv.func) == f"{flow}.request.get_text") or attr_chain(tv) in (f"{flow}.request.text",))
    ctx.check(tv_ok, "R41.2", (SH, "SaveHar.flow_entry", pd), f"postData.text = {ast.unparse(tv) if tv is not None else '<missing>'}",
              "the exported postData does not carry the request text under 'text', which is what the importer reads", desc="postData.text = request text")

    # ---- R41.2 importer takes postData.text and passes it to Request.make
    def q(s):
        return s.replace('"', "'")

    mk = [c for c in ast.walk(rtf) if isinstance(c, ast.Call) and ast.unparse(c.func).endswith("Request.make")]
    ctx.require(len(mk) == 1 and len(mk[0].args) >= 3, "request_to_flow: Request.make(method, url, content, headers) call not found")
    if isinstance(mk[0].args[2], ast.Constant):
        ctx.fail("R41.2", (HAR, "request_to_flow", mk[0]), f"Request.make body argument is the constant {ast.unparse(mk[0].args[2])}", "the imported request never carries the exported postData.text")
        cvar = "<constant>"
    else:
        ctx.require(isinstance(mk[0].args[2], ast.Name), f"request_to_flow: Request.make body argument is not a local: {ast.unparse(mk[0].args[2])}")
        cvar = mk[0].args[2].id
    trs, eng = paths(rtf, keep=lambda e: (e[0] == "assign" and e[1] == cvar) or (e[0] == "call" and e[1].endswith("Request.make")), record_conds=True)
    trs = [(tuple(e for e in t if e[0] != "cond" or "postData" in e[1]), how) for t, how in trs]
    trs = sorted(set(trs), key=str)
    ctx.paths += len(trs)
    bad = False
    n_with = 0
    for t, how in trs:
        mki = [i for i, e in enumerate(t) if e[0] == "call"]
        if not mki:
            continue
        present = [e[2] for e in t if e[0] == "cond" and q(e[1]) == f"'postData' in {rj}['request']"]
        last = [e for e in t[: mki[0]] if e[0] == "assign"]
        if present and present[-1]:
            n_with += 1
            if not last or q(last[-1][2]) != f"{rj}['request']['postData']['text']" or t[mki[0]][2][2] != cvar:
                bad = True
                ctx.fail("R41.2", (HAR, "request_to_flow", mk[0]), f"request_to_flow: path [{show(t)}]", "an exported postData.text is not used as the imported request body")
    ctx.require(bad or n_with >= 1, f"request_to_flow: no path tests 'postData' in {rj}['request'] (shape not modelled)")
    if not bad:
        ctx.ok("R41.2", f"importer: postData.text -> Request.make body on {n_with} path class(es)")

    # ---- R41.2 required keys are exported
    required = set()
    for n in ast.walk(rtf):
        if isinstance(n, ast.Subscript) and isinstance(n.ctx, ast.Load) and not isinstance(getattr(n, "_parent", None), ast.Subscript):
            chain, e = [], n
            while isinstance(e, ast.Subscript) and isinstance(e.slice, ast.Constant) and isinstance(e.slice.value, str):
                chain.append(e.slice.value)
                e = e.value
            if isinstance(e, ast.Name) and e.id == rj and chain:
                required.add(tuple(reversed(chain)))
    ctx.require(len(required) >= 8, f"request_to_flow: only {len(required)} required key paths found")
    missing = []
    for ch in sorted(required):
        if ch[:2] == ("request", "postData"):
            continue  # guarded by the presence test checked above
        ctx.cells += 1
        level = [entry]
        okp = True
        for i, k in enumerate(ch):
            if not all(k in lv for lv in level):
                okp = False
                break
            vals = [lv[k] for lv in level]
            nxt = []
            for v in vals:
                if isinstance(v, ast.Dict):
                    nxt.append(_keys(v))
                elif isinstance(v, ast.Name) and v.id == "response":
                    nxt += [_keys(d) for d in ex["response"]]
                else:
                    nxt = None
                    break
            if nxt is None:
                ctx.require(i == len(ch) - 1, f"importer reads {ch} but the exporter's value at {ch[:i + 1]} is not a dict literal (not modelled)")
                break
            level = nxt
        if not okp:
            missing.append(ch)
    ctx.check(not missing, "R41.2", (HAR, "request_to_flow", rtf), f"required keys not exported: {missing}",
              "the importer subscripts a key that SaveHar does not write in every branch: importing an exported file fails with KeyError",
              desc=f"{len(required)} required key paths are all exported")

    expect(ctx, "R41.1", 6)
    expect(ctx, "R41.2", 4)
    expect(ctx, H2_RULE, 2)


# ---------------------------------------------------------------------------------------------------
# R41.4: order of the entries (exporter) and of the imported flows (importer)

IO = "mitmproxy/io/io.py"


def _stub_entry(ctx, fe, rank: int, tag: str) -> dict:
    """an entry shaped like flow_entry's dict literals, every leaf ordered by ``rank`` (so that a sort on ANY exported key is visible)"""
    ex = _exporter(ctx, fe)

    def shape(d: ast.Dict, depth=0):
        out = {}
        for k, v in _keys(d).items():
            if isinstance(v, ast.Dict) and depth < 3:
                out[k] = shape(v, depth + 1)
            elif isinstance(v, ast.Name) and v.id == "response" and ex["response"]:
                out[k] = shape(ex["response"][0], depth + 1)
            elif k.endswith("DateTime"):
                out[k] = f"2001-01-{rank + 1:02d}T00:00:00+00:00"
            else:
                out[k] = float(rank)
        return out

    e = shape(ex["entry"][0])
    ctx.require("startedDateTime" in e and len(e) >= 4, f"SaveHar.flow_entry: entry literal has keys {sorted(e)} (startedDateTime expected)")
    e["_tag"] = tag
    return e


def r41_4(ctx):
    import datetime
    import itertools
    import json
    import types

    from ..pyint import Func
    from ..pyint import Interp
    from ..pyint import Raised
    from ..pyint import Rec

    class StubInterp(Interp):
        """pyint + (a) rule-supplied stubs may receive abstract records, (b) interpreted functions handed to native callables (sort keys) are wrapped"""

        def native_call(self, f, args, kwargs, where):
            if getattr(f, "_stub", False):
                return f(*args, **kwargs)

            def wrap(v):
                return (lambda *a, **k: self.apply(v, list(a), k, 0)) if isinstance(v, Func) else v

            return super().native_call(f, [wrap(a) for a in args], {k: wrap(v) for k, v in kwargs.items()}, where)

        def name(self, ident, env, mod, depth, node):
            if ident in ("map", "filter") and ident not in env and mod.get(ident) is None and ident not in mod.imports and not mod.assigns(ident):
                return ("$builtin", ident)
            return super().name(ident, env, mod, depth, node)

        def builtin(self, name, args, kwargs, e, env, mod, depth):
            if name == "map" and len(args) >= 2:
                return iter([self.apply(args[0], list(xs), {}, depth, e) for xs in zip(*[list(self.iterate(a, e)) for a in args[1:]])])
            if name == "filter" and len(args) == 2:
                return iter([x for x in list(self.iterate(args[1], e)) if self.truthy(x if args[0] is None else self.apply(args[0], [x], {}, depth, e))])
            return super().builtin(name, args, kwargs, e, env, mod, depth)

    m = ctx.model
    fe = ctx.func(SH, "SaveHar.flow_entry")
    mh = ctx.func(SH, "SaveHar.make_har")
    mp = params(mh)
    ctx.require(len(mp) == 1, "SaveHar.make_har(flows) signature changed")
    trusted = {"json": json, "datetime": datetime, "logging": types.SimpleNamespace(getLogger=lambda *a: None, log=lambda *a, **k: None)}
    quiet = types.SimpleNamespace(**{n: (lambda *a, **k: None) for n in ("debug", "info", "warning", "warn", "error", "log")})

    # ---- exporter: entries follow the flows
    orders = [(0, 1, 2), (2, 1, 0), (1, 2, 0)] if ctx.tier != "thorough" else list(itertools.permutations(range(4)))
    n_exp = 0
    bad = None
    for ranks in orders:
        for skip_at in (None, 1):
            it = StubInterp(m, trusted_modules=trusted)
            it.overrides[(SH, "logger")] = quiet
            flows, made = [], {}
            for i, r in enumerate(ranks):
                if skip_at == i:
                    flows.append(Rec("TCPFlow", _bases=("Flow",), _name="tcp"))
                flows.append(Rec("HTTPFlow", _bases=("Flow",), _name=f"http{i}", rank=r))

            def flow_entry(flow, *a, _made=made, **k):
                _made[flow._name] = _stub_entry(ctx, fe, flow.rank, flow._name)
                return _made[flow._name]

            flow_entry._stub = True
            me = Rec("SaveHar", _impl=(SH, "SaveHar"), flow_entry=flow_entry, flows=[], filt=None)
            try:
                har = it.method(me, "make_har", list(flows))
            except Raised as r:
                ctx.require(False, f"SaveHar.make_har: the interpretation on tagged flows ends with {r.name} ({r.msg}): not modelled")
            ctx.require(isinstance(har, dict) and isinstance(har.get("log"), dict) and isinstance(har["log"].get("entries"), list), "SaveHar.make_har does not return {'log': {'entries': [...]}}")
            got = [e.get("_tag") if isinstance(e, dict) else repr(e) for e in har["log"]["entries"]]
            want = [f._name for f in flows if f.isa("HTTPFlow")]
            n_exp += 1
            if got != want and bad is None:
                bad = (ranks, skip_at, got, want)
    ctx.cells += n_exp
    if bad:
        ranks, skip_at, got, want = bad
        ctx.fail("R41.4", (SH, "SaveHar.make_har", mh), f"make_har: flows {want} with start times / durations ranked {list(ranks)} are exported as {got}"[:300],
                 "the exported entries are not the HTTP flows' entries in the order given: the i-th imported flow is not the i-th exported one")
    else:
        ctx.ok("R41.4", f"make_har: log.entries follow the given flows on {n_exp} tagged flow lists (non-HTTP flows skipped)")

    # ---- export_har / done serialise make_har(<the flows they were given>)
    for qual, want_arg in (("SaveHar.export_har", None), ("SaveHar.done", "self.flows")):
        fn = ctx.func(SH, qual)
        want = want_arg or (params(fn)[0] if params(fn) else None)
        calls = [c for c in ast.walk(fn) if isinstance(c, ast.Call) and attr_chain(c.func) in ("self.make_har", "self.export_har")]
        ctx.require(calls, f"{qual}: no call of self.make_har / self.export_har (export path not modelled)")
        okc = all(c.args and attr_chain(c.args[0]) == want and not isinstance(c._parent, ast.Subscript) for c in calls)
        ctx.check(okc, "R41.4", (SH, qual, calls[0]), f"{qual}: {', '.join(ast.unparse(c) for c in calls)}"[:200],
                  f"the HAR is not built from {want} as given", desc=f"{qual} serialises make_har({want})")

    # ---- importer: one flow per entry, in file order
    st = ctx.func(IO, "FlowReader.stream")
    n_imp = 0
    bad = None
    for ranks in orders:
        entries = [_stub_entry(ctx, fe, r, f"entry{i}") for i, r in enumerate(ranks)]
        data = json.dumps({"log": {"version": "1.2", "creator": {"name": "x", "version": "1", "comment": ""}, "pages": [], "entries": entries}}).encode()

        class FakeFile:  # position-less: the generator is replayed by pyint, reads must be idempotent
            def peek(self, n=0):
                return data[:n] if n else data

            def read(self, n=-1):
                return data if n is None or n < 0 else b""

            def tell(self):
                return 0

            def seek(self, *a):
                return 0

        it = StubInterp(m, trusted_modules={**trusted, "io": __import__("io"), "os": types.SimpleNamespace()})

        def request_to_flow(entry):
            return ("flow-of", entry.get("_tag") if isinstance(entry, dict) else repr(entry))

        request_to_flow._stub = True
        it.overrides[(IO, "request_to_flow")] = request_to_flow
        reader = Rec("FlowReader", _impl=(IO, "FlowReader"), fo=FakeFile())
        try:
            got = [x[1] if isinstance(x, tuple) and x and x[0] == "flow-of" else repr(x) for x in it.iterate(it.method(reader, "stream"), st)]
        except Raised as r:
            ctx.require(False, f"FlowReader.stream: the interpretation on a tagged HAR file ends with {r.name} ({r.msg}): not modelled")
        want = [e["_tag"] for e in entries]
        n_imp += 1
        if got != want and bad is None:
            bad = (ranks, got, want)
    ctx.cells += n_imp
    if bad:
        ranks, got, want = bad
        ctx.fail("R41.4", (IO, "FlowReader.stream", st), f"stream: a HAR file with entries {want} (start times / durations ranked {list(ranks)}) is read as {got}"[:300],
                 "the imported flows are not the file's entries in file order")
    else:
        ctx.ok("R41.4", f"FlowReader.stream: one request_to_flow(entry) per log.entries element, in file order, on {n_imp} tagged files")
    ctx.bounds.append(f"R41.4: {len(orders)} rank orders of {len(orders[0])} HTTP flows (with / without an interleaved non-HTTP flow); every key of flow_entry's literals ordered by the rank")
    ctx.trust("json, datetime (R41.4: handed to the interpreter as trusted modules)")
    expect(ctx, "R41.4", 4)


def check(ctx):
    ctx.rule("R41.1", "each canonical HTTP version literal other than HTTP/2.0 exported by SaveHar is imported as itself (request and response)")
    ctx.rule("R41.2", "postData exported for POST/PUT/PATCH and imported as the request body; all keys the importer requires are exported")
    ctx.rule("R41.3", "the canonical HTTP/2 literal exported by SaveHar is imported as itself (known defect F-C41 on today's tree)")
    ctx.rule("R41.4", "make_har lists the entries of the HTTP flows in the order given, FlowReader.stream yields one flow per entry in file order (interpreted over position-tagged entries)")
    # each group is guarded: a shape one rule does not model must not hide a violation found by another
    ctx.guard(_r41_123, ctx)
    ctx.guard(r41_4, ctx)


MUTANTS = [
    Mutant("revert-fix-request-http10", HAR, "        case \"HTTP/1.0\":\n            new_flow.request.http_version = \"HTTP/1.0\"\n", "", "R41.1"),
    Mutant("revert-fix-response-http10", HAR, "        case \"HTTP/1.0\":\n            new_flow.response.http_version = \"HTTP/1.0\"\n", "", "R41.1"),
    Mutant("http3-imported-as-http2", HAR, "        case \"HTTP/3\":\n            new_flow.request.http_version = \"HTTP/3\"\n", "        case \"HTTP/3\":\n            new_flow.request.http_version = \"HTTP/2\"\n", "R41.1"),
    Mutant("default-becomes-http10", HAR, "        case _:\n            new_flow.response.http_version = \"HTTP/1.1\"\n", "        case _:\n            new_flow.response.http_version = \"HTTP/1.0\"\n", "R41.1"),
    Mutant("canonical-http3-literal-changes", HTTP, "        return self.data.http_version == b\"HTTP/3\"\n", "        return self.data.http_version == b\"HTTP/3.0\"\n", "R41.1"),
    Mutant("http2-imported-as-http3", HAR, "        case \"HTTP/3\":\n            new_flow.response.http_version = \"HTTP/3\"\n", "        case \"HTTP/3\" | \"HTTP/2.0\":\n            new_flow.response.http_version = \"HTTP/3\"\n", "R41.3"),
    Mutant("patch-bodies-not-exported", SH, "if flow.request.method in [\"POST\", \"PUT\", \"PATCH\"]:", "if flow.request.method in [\"POST\", \"PUT\"]:", "R41.2"),
    Mutant("postdata-text-missing", SH, "                \"text\": flow.request.get_text(strict=False),\n", "", "R41.2"),
    Mutant("importer-reads-wrong-postdata-key", HAR, "request_content = request_json[\"request\"][\"postData\"][\"text\"]", "request_content = request_json[\"request\"][\"postData\"][\"mimeType\"]", "R41.2"),
    Mutant("importer-drops-body", HAR, "        request_method, request_url, request_content, request_headers\n", "        request_method, request_url, \"\", request_headers\n", "R41.2"),
    Mutant("entries-sorted-by-start-time", SH, "        if skipped > 0:\n            logger.info(", "        entries.sort(key=lambda entry: entry[\"startedDateTime\"])\n        if skipped > 0:\n            logger.info(", "R41.4"),
    Mutant("entries-newest-first", SH, "                \"entries\": entries,\n", "                \"entries\": entries[::-1],\n", "R41.4"),
    Mutant("entries-sorted-by-duration", SH, "                \"entries\": entries,\n", "                \"entries\": sorted(entries, key=lambda e: e[\"time\"], reverse=True),\n", "R41.4"),
    Mutant("exporter-prepends-entries", SH, "                entries.append(self.flow_entry(f, servers_seen))\n", "                entries.insert(0, self.flow_entry(f, servers_seen))\n", "R41.4"),
    Mutant("importer-sorts-entries-by-start-time", IO, "                for request_json in har_file[\"log\"][\"entries\"]:\n",
           "                for request_json in sorted(har_file[\"log\"][\"entries\"], key=lambda e: e[\"startedDateTime\"]):\n", "R41.4"),
    Mutant("importer-skips-first-entry", IO, "                for request_json in har_file[\"log\"][\"entries\"]:\n", "                for request_json in har_file[\"log\"][\"entries\"][1:]:\n", "R41.4"),
    Mutant("hardump-exports-filtered-copy-reversed", SH, "                har = self.make_har(self.flows)\n", "                har = self.make_har(self.flows[::-1])\n", "R41.4"),
    Mutant("exporter-renames-required-key", SH, "                \"status\": flow.response.status_code,\n", "                \"statusCode\": flow.response.status_code,\n", "R41.2"),
]
