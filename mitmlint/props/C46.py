"""C46 - mitmweb requires authentication and blocks cross-site state changes.

Decided by *interpreting* the source of tools/web/app.py and webaddons.py (mitmlint.pyint, nothing imported or run) in
concrete request worlds against a reference written from the property text; master.py is read for the registration.
The interpreter follows helpers, local aliases, `match`, inverted branches, module constants ... by itself, and every
anchor is found by its role (what tornado / the addon manager would call), not by its name:

  application  the class of app.py deriving from tornado.web.Application; its __init__ is interpreted with a scripted
               master (addons.get(<name>) instantiates the webaddons class of that name, which master.py must register
               exactly once); the arguments of the tornado super().__init__ call are the route table and the settings.
  hook         for a handler class C the first __init_subclass__ among C's proper ancestors (what Python runs when C is
               created); it is interpreted on a scripted class object whose implemented verbs are recording markers.
  R46.1 registry + wrapping: every routed class and every class deriving from a tornado handler that implements a verb
        has such a hook; after the hook every implemented verb of the class is bound to repository code (not to the raw
        verb) and, called in request worlds without valid credentials, never reaches the verb; no class binds tornado's
        current_user / _current_user / _execute; no verb / auth member is re-bound after class creation outside the
        functions the hooks run; the route table is the only handler registration and is not mutated.
  R46.2 the installed wrapper, full world matrix (4 password configurations x 10 Authorization headers x 5 token
        arguments x 3 cookie jars, per verb): without a valid credential (signed session cookie issued by a login /
        configured password or token) the verb is not reached, no session cookie is issued, no proxy state
        (application.master ...) is touched - also not by auth_fail overrides - and the run ends with status 403 (or an
        exception); unsigned cookies are attacker controlled (they compare equal to anything).  The settings predicate
        ``is_valid_password`` (whatever Application hands to the handlers) is tabulated for every configuration and
        re-configuration (default token, option unset, plaintext, argon2 hash; revocation after a change): it is truthy
        only for the configured secret - never for "", a wrong / truncated / extended value, the argon2 hash itself, a hash
        of it, or a revoked password.  cookie_secret comes from a random source of >= 16 bytes.
  R46.3 the settings carry xsrf_cookies=True and nothing rewrites them; no handler overrides check_xsrf_cookie; for
        every routed class implementing a non-safe verb, ``prepare`` (resolved along the MRO, interpreted) raises for every
        non-safe method x Sec-Fetch-Site in (cross-site, same-site); a same-origin POST passes (control).
NOT decided: tornado's own dispatch (verb lookup by lower-cased method name, xsrf check before prepare, 405 for
unimplemented verbs, WebSocket upgrade only through ``get``), the static file route tornado adds for ``static_path``
(serves the bundled UI assets, no flow data), the HTTP status actually produced by an exception.
"""

from __future__ import annotations

import ast
import hashlib
import hmac
import http
import posixpath
import re

from ..core import AnalysisError
from ..core import norm
from ..model import attr_chain
from ..model import call_name
from ..model import last_attr
from ..model import qual_of
from ..model import walk_in_order
from ..pyint import ClassRef
from ..pyint import DictRec
from ..pyint import Func
from ..pyint import Interp
from ..pyint import NullLog
from ..pyint import Raised
from ..pyint import Rec
from ..selftest import Mutant
from ._helpers_F import attribute_stores
from ._helpers_F import class_members

PROP = "C46"
REG = {
    "strength": "strong",
    "technique": "AST interpretation (pyint) of Application.__init__, the __init_subclass__ hooks, the installed auth wrapper, "
    "get_current_user / auth_fail / prepare and the password predicate in scripted tornado request worlds, compared with a "
    "reference written from the property text; route-table / class-hierarchy registry check; settings dataflow",
    "claim": "every routed mitmweb handler (24 routes, 26 handler classes) gets every implemented HTTP verb replaced, by the "
    "__init_subclass__ hook of an ancestor, with a wrapper that reaches the verb only with a valid signed session cookie or "
    "a password accepted by the configured predicate (WebAuth.is_valid_password: truthy only for the configured secret, never "
    "the empty string, also after re-configuration) and otherwise answers 403 without touching proxy state; xsrf_cookies is "
    "on, check_xsrf_cookie is never overridden, and every handler with a non-safe verb runs a prepare() that rejects "
    "same-site and cross-site for every non-safe method.",
    "note": "Trusted: tornado dispatch semantics (verb lookup via getattr(self, method.lower()), SUPPORTED_METHODS, xsrf check "
    "for non GET/HEAD/OPTIONS before prepare(), current_user caching get_current_user(), get_signed_cookie returning only "
    "values signed with cookie_secret, WebSocket upgrade in get()); hmac / hashlib / argon2 / secrets semantics (modelled); the "
    "static asset route is outside the claim.",
}

APP = "mitmproxy/tools/web/app.py"
WA = "mitmproxy/tools/web/webaddons.py"
MASTER = "mitmproxy/tools/web/master.py"
METHODS = ("GET", "HEAD", "POST", "DELETE", "PATCH", "PUT", "OPTIONS")  # tornado.web.RequestHandler.SUPPORTED_METHODS
VERBS = tuple(m.lower() for m in METHODS)
UNSAFE = ("post", "delete", "patch", "put")
TORNADO_AUTH_MEMBERS = ("current_user", "_current_user", "_execute")  # names fixed by tornado's contract
NON_HANDLER_TORNADO = {"HTTPError", "GZipContentEncoding", "Application"}
SENSITIVE_SETTINGS = {"xsrf_cookies", "is_valid_password", "auth_cookie_name", "cookie_secret"}
LIST_MUTATORS = {"append", "extend", "insert", "remove", "pop", "clear", "sort", "reverse", "__setitem__", "__delitem__", "__iadd__"}


# ---------------------------------------------------------------------------------------------------
# library models handed to the interpreter


def _native(f):
    f._pyint_accepts_abstract = True
    return f


class _NS:
    _pyint_accepts_abstract = True

    def __init__(self, **kw):
        self.__dict__.update(kw)


@_native
def _unimplemented(*a, **k):
    raise Raised("HTTPError", "405")


TORNADO = _NS(
    web=_NS(RequestHandler=_NS(_unimplemented_method=_unimplemented, SUPPORTED_METHODS=METHODS)),
    websocket=_NS(WebSocketHandler=_NS(_unimplemented_method=_unimplemented, SUPPORTED_METHODS=METHODS)),
)


class _Secrets:
    """secrets / os.urandom: deterministic stand-ins, remembered so that rules can tell random values from source constants"""

    _pyint_accepts_abstract = True

    def __init__(self):
        self.tokens: list = []
        self.blobs: list = []

    def _byte(self):
        return (0xA5 + 7 * (len(self.tokens) + len(self.blobs))) & 0xFF

    def token_hex(self, nbytes=None):
        t = f"{self._byte():02x}" * (32 if nbytes is None else nbytes)
        self.tokens.append(t)
        return t

    def token_urlsafe(self, nbytes=None):
        n = 32 if nbytes is None else nbytes
        t = (f"{self._byte():02x}Z-" * n)[: (n * 4 + 2) // 3]
        self.tokens.append(t)
        return t

    def token_bytes(self, nbytes=None):
        b = bytes([self._byte()]) * (32 if nbytes is None else nbytes)
        self.blobs.append(b)
        return b

    def compare_digest(self, a, b):
        return hmac.compare_digest(a, b)

    def is_random(self, v) -> bool:
        return any(v is x or (type(v) is type(x) and v == x) for x in self.tokens + self.blobs)


class _Hasher:
    _pyint_accepts_abstract = True

    def __init__(self, lib):
        self.lib = lib

    def hash(self, password, **kw):
        return self.lib.make(password)

    def verify(self, hash, password):  # noqa: A002 (argon2's parameter name)
        for v in (hash, password):
            if not isinstance(v, (str, bytes)):
                raise Raised("TypeError", "argon2 verify")
        if hash not in self.lib.known:
            raise Raised("InvalidHashError")
        if self.lib.known[hash] == password:
            return True
        raise Raised("VerifyMismatchError")

    def check_needs_rehash(self, hash):  # noqa: A002
        return False


class _Argon2:
    """argon2-cffi: a hash verifies exactly its registered pre-image, everything else raises like the library does"""

    _pyint_accepts_abstract = True

    def __init__(self):
        self.known: dict = {}
        self.exceptions = _NS()

    def make(self, password):
        h = "$argon2id$v=19$m=65536,t=3,p=4$" + hashlib.sha256(str(password).encode()).hexdigest()[:22] + "$" + hashlib.md5(str(password).encode()).hexdigest()
        self.known[h] = password
        return h

    def PasswordHasher(self, *a, **k):  # noqa: N802
        return _Hasher(self)

    def extract_parameters(self, hash):  # noqa: A002
        if hash not in self.known:
            raise Raised("InvalidHashError")
        return _NS(type="id", version=19)


EXC_PARENT = {
    "VerifyMismatchError": "VerificationError",
    "VerificationError": "Argon2Error",
    "HashingError": "Argon2Error",
    "Argon2Error": "Exception",
    "InvalidHashError": "ValueError",
    "InvalidHash": "ValueError",
    "MissingArgumentError": "HTTPError",
    "HTTPError": "Exception",
    "Finish": "Exception",
}


class _Forged:
    """an attacker-chosen (unsigned) cookie value: worst case, it compares equal to whatever the code expects"""

    _pyint_accepts_abstract = True

    def __eq__(self, other):
        return True

    def __ne__(self, other):
        return False

    def __hash__(self):
        return 0

    @property
    def value(self):
        return self

    def encode(self, *a):
        return self

    decode = strip = encode


class _ForgedJar:
    _pyint_accepts_abstract = True

    def get(self, name, default=None):
        return _Forged()

    def __getitem__(self, name):
        return _Forged()

    def __contains__(self, name):
        return True


# ---------------------------------------------------------------------------------------------------
# request worlds


class World:
    """one request: verb, Authorization header, token argument, cookie jars, Sec-Fetch-Site; collects the handler's effects"""

    def __init__(self, verb="get", header=None, token=None, signed=None, forged=False, site=None, valid=False, label=""):
        self.verb = verb
        self.headers = {}
        if header is not None:
            self.headers["Authorization"] = header
        if site is not None:
            self.headers["Sec-Fetch-Site"] = site
        self.args = {} if token is None else {"token": token}
        self.signed = dict(signed or {})
        self.forged = forged
        self.valid = valid  # does the request carry a valid credential (reference side)
        self.label = label
        self.events: list = []

    def status(self):
        codes = [e[1] for e in self.events if e[0] == "status"]
        return codes[-1] if codes else None

    def has(self, kind):
        return [e for e in self.events if e[0] == kind]


def _state(name):
    return Rec("$state", _name=name)


class WebInterp(Interp):
    """pyint with tornado's handler object, the application / master objects and the proxy state as scripted records"""

    def __init__(self, model):
        self.secrets = _Secrets()
        self.argon2 = _Argon2()
        os_ns = _NS(
            path=_NS(join=posixpath.join, dirname=posixpath.dirname, basename=posixpath.basename, abspath=posixpath.normpath,
                     realpath=posixpath.normpath, normpath=posixpath.normpath, splitext=posixpath.splitext),
            urandom=self.secrets.token_bytes, sep="/",
        )
        super().__init__(
            model,
            trusted_modules={
                "tornado": TORNADO, "secrets": self.secrets, "argon2": self.argon2, "hashlib": hashlib, "http": _NS(HTTPStatus=http.HTTPStatus), "logging": NullLog(), "os": os_ns,
                "hmac": _NS(compare_digest=hmac.compare_digest, digest=hmac.digest, new=hmac.new),
            },
            max_steps=10**9,
        )
        self.world: World | None = None
        self.visited: set = set()
        self.visited_in: dict = {}
        self.options = Rec("$options", web_password="", web_port=8081, web_host="127.0.0.1", web_debug=False, web_open_browser=False)
        self.overrides[(WA, "ctx")] = Rec("$ctx", options=self.options)
        self.overrides[(APP, "__file__")] = "/mitmweb/mitmproxy/tools/web/app.py"
        self.overrides[(WA, "__file__")] = "/mitmweb/mitmproxy/tools/web/webaddons.py"
        self._binds_cache: dict = {}

    # -- semantics hooks -------------------------------------------------------------------------
    def call_func(self, f, args, kwargs, depth):
        self.visited.add(f.node)
        self.visited_in[f.node] = f.mod.rel
        return super().call_func(f, args, kwargs, depth)

    def exc_isa(self, name, handler, mod):
        n = name
        while n in EXC_PARENT:
            if n == handler:
                return True
            n = EXC_PARENT[n]
        return super().exc_isa(n, handler, mod)

    def iterate(self, v, node):
        if isinstance(v, Rec) and v._cls == "$state":
            self._touch(v, "__iter__")
            return []
        return super().iterate(v, node)

    def binds(self, impl, attr) -> bool:
        k = (impl, attr)
        if k not in self._binds_cache:
            self._binds_cache[k] = any(attr in class_members(c, strict=False) for _, c in self.model.mro(*impl))
        return self._binds_cache[k]

    def _touch(self, base, attr):
        name = f"{base._name}.{attr}"
        if self.world is not None:
            self.world.events.append(("state", name))
        if attr == "__call__":
            return _native(lambda *a, **k: _state(name[:-9] + "()"))
        return _state(name)

    def getattr(self, base, attr, node, depth):
        if isinstance(base, Rec) and attr not in base.__dict__:
            kind = base._cls
            if kind == "$state":
                return self._touch(base, attr)
            if kind == "$app":
                return self._touch(base, attr)  # application.master & co: the proxy state
            if kind == "$master":
                return _state(f"master.{attr}")
            if kind in ("$handler", "$hclass") and not self.binds(base._impl, attr):
                if attr == "current_user" and kind == "$handler":
                    return self._current_user(base, depth)
                stubs = base.__dict__.get("_super_stubs", {})
                if attr in stubs:
                    return stubs[attr]
                raise AnalysisError(f"tornado handler member '{attr}' (used at {norm(node)[:60] if node is not None else '?'}) is not part of the modelled request world")
        return super().getattr(base, attr, node, depth)

    def _current_user(self, h, depth):
        """tornado.web.RequestHandler.current_user: get_current_user() once per request"""
        if "_current_user" not in h.__dict__:
            r = self.model.method(h._impl[0], h._impl[1], "get_current_user")
            v = None if r is None else self.apply(Func(r[0], r[1], bound=h), [], {}, depth)
            object.__setattr__(h, "_current_user", v)
        return h.__dict__["_current_user"]

    # -- scripted objects ------------------------------------------------------------------------
    def handler(self, q, world, settings):
        ev = world.events.append
        missing = object()

        def set_status(code, reason=None):
            ev(("status", code))

        def send_error(status_code=500, **kw):
            ev(("status", status_code))
            ev(("respond", "send_error"))

        def get_argument(name, default=missing, strip=True):
            if name in world.args:
                v = world.args[name]
                return v.strip() if strip and isinstance(v, str) else v
            if default is missing:
                raise Raised("MissingArgumentError", str(name))
            return default

        def get_arguments(name, strip=True):
            return [get_argument(name, strip=strip)] if name in world.args else []

        def get_signed_cookie(name, value=None, max_age_days=31, min_version=None):
            if value is not None:
                raise AnalysisError("get_signed_cookie(name, value=...) is not modelled")
            v = world.signed.get(name)
            return v.encode() if isinstance(v, str) else v

        def get_cookie(name, default=None):
            return _Forged() if world.forged else default

        def set_signed_cookie(name, value, expires_days=30, version=None, **kw):
            ev(("issue", name, value))

        def set_cookie(name, value, *a, **kw):
            ev(("set-cookie", name))

        def respond(kind):
            return _native(lambda *a, **k: ev(("respond", kind)))

        stubs = {
            "set_status": set_status, "send_error": send_error, "get_argument": get_argument, "get_query_argument": get_argument,
            "get_body_argument": get_argument, "get_arguments": get_arguments, "get_query_arguments": get_arguments,
            "get_body_arguments": get_arguments, "get_signed_cookie": get_signed_cookie, "get_secure_cookie": get_signed_cookie,
            "get_cookie": get_cookie, "set_signed_cookie": set_signed_cookie, "set_secure_cookie": set_signed_cookie, "set_cookie": set_cookie,
            "get_status": lambda: world.status() or 200,
        }
        for k, f in list(stubs.items()):
            stubs[k] = _native(f)
        for k in ("render", "render_string", "write", "finish", "flush", "set_header", "add_header", "clear_header", "redirect", "clear_cookie",
                  "clear_all_cookies", "clear", "xsrf_form_html", "set_default_headers", "initialize", "on_finish", "check_xsrf_cookie", "write_error"):
            stubs[k] = respond(k)
        stubs.update(xsrf_token=b"2|xsrf", path_args=(), path_kwargs={}, _finished=False, _headers_written=False, _unimplemented_method=_unimplemented)
        request = Rec(
            "$request", method=world.verb.upper(), path="/", uri="/", query="", body=b"", protocol="http", host="127.0.0.1:8081", remote_ip="127.0.0.1",
            headers=DictRec("$headers", world.headers, case_insensitive=True), cookies=_ForgedJar() if world.forged else {},
            arguments={k: [str(v).encode()] for k, v in world.args.items()}, files={},
        )
        object.__setattr__(request, "query_arguments", request.arguments)
        object.__setattr__(request, "full_url", _native(lambda: "http://127.0.0.1:8081/"))
        object.__setattr__(request, "version", "HTTP/1.1")
        object.__setattr__(request, "host_name", "127.0.0.1")
        object.__setattr__(request, "body_arguments", {})
        stubs["cookies"] = request.cookies
        app = Rec("$app", _name="application", settings=settings)
        return Rec("$handler", _impl=(APP, q), _name=f"<{q} request>", request=request, application=app, settings=settings, _super_stubs=stubs)

    def run(self, world, f, args):
        """call ``f`` in ``world``: ('return', value) | ('raise', name)"""
        self.world, self.steps = world, 0
        try:
            return ("return", self.apply(f, list(args), {}, 0))
        except Raised as r:
            return ("raise", r.name)
        finally:
            self.world = None


# ---------------------------------------------------------------------------------------------------
# application, route table, settings (by interpretation of Application.__init__)


RELEVANT_MEMBERS = set(VERBS) | set(TORNADO_AUTH_MEMBERS) | {"prepare", "SUPPORTED_METHODS", "__init_subclass__", "get_current_user", "auth_fail", "check_xsrf_cookie"}


def members(cls: ast.ClassDef) -> dict:
    """name -> node of the members bound directly in the class body.  Control flow in a class body (if TYPE_CHECKING: ...) is
    transparent as long as it binds none of the members the rules look at."""
    out = class_members(cls, strict=False)
    for st in cls.body:
        if isinstance(st, (ast.FunctionDef, ast.AsyncFunctionDef, ast.ClassDef, ast.Assign, ast.AnnAssign, ast.Expr, ast.Pass)):
            if isinstance(st, ast.Assign) and not all(isinstance(tt, ast.Name) for t in st.targets for tt in (t.elts if isinstance(t, (ast.Tuple, ast.List)) else [t])):
                raise AnalysisError(f"class {cls.name}: unmodelled class-body assignment {norm(st)}")
            continue
        bound = {n.id for n in ast.walk(st) if isinstance(n, ast.Name) and isinstance(n.ctx, (ast.Store, ast.Del))}
        bound |= {n.name for n in ast.walk(st) if isinstance(n, (ast.FunctionDef, ast.AsyncFunctionDef, ast.ClassDef))}
        bound |= {a.asname or a.name.split(".")[0] for n in ast.walk(st) if isinstance(n, (ast.Import, ast.ImportFrom)) for a in n.names}
        if bound & RELEVANT_MEMBERS:
            raise AnalysisError(f"class {cls.name}: {', '.join(sorted(bound & RELEVANT_MEMBERS))} bound under control flow in the class body (not modelled)")
    return out


def handler_classes(ctx):
    """qual -> ClassDef for every class of app.py that has a tornado *Handler among its ancestors."""
    m = ctx.model.module(APP)
    out = {}
    for q, d in m.defs().items():
        if not isinstance(d, ast.ClassDef):
            continue
        if d.keywords:
            raise AnalysisError(f"{APP}::{q} passes class keywords ({norm(d.keywords[0])}); class creation with keywords is not modelled")
        names = ctx.model.base_names(APP, q)
        ext = [n for n in names if n.startswith("tornado.")]
        if any(n.endswith("Handler") for n in ext):
            out[q] = d
        else:
            for n in ext:
                if n.rsplit(".", 1)[-1] not in NON_HANDLER_TORNADO:
                    raise AnalysisError(f"{APP}::{q} derives from {n}; not known whether this is a request handler")
    return out


class Addons:
    """master.addons for Application.__init__: get(<name>) is the webaddons class of that (lower-cased) name, registered once in master.py"""

    _pyint_accepts_abstract = True

    def __init__(self, ip, ctx):
        self.ip, self.ctx, self.made = ip, ctx, {}

    def get(self, name):
        if name in self.made:
            return self.made[name]
        model = self.ctx.model
        wm, mt = model.module(WA), model.module(MASTER)
        cands = [d for q, d in wm.defs().items() if isinstance(d, ast.ClassDef) and q.lower() == name]
        self.ctx.require(len(cands) == 1, f"{WA}: no (unique) class whose lower-cased name is {name!r} (addons.get in Application.__init__)")
        d = cands[0]
        self.ctx.require("name" not in class_members(d, strict=False), f"{d.name} defines a custom addon name")
        added = []
        for c in walk_in_order(mt.tree):
            if isinstance(c, ast.Call):
                r = model.resolve_name(mt, c.func)
                if r is not None and r[1] is d:
                    added.append(c)
        self.ctx.require(len(added) == 1, f"{MASTER}: the web master does not register {WA}::{d.name}() exactly once")
        rec = self.ip.instantiate(ClassRef(wm, d), [], {}, 0, "master.addons.get")
        self.made[name] = rec
        return rec


class AppModel:
    def __init__(self, ip, q, node, routes, settings, transforms):
        self.ip, self.q, self.node, self.routes, self.settings, self.transforms = ip, q, node, routes, settings, transforms


def application_class(ctx):
    m = ctx.model.module(APP)
    apps = [q for q, d in m.defs().items() if isinstance(d, ast.ClassDef) and any(n.startswith("tornado.") and n.endswith(".Application") for n in ctx.model.base_names(APP, q))]
    ctx.require(len(apps) == 1, f"{APP}: expected exactly one tornado Application subclass, found {apps}")
    return apps[0], m.get(apps[0])


def build_app(ctx, ip) -> AppModel:
    """Interpret <Application>.__init__ the way master.py calls it; the arguments of the tornado base constructor are the model."""
    model = ctx.model
    q, node = application_class(ctx)
    mt = model.module(MASTER)
    made = [c for c in walk_in_order(mt.tree) if isinstance(c, ast.Call) and (model.resolve_name(mt, c.func) or (None, None))[1] is node]
    ctx.require(len(made) == 1, f"{MASTER}: the web master no longer builds exactly one {q}")
    master = Rec("$master", addons=Addons(ip, ctx), options=ip.options)

    def arg(a):
        return master if isinstance(a, ast.Name) and a.id == "self" else False  # (master, debug flag)

    ctx.require(not any(isinstance(a, ast.Starred) for a in made[0].args) and all(k.arg for k in made[0].keywords), f"{MASTER}: {norm(made[0])} uses * / ** arguments (not modelled)")
    args = [arg(a) for a in made[0].args]
    kwargs = {k.arg: arg(k.value) for k in made[0].keywords}
    captured: dict = {}
    app = Rec(q, _impl=(APP, q))

    @_native
    def tornado_init(handlers=None, default_host=None, transforms=None, **settings):
        if captured:
            raise AnalysisError(f"{q}.__init__ calls the tornado constructor twice (not modelled)")
        captured.update(handlers=handlers, transforms=transforms, settings=settings)
        object.__setattr__(app, "settings", settings)

    @_native
    def refuse(*a, **k):
        raise AnalysisError(f"{q}.__init__ registers handlers outside the route table (add_handlers / add_transform; not modelled)")

    object.__setattr__(app, "_super_stubs", {"__init__": tornado_init, "add_handlers": refuse, "add_transform": refuse})
    ctx.functions.add(f"{APP}::{q}.__init__")
    ip.steps = 0
    try:
        ip.method(app, "__init__", *args, **kwargs)
    except Raised as r:
        raise AnalysisError(f"{q}.__init__ raises {r.name} in the modelled start-up ({r.msg})")
    ctx.require(captured, f"{q}.__init__ never reaches the tornado Application constructor")
    routes = []
    table = captured["handlers"]
    ctx.require(isinstance(table, (list, tuple)) and table, f"{q}: the handlers argument is not a non-empty route list")
    for row in table:
        ok = isinstance(row, (tuple, list)) and len(row) >= 2 and isinstance(row[0], str) and isinstance(row[1], ClassRef) and row[1].mod.rel == APP
        ctx.require(ok, f"{q}: route table row of unmodelled shape: {row!r}")
        routes.append((row[0], getattr(row[1].node, "_qual", row[1].node.name)))
    for kw in ("default_handler_class", "static_handler_class"):
        ctx.require(kw not in captured["settings"], f"{q} passes {kw}= (an extra handler outside the route table; not modelled)")
    am = AppModel(ip, q, node, routes, captured["settings"], captured["transforms"])
    am.constructed_by = set(ip.visited)  # functions whose effect on the settings / route table was interpreted
    return am


def check_registration(ctx, am):
    """the interpreted application is the one that is served, and the route table is the only registration"""
    model = ctx.model
    m, mt = model.module(APP), model.module(MASTER)
    srv = [c for c in walk_in_order(mt.tree) if isinstance(c, ast.Call) and last_attr(c.func) == "HTTPServer"]
    ctx.require(len(srv) == 1 and srv[0].args and attr_chain(srv[0].args[0]).startswith("self."), f"{MASTER}: the web master no longer serves one HTTPServer(self.<app>)")
    served = attr_chain(srv[0].args[0])
    stores = [st for st, t in attribute_stores(mt.tree, {served.split(".", 1)[1]}) if attr_chain(t) == served]
    ok = len(stores) == 1 and isinstance(stores[0], ast.Assign) and isinstance(stores[0].value, ast.Call) and (model.resolve_name(mt, stores[0].value.func) or (None, None))[1] is am.node
    ctx.require(ok, f"{MASTER}: {served} is not bound exactly once to {am.q}(...)")
    pat = re.compile(r"add_handlers|RequestHandler|WebSocketHandler|wildcard_router|RuleRouter")
    for p in sorted((model.repo / "mitmproxy").rglob("*.py")):
        rel = p.relative_to(model.repo).as_posix()
        if rel == APP or rel.startswith("mitmproxy/contrib/"):
            continue
        src = model.source(rel)
        if "tornado" in src and pat.search(src):
            raise AnalysisError(f"{rel} mentions tornado handlers / add_handlers: a second handler registration is not modelled")
    for c in walk_in_order(m.tree):
        if isinstance(c, ast.Call) and last_attr(c.func) in ("add_handlers", "add_transform", "wildcard_router"):
            raise AnalysisError(f"{APP}: {norm(c)} registers handlers outside the route table (not modelled)")
    # module-level names the application class reads (the route table, constants) are never mutated in place
    feeds = {n.id for n in walk_in_order(am.node) if isinstance(n, ast.Name) and isinstance(n.ctx, ast.Load) and m.assigns(n.id)}
    grew = True
    while grew:
        more = {n.id for f in feeds for v in m.assigns(f) for n in walk_in_order(v) if isinstance(n, ast.Name) and m.assigns(n.id)} - feeds
        feeds |= more
        grew = bool(more)
    for rel, prefixes in ((APP, ("",)), (MASTER, ("app.",))):
        for n in walk_in_order(model.module(rel).tree):
            tgt = None
            if isinstance(n, ast.Call) and isinstance(n.func, ast.Attribute) and n.func.attr in LIST_MUTATORS:
                tgt = n.func.value
            elif isinstance(n, ast.Subscript) and isinstance(n.ctx, (ast.Store, ast.Del)):
                tgt = n.value
            elif isinstance(n, ast.AugAssign):
                tgt = n.target
            name = attr_chain(tgt) if tgt is not None else ""
            if name and any(name == p + f for p in prefixes for f in feeds):
                raise AnalysisError(f"{rel}: {norm(n)[:80]} mutates {name}, which feeds the application's route table / settings (not modelled)")


# ---------------------------------------------------------------------------------------------------
# password configurations (R46.2, the settings predicate)

GOOD, OLD, WRONG = "correct horse battery", "last year's password", "wrong-password"


class Scenario:
    """a fresh application whose auth addon went through the given web_password (re)configurations (None: never configured)"""

    def __init__(self, ctx, steps, label):
        self.ctx, self.label, self.steps = ctx, label, steps
        self.ip = ip = WebInterp(ctx.model)
        self.hashes = {pw: ip.argon2.make(pw) for pw in (GOOD, OLD)}
        self.app = build_app(ctx, ip)
        self.pred = self.app.settings.get("is_valid_password")
        ctx.require(self.pred is not None, f"{self.app.q} no longer hands is_valid_password to the handlers")
        self._good = self._unset = object()
        self.revoked = []
        value = None
        for i, (kind, pw) in enumerate(steps):
            value = None if kind is None else {"unset": "", "plain": pw, "argon2": self.hashes.get(pw)}[kind]
            if kind is not None:
                self.configure(value)
            if i < len(steps) - 1:
                # life under an earlier configuration: a successful and a failed validation (fills whatever the predicate
                # remembers between requests); nothing is validated yet under the last configuration (see check_predicate)
                good = self.find_good(kind, pw)
                if good is not None:
                    self.accepts(good)
                    self.revoked.append(good)
                self.accepts(WRONG)
        self.configured = value

    @property
    def good(self):
        """the secret the last configuration accepts (None: nothing is accepted); found lazily, because looking for a random token validates it"""
        if self._good is self._unset:
            self._good = self.find_good(*self.steps[-1])
        return self._good

    def configure(self, value):
        ip = self.ip
        addon = self.pred.bound if isinstance(self.pred, Func) else None
        self.ctx.require(isinstance(addon, Rec) and addon._impl is not None and addon._impl[0] == WA,
                         f"{self.app.q}: is_valid_password is not a method of a webaddons addon; its (re)configuration is not modelled")
        object.__setattr__(ip.options, "web_password", value)
        ip.steps = 0
        try:
            ip.method(addon, "configure", {"web_password"})
        except Raised as r:
            raise AnalysisError(f"{addon._cls}.configure raises {r.name} for web_password={value!r} ({self.label})")

    def accepts(self, candidate) -> bool:
        ip = self.ip
        ip.steps = 0
        try:
            return ip.truthy(ip.apply(self.pred, [candidate], {}, 0))
        except Raised:
            return False

    def find_good(self, kind, pw):
        if kind in ("plain", "argon2"):
            return pw
        for t in reversed(self.ip.secrets.tokens):
            if self.accepts(t):
                return t
        return None


SCENARIOS = (
    ("never configured (start-up token)", ((None, None),)),
    ("web_password unset (random token)", (("unset", None),)),
    ("plaintext web_password", (("plain", GOOD),)),
    ("argon2 web_password", (("argon2", GOOD),)),
    ("plaintext web_password changed", (("plain", OLD), ("plain", GOOD))),
    ("argon2 web_password changed", (("argon2", OLD), ("argon2", GOOD))),
    ("argon2 web_password replaced by plaintext", (("argon2", OLD), ("plain", GOOD))),
    ("plaintext web_password removed", (("plain", OLD), ("unset", None))),
)


def predicate_site(sc):
    """(file, qual, node) of the predicate's source for findings"""
    p = sc.pred
    if isinstance(p, Func):
        return p.mod.rel, qual_of(p.node) if not isinstance(p.node, ast.Lambda) else qual_of(p.node) + ".<lambda>", p.node
    return APP, f"{sc.app.q}.__init__", sc.app.node


def check_predicate(ctx, scenarios):
    """decision table of settings['is_valid_password'] over configurations x candidate passwords"""
    for sc in scenarios:
        where = predicate_site(sc)
        # first the candidates that do not depend on the secret, before anything was validated under the last configuration
        # (a predicate that remembers earlier verdicts must not keep accepting a revoked password until the next login)
        cands = [("a revoked password", old) for old in sc.revoked] + [("the empty string", ""), ("a wrong password", WRONG), ("a blank", " ")]
        if isinstance(sc.configured, str) and sc.configured.startswith("$"):
            cands.append(("the configured argon2 hash itself", sc.configured))
            cands.append(("an argon2 hash of the configured hash", sc.ip.argon2.make(sc.configured)))
        bad = [what for what, cand in cands if sc.accepts(cand)]
        good = sc.good if sc.good is not None else "no password is accepted"
        live = sc.good is not None and sc.accepts(sc.good)
        more = [("a truncated password", good[:-1]), ("an extended password", good + "x"), ("the password in another case", good.swapcase())]
        more += [("a revoked password", old) for old in sc.revoked]  # ... and again after a login with the new one
        bad += [what for what, cand in more if cand != sc.good and what not in bad and sc.accepts(cand)]
        ctx.cells += len(cands) + len(more) + 1
        for what in bad:
            ctx.fail("R46.2", where, f"is_valid_password accepts {what} ({sc.label})",
                     f"the password predicate handed to the handlers answers True for {what} under '{sc.label}': a request without the configured secret is authenticated",
                     scenario=sc.label, steps=[list(map(str, s)) for s in sc.steps])
        if not bad:
            ctx.require(live, f"{where[1]} accepts no password at all under '{sc.label}' (model broken, or nobody can log in)")
            ctx.ok("R46.2", f"{where[1]} [{sc.label}]: truthy for the configured secret only ({len(cands) + len(more)} other candidates refused)")


def check_cookie_secret(ctx, sc):
    am = sc.app
    where = (APP, f"{am.q}.__init__", ctx.model.method(APP, am.q, "__init__")[1])
    ctx.require("cookie_secret" in am.settings, f"{am.q} no longer passes cookie_secret")
    sec = am.settings["cookie_secret"]
    if not isinstance(sec, (bytes, str)):
        raise AnalysisError(f"{am.q}: cookie_secret of unmodelled type {type(sec).__name__}")
    if not sc.ip.secrets.is_random(sec):
        ctx.fail("R46.2", where, "cookie_secret is not random", "the cookie signing secret is computed from source constants / options: session cookies can be forged")
    else:
        ctx.check(len(sec) >= 16, "R46.2", where, f"cookie_secret has {len(sec)} random bytes", "cookie signing secret shorter than 128 bit",
                  desc=f"cookie_secret: {len(sec)} bytes from a random source")


# ---------------------------------------------------------------------------------------------------
# hooks and wrappers (R46.1 / R46.2)


class Verb:
    """the original verb of a handler class: calling it is what must not happen without credentials"""

    _pyint_accepts_abstract = True

    def __init__(self, ip, q, verb):
        self.ip, self.q, self.verb = ip, q, verb
        self.__name__ = verb

    def __call__(self, *a, **k):
        if self.ip.world is not None:
            self.ip.world.events.append(("fn", self.verb))
        return None


def hook_of(ctx, q):
    """what class creation runs for ``q``: the first __init_subclass__ of a *proper* ancestor"""
    for m, c in ctx.model.mro(APP, q)[1:]:
        for st in c.body:
            if isinstance(st, (ast.FunctionDef, ast.AsyncFunctionDef)) and st.name == "__init_subclass__":
                return m, c, st
    return None


def implemented_verbs(ctx, q):
    """verbs bound by a repository class along the MRO; every verb when a tornado base other than web.RequestHandler may bring its own"""
    names = ctx.model.base_names(APP, q)
    if any(n.startswith("tornado.") and n != "tornado.web.RequestHandler" for n in names):
        return list(VERBS), True
    out = []
    for _, c in ctx.model.mro(APP, q):
        mem = members(c)
        if "SUPPORTED_METHODS" in mem:
            raise AnalysisError(f"{APP}::{c.name} redefines SUPPORTED_METHODS (not modelled)")
        out += [v for v in VERBS if v in mem and v not in out]
    return out, False


def create_class(ctx, ip, q, verbs):
    """run the hook for a scripted class object of ``q``; returns (class record, {verb: original marker})"""
    hook = hook_of(ctx, q)
    marks = {v: Verb(ip, q, v) for v in verbs}
    attrs = {v: marks.get(v, _unimplemented) for v in VERBS}
    cls = Rec("$hclass", _impl=(APP, q), _name=q, SUPPORTED_METHODS=METHODS, _super_stubs={"__init_subclass__": _native(lambda **k: None), "_unimplemented_method": _unimplemented}, **attrs)
    object.__setattr__(cls, "__name__", q)
    object.__setattr__(cls, "__qualname__", q)
    if hook is None:
        return cls, marks, None
    m, c, fn = hook
    ctx.functions.add(f"{APP}::{c.name}.__init_subclass__")
    if fn.decorator_list and [norm(d) for d in fn.decorator_list] != ["classmethod"]:
        raise AnalysisError(f"{c.name}.__init_subclass__ is decorated (not modelled)")
    ip.steps = 0
    try:
        ip.apply(Func(m, fn, bound=cls), [], {}, 0)
    except Raised as r:
        raise AnalysisError(f"{c.name}.__init_subclass__ raises {r.name} for class {q} in the modelled class creation")
    return cls, marks, hook


def plain_functions_only(fn_node):
    """pyint binds nested functions without running their decorators: only decorators that keep the function are accepted"""
    for n in ast.walk(fn_node):
        if isinstance(n, (ast.FunctionDef, ast.AsyncFunctionDef)) and n is not fn_node:
            for d in n.decorator_list:
                if not (isinstance(d, ast.Call) and last_attr(d.func) == "wraps"):
                    raise AnalysisError(f"{qual_of(fn_node)}: nested function {n.name} is decorated with {norm(d)} (not modelled)")


def judge(world, outcome):
    """reference for a request that carries no valid credential: [] or the list of broken clauses"""
    out = []
    if world.has("fn"):
        out.append("reached")
    if world.has("issue"):
        out.append("cookie")
    st = world.has("state")
    if st:
        out.append("state")
    if outcome[0] != "raise" and world.status() != 403 and not world.has("fn"):
        out.append("status")
    return out


REASONS = {
    "reached": ("the {verb} handler runs without valid credentials", "the verb is reached although the request carries neither a valid session cookie nor the configured password / token"),
    "cookie": ("a session cookie is issued without valid credentials", "the refused request is handed a signed session cookie: the next request is authenticated"),
    "state": ("proxy state is touched without valid credentials", "the refusal path reads or changes application state ({what}): it is disclosed to / changed by unauthenticated clients"),
    "status": ("a request without valid credentials is not answered with 403", "the refusal path ends without set_status(403) (status {status})"),
}


def attack_worlds(verb, good, session, full):
    """request worlds; ``valid`` marks those that carry a credential the reference accepts"""
    good = good if good is not None else "\x00no password is accepted"
    if full:
        headers = [None, "", "Bearer", "Bearer ", f"Bearer {WRONG}", f"Bearer {good}", f"Basic {good}", f"bearer {good}", WRONG, good]
        tokens = [None, "", " ", WRONG, good]
        jars = ["none", "session", "forged"]
    else:
        headers = [None, f"Bearer {WRONG}", f"Bearer {good}"]
        tokens = [None, WRONG, good]
        jars = ["none", "session", "forged"]
    out = []
    for jar in jars:
        for h in headers:
            for t in tokens:
                if not full and sum(x is not None for x in (h, t)) + (jar != "none") > 1:
                    continue
                valid = jar == "session" or (h is not None and good in h) or (t is not None and good in t)
                label = f"{verb.upper()} Authorization={h!r} token={t!r} cookies={jar}"
                w = World(verb, header=h, token=t, signed=session if jar == "session" else None, forged=jar == "forged", valid=valid, label=label)
                if jar == "session" and session is None:
                    w.signed = None
                out.append(w)
    return out


def login(sc, installed, q, verb):
    """a valid token logs in: the verb runs and a session cookie is issued (positive control).
    Returns (signed cookie jar of later requests | None, what is wrong with the control | None)."""
    ip = sc.ip
    w = World(verb, token=sc.good, valid=True)
    out = ip.run(w, installed, [ip.handler(q, w, sc.app.settings)])
    if not (w.has("fn") and out[0] == "return"):
        return None, f"a request with the valid token does not reach the verb ({out[0]} {out[1]!r})"
    issued = w.has("issue")
    if len(issued) != 1:
        return None, f"a successful login issues {len(issued)} signed cookies (exactly one session cookie is modelled)"
    return {issued[0][1]: issued[0][2]}, None


def run_worlds(ctx, sc, installed, q, verb, full, rule_for, where, seen, skip=(), generic=False):
    """call the installed attribute in every world; findings for the credential-less ones, controls for the others.
    Returns (number of worlds, kinds of broken clauses)."""
    ip = sc.ip
    session, problem = login(sc, installed, q, verb)
    ok_by = {"session": 0, "header": 0, "token": 0}
    n = 0
    kinds: set = set()
    for w in attack_worlds(verb, sc.good, session, full):
        if w.signed is None:
            continue  # no session cookie to present (the login control failed: reported below unless a clause is broken)
        out = ip.run(w, installed, [ip.handler(q, w, sc.app.settings)])
        n += 1
        if w.valid:
            if w.has("fn"):
                if w.signed:
                    ok_by["session"] += 1
                if w.headers.get("Authorization") == f"Bearer {sc.good}":
                    ok_by["header"] += 1
                if w.args.get("token") == sc.good:
                    ok_by["token"] += 1
            continue
        for kind in judge(w, out):
            kinds.add(kind)
            construct, reason = REASONS[kind]
            rule = rule_for(kind)
            key = (rule, where[1], kind, "" if generic else verb)
            if key in seen or kind in skip:
                continue
            seen.add(key)
            what = ", ".join(sorted({e[1] for e in w.has("state")}))[:120]
            ctx.fail(rule, where, construct.format(verb="wrapped" if generic else verb),
                     reason.format(what=what, status=w.status()) + f" [{w.label}; {sc.label}]", world=w.label, scenario=sc.label, events=[list(map(str, e)) for e in w.events])
    ctx.paths += n
    if not kinds:
        missing = [k for k, v in ok_by.items() if not v]
        ctx.require(problem is None, f"{q}.{verb}: {problem} ({sc.label}; model broken or the UI is locked out)")
        ctx.require(not missing, f"{q}.{verb}: valid credentials in {'/'.join(missing)} form never reach the verb ({sc.label}; model broken or the UI is locked out)")
    return n, kinds


def check_wrapping(ctx, classes, routed, base_scenarios, sc0):
    """R46.2 (full world matrix on the wrapper each hook installs) and R46.1 (every class: its hook, its verbs, its own
    get_current_user / auth_fail, reduced worlds).  Returns the function nodes that were interpreted."""
    ip = sc0.ip
    routed_classes = {t for _, t in routed}
    hooks = {}
    seen: set = set()
    # -- R46.2: the wrapper every hook installs, on a class created under that hook, all verbs implemented
    definers = []
    for q in classes:
        h = hook_of(ctx, q)
        if h is not None and all(h[2] is not fn for _, _, fn, _ in definers):
            definers.append((*h, q))
    ctx.require(definers, f"{APP}: no handler class has an ancestor defining __init_subclass__ (nothing wraps the verbs)")
    n_runs = 0
    broken: dict = {}  # wrapper node -> kinds of clauses the full matrix found broken (not repeated per class)
    k0 = len(ctx.findings)
    for m, c, fn, sub in definers:
        dq = getattr(c, "_qual", c.name)
        ctx.require(m.rel == APP, f"__init_subclass__ hook outside {APP} (not modelled)")
        for sc in base_scenarios:
            cls, marks, _ = create_class(ctx, sc.ip, sub, list(VERBS))
            for i, verb in enumerate(VERBS):
                inst = cls.__dict__[verb]
                if not isinstance(inst, Func):
                    if (dq, verb) not in seen:
                        seen.add((dq, verb))
                        ctx.fail("R46.1", (APP, f"{dq}.__init_subclass__", fn), f"implemented verb {verb} is not replaced by an authenticating wrapper",
                                 f"after {dq}.__init_subclass__ the class attribute {verb} is still {'the raw verb' if inst is marks[verb] else repr(inst)}: it is served without authentication")
                    continue
                wnode = inst.node
                outer = wnode
                while getattr(outer, "_parent", None) is not None and not isinstance(outer._parent, (ast.ClassDef, ast.Module)):
                    outer = outer._parent
                if isinstance(outer, (ast.FunctionDef, ast.AsyncFunctionDef)):
                    plain_functions_only(outer)
                ctx.functions.add(f"{inst.mod.rel}::{qual_of(wnode)}")
                full = i == 0 or (i == 2 and sc is sc0)
                n, kinds = run_worlds(ctx, sc, inst, sub, verb, full, lambda kind: "R46.2", (inst.mod.rel, qual_of(wnode), wnode), seen, generic=True)
                n_runs += n
                broken.setdefault(wnode, set()).update(kinds)
    if len(ctx.findings) == k0:
        ctx.ok("R46.2", f"installed wrapper: {n_runs} request worlds ({len(base_scenarios)} password configurations x Authorization headers x token arguments x "
                        "cookie jars x 7 verbs): verb only with a valid credential, otherwise 403 / no cookie / no proxy state")
    # -- R46.1: every class, its own hook, its own verbs / get_current_user / auth_fail
    for q, d in classes.items():
        verbs, ext = implemented_verbs(ctx, q)
        cls, marks, hook = create_class(ctx, ip, q, verbs)
        if hook is None:
            if verbs and (q in routed_classes or not ext or any(v in members(d) for v in VERBS)):
                ctx.fail("R46.1", (APP, q, d), f"class {q}({', '.join(norm(b) for b in d.bases)})",
                         f"tornado handler class {q} implements {'/'.join(verbs) if not ext else 'HTTP verbs'} but no ancestor defines an __init_subclass__ hook: "
                         "its verbs are served without authentication")
            else:
                ctx.ok("R46.1", f"class {q}: no hook needed (implements no verb, not routed)")
            continue
        hooks[q] = hook
        bad = False
        for verb in verbs:
            inst = cls.__dict__[verb]
            if not isinstance(inst, Func):
                bad = True
                ctx.fail("R46.1", (APP, q, d), f"{q}.{verb} is not replaced by an authenticating wrapper",
                         f"after class creation {q}.{verb} is still {'the raw verb' if inst is marks[verb] else repr(inst)}: it is served without authentication")
                continue
            n, kinds = run_worlds(ctx, sc0, inst, q, verb, False, lambda kind: "R46.1" if kind == "reached" else "R46.2", (APP, q, d), seen, skip=broken.get(inst.node, ()))
            bad = bad or bool(kinds)
        if not bad:
            ctx.ok("R46.1", f"class {q}: {'/'.join(verbs) if not ext else 'every verb (a tornado base may implement any)'} wrapped by {hook[1].name}.__init_subclass__ "
                            "and refused without credentials")
    for pattern, target in routed:
        ctx.check(target in hooks, "R46.1", (APP, target, classes.get(target) or ctx.model.cls(APP, target)), f"route {pattern} -> {target}",
                  f"routed handler {target} has no ancestor whose __init_subclass__ wraps its HTTP verbs with the authentication check",
                  desc=f"route {pattern} -> {target} (hook {hooks[target][1].name}.__init_subclass__)" if target in hooks else "")
    interpreted: set = set()
    for sc in base_scenarios:
        interpreted |= sc.ip.visited
        for n, rel in sc.ip.visited_in.items():
            if isinstance(n, (ast.FunctionDef, ast.AsyncFunctionDef)):
                ctx.functions.add(f"{rel}::{qual_of(n)}")
    for n in interpreted:
        for dec in getattr(n, "decorator_list", []):
            t = norm(dec)
            if not (t in ("staticmethod", "classmethod", "property", "override", "typing.override", "abstractmethod", "abc.abstractmethod") or t.endswith(".setter")
                    or (isinstance(dec, ast.Call) and last_attr(dec.func) == "wraps")):
                raise AnalysisError(f"{qual_of(n)} is decorated with {t}: the interpreter does not apply decorators (not modelled)")
    return interpreted


def check_tornado_members(ctx, classes):
    for q, d in classes.items():
        mem = members(d)
        for name in TORNADO_AUTH_MEMBERS:
            if name in mem:
                ctx.fail("R46.1", (APP, q, mem[name]), f"{q}.{name} overrides the authentication machinery",
                         f"class {q} defines {name}: tornado's current_user / dispatch contract the wrapper relies on is replaced")
    ctx.ok("R46.1", f"no handler class defines any of {', '.join(TORNADO_AUTH_MEMBERS)}")
    ctx.trust("tornado.web.RequestHandler / tornado.websocket.WebSocketHandler define no __init_subclass__, and only the default get_current_user (None)")


def check_no_late_rebinding(ctx, classes, interpreted):
    """no verb / auth member is re-bound after class creation, except by the functions the hooks were seen to run"""
    names = set(classes)
    private = {n.name for n in interpreted if isinstance(n, (ast.FunctionDef, ast.AsyncFunctionDef)) and n.name.startswith("_") and isinstance(getattr(n, "_parent", None), ast.ClassDef)}
    watched = set(VERBS) | set(TORNADO_AUTH_MEMBERS) | private | {"__init_subclass__", "get_current_user", "auth_fail", "check_xsrf_cookie", "prepare", "SUPPORTED_METHODS"}

    def inside_interpreted(node):
        p = node
        while p is not None:
            if p in interpreted:
                return True
            p = getattr(p, "_parent", None)
        return False

    for rel in (APP, MASTER, WA):
        tree = ctx.model.module(rel).tree
        for stmt, t in attribute_stores(tree, watched):
            root = attr_chain(t.value)
            tail = root.rsplit(".", 1)[-1]
            if tail in names or root in ("self", "cls") and rel == APP:
                ctx.fail("R46.1", (rel, "<module>", stmt), f"{norm(t)} = ...",
                         f"{norm(t)} is (re)bound after class creation, bypassing the wrapper installed by __init_subclass__")
        for c in walk_in_order(tree):
            if not (isinstance(c, ast.Call) and call_name(c) == "setattr" and len(c.args) >= 2):
                continue
            if rel == APP and inside_interpreted(c):
                continue  # decided by interpretation (check_wrapping)
            root = attr_chain(c.args[0])
            tail = root.rsplit(".", 1)[-1] if root else ""
            if tail in names or root in ("self", "cls") or isinstance(c.args[0], ast.Call):
                key = c.args[1].value if isinstance(c.args[1], ast.Constant) else None
                if key is None or key in watched:
                    ctx.fail("R46.1", (rel, "<module>", c), norm(c), "setattr on a handler class / instance can replace a wrapped verb or the authentication machinery")
    ctx.ok("R46.1", "no verb / auth member of a handler class is re-bound after class creation (app.py, master.py, webaddons.py)")
    for rel in (APP, MASTER):
        for st, t in attribute_stores(ctx.model.module(rel).tree, {"_password", "_hasher"}):
            raise AnalysisError(f"{rel}: writes {norm(t)} (state of the auth addon written from outside; not modelled)")


# ---------------------------------------------------------------------------------------------------
# R46.3


def check_xsrf_setting(ctx, classes, am):
    where = (APP, f"{am.q}.__init__", ctx.model.method(APP, am.q, "__init__")[1])
    x = am.settings.get("xsrf_cookies")
    ctx.check(x is True, "R46.3", where, f"xsrf_cookies={x!r}" if "xsrf_cookies" in am.settings else "xsrf_cookies=<absent>",
              "tornado's XSRF token check is off: state-changing requests are accepted without a token", desc="Application(xsrf_cookies=True)")
    for q, d in classes.items():
        mem = members(d)
        if "check_xsrf_cookie" in mem:
            ctx.fail("R46.3", (APP, q, mem["check_xsrf_cookie"]), f"{q}.check_xsrf_cookie overridden", "the XSRF token check of this handler is replaced")
    ctx.ok("R46.3", f"none of the {len(classes)} handler classes overrides check_xsrf_cookie")
    def interpreted(node):
        p = node
        while p is not None:
            if p in am.constructed_by:
                return True
            p = getattr(p, "_parent", None)
        return False

    for rel in (APP, MASTER, WA):
        for n in walk_in_order(ctx.model.module(rel).tree):
            if isinstance(n, (ast.Assign, ast.Call)) and interpreted(n):
                continue  # part of the interpreted construction: its effect is in the settings that were checked
            if isinstance(n, ast.Assign):
                for t in [t for t in n.targets if isinstance(t, ast.Subscript) and attr_chain(t.value).endswith("settings")]:
                    key = t.slice.value if isinstance(t.slice, ast.Constant) else None
                    if key is None or key in SENSITIVE_SETTINGS:
                        ctx.fail("R46.3", (rel, qual_of(n), n), norm(n), "an application setting the authentication / XSRF machinery depends on is rewritten after construction")
                for t in n.targets:
                    if isinstance(t, ast.Attribute) and t.attr == "settings":
                        raise AnalysisError(f"{rel}: {norm(n)} replaces the settings dict (not modelled)")
            elif isinstance(n, ast.Call) and isinstance(n.func, ast.Attribute) and n.func.attr in ("update", "pop", "clear", "setdefault", "__setitem__") and attr_chain(n.func.value).endswith(".settings"):
                raise AnalysisError(f"{rel}: {norm(n)} mutates the application settings (not modelled)")


def check_gate(ctx, routed, sc):
    """prepare(), as resolved for each routed class with a non-safe verb, refuses non-safe methods marked same-site / cross-site"""
    ip = sc.ip
    verdicts: dict = {}  # prepare node -> list of accepted (method, site) cells

    def table(q, node_key, fn):
        if node_key in verdicts:
            return verdicts[node_key]
        bad = []
        for verb in UNSAFE:
            for site in ("cross-site", "same-site"):
                w = World(verb, site=site)
                out = ip.run(w, fn, [ip.handler(q, w, sc.app.settings)])
                ctx.cells += 1
                if out[0] != "raise":
                    bad.append((verb.upper(), site))
        w = World("post", site="same-origin")
        out = ip.run(w, fn, [ip.handler(q, w, sc.app.settings)])
        ctx.cells += 1
        ctx.require(out[0] == "return", f"{qual_of(node_key)}: a same-origin POST does not pass ({out}; model broken or the UI is locked out)")
        verdicts[node_key] = bad
        return bad

    for pattern, target in routed:
        verbs, ext = implemented_verbs(ctx, target)
        verbs = sorted(v for v in verbs if v in UNSAFE) if not ext else sorted({v for _, c in ctx.model.mro(APP, target) for v in UNSAFE if v in members(c)})
        if not verbs:
            ctx.ok("R46.3", f"route {pattern} -> {target}: no non-safe verb implemented in the repository classes")
            continue
        d = ctx.model.cls(APP, target)
        r = ctx.model.method(APP, target, "prepare")
        if r is None:
            ctx.fail("R46.3", (APP, target, d), f"{target} implements {'/'.join(verbs)} but prepare resolves to tornado",
                     f"no Sec-Fetch-Site gate runs for the state-changing verbs of {target}")
            continue
        m, fn = r
        ctx.functions.add(f"{m.rel}::{qual_of(fn)}")
        if fn.decorator_list:
            raise AnalysisError(f"{qual_of(fn)} is decorated (not modelled)")
        bad = table(target, fn, Func(m, fn))
        if bad:
            for method, site in bad:
                ctx.fail("R46.3", (m.rel, qual_of(fn), fn), f"prepare accepts {method} with Sec-Fetch-Site: {site}",
                         f"a state-changing request the browser marks as not same-origin passes the Sec-Fetch-Site gate ({qual_of(fn)}, which guards {target})")
        else:
            ctx.ok("R46.3", f"route {pattern} -> {target}: {'/'.join(verbs)} behind {qual_of(fn)}, which raises for POST/PUT/DELETE/PATCH x (cross-site, same-site)")


# ---------------------------------------------------------------------------------------------------


def check(ctx):
    ctx.rule("R46.1", "every routed / tornado-derived handler class with a verb is created under an ancestor's __init_subclass__ hook that replaces every "
             "implemented verb with an authenticating wrapper (decided by interpreting the hook per class); nothing overrides or rebinds that machinery")
    ctx.rule("R46.2", "the installed wrapper reaches the verb only with a valid signed session cookie or a password accepted by the settings predicate and "
             "otherwise answers 403 without cookie / proxy state (request-world matrix); the predicate is truthy only for the configured, never-empty secret")
    ctx.rule("R46.3", "xsrf_cookies=True, check_xsrf_cookie never overridden, prepare() of every handler with a non-safe verb rejects non-safe methods marked "
             "same-site / cross-site")
    classes = handler_classes(ctx)
    scenarios = [Scenario(ctx, SCENARIOS[0][1], SCENARIOS[0][0])]  # (no configure call: needs nothing but the application)
    for label, steps in SCENARIOS[1:]:
        sc = ctx.guard(Scenario, ctx, steps, label)
        if sc is not None:
            scenarios.append(sc)
    base = [sc for sc in scenarios if len(sc.steps) == 1]
    sc0 = base[1] if len(base) > 1 else base[0]  # the default deployment: web_password unset
    am = sc0.app
    routed = am.routes
    for sc in scenarios:
        ctx.require(sc.app.routes == routed, "the route table depends on the password configuration (not modelled)")
    ctx.guard(check_registration, ctx, am)
    ctx.guard(check_tornado_members, ctx, classes)
    ctx.guard(check_predicate, ctx, scenarios)
    ctx.guard(check_cookie_secret, ctx, sc0)
    interpreted = ctx.guard(check_wrapping, ctx, classes, routed, base, sc0)
    if interpreted is not None:
        ctx.guard(check_no_late_rebinding, ctx, classes, interpreted)
    ctx.guard(check_xsrf_setting, ctx, classes, am)
    ctx.guard(check_gate, ctx, routed, sc0)
    ctx.note(f"{len(routed)} routes, {len(classes)} handler classes")
    ctx.bounds.append("R46.2: concrete request worlds - Authorization in {absent, '', 'Bearer', 'Bearer ', Bearer wrong, Bearer good, Basic good, bearer good, wrong, good} x "
                      "token in {absent, '', blank, wrong, good} x cookies in {none, session issued by a login, forged unsigned} x 4 password configurations (full matrix on two "
                      "verbs, reduced on the others and per class); predicate: 8 (re)configuration histories x 9-11 candidate passwords")
    ctx.assume("tornado serves files below static_path (bundled UI assets) without authentication; they carry no flow data")
    ctx.trust("tornado.web dispatch: verb = getattr(handler, request.method.lower()) for methods in SUPPORTED_METHODS; xsrf check for non GET/HEAD/OPTIONS "
              "when settings['xsrf_cookies']; prepare() before the verb; RequestHandler.current_user caches get_current_user(); get_signed_cookie returns "
              "only values signed with cookie_secret; class creation calls the nearest ancestor's __init_subclass__")
    ctx.trust("hmac.compare_digest, hashlib, argon2.PasswordHasher.verify (raises on mismatch), secrets.token_* (modelled)")
    ctx.expect_instances("R46.1", 24 + 27 + 2)  # routes, handler classes (26 under the hook + the class defining it), tornado members, rebinding
    ctx.expect_instances("R46.2", 8 + 1 + 1)  # predicate scenarios, cookie secret, wrapper matrix
    ctx.expect_instances("R46.3", 2 + 24)  # xsrf setting, no check_xsrf_cookie override, routes


MUTANTS = [
    Mutant("route-to-plain-tornado-handler", APP, "class FilterHelp(RequestHandler):", "class FilterHelp(tornado.web.RequestHandler):", "R46.1"),
    Mutant("request-handler-base-swapped", APP, "class RequestHandler(AuthRequestHandler):", "class RequestHandler(tornado.web.RequestHandler):", "R46.1"),
    Mutant("init-subclass-installs-unwrapped", APP, "setattr(cls, method, AuthRequestHandler._require_auth(fn))", "setattr(cls, method, fn)", "R46.1"),
    Mutant("init-subclass-wraps-get-only", APP, "if fn is not tornado.web.RequestHandler._unimplemented_method:",
           "if fn is not tornado.web.RequestHandler._unimplemented_method and method == \"get\":", "R46.1"),
    Mutant("subclass-overrides-get-current-user", APP, "    post = get  # login form\n", "    post = get  # login form\n\n    def get_current_user(self):\n        return True\n", "R46.1"),
    Mutant("subclass-hook-without-super", APP, "class RequestHandler(AuthRequestHandler):\n    application: Application\n",
           "class RequestHandler(AuthRequestHandler):\n    application: Application\n\n    def __init_subclass__(cls, **kwargs):\n        cls.json_api = True\n", "R46.1"),
    Mutant("verb-rebound-after-class-creation", APP, "\n\nhandlers = [", "\n\nFlows.get = lambda self: self.write([flow_to_json(f) for f in self.view])\n\nhandlers = [", "R46.1"),
    Mutant("wrapper-skips-check-without-password", APP, "if not self.settings[\"is_valid_password\"](password):",
           "if password and not self.settings[\"is_valid_password\"](password):", "R46.2"),
    Mutant("wrapper-falls-through-after-403", APP, "                    self.auth_fail(bool(password))\n                    return None\n",
           "                    self.auth_fail(bool(password))\n", "R46.2"),
    Mutant("wrapper-no-403", APP, "                    self.set_status(403)\n", "", "R46.2"),
    Mutant("wrapper-accepts-any-bearer-scheme-prefix", APP, "if not self.current_user:", "if not (self.current_user or self.request.headers.get(\"Authorization\")):", "R46.2"),
    Mutant("unsigned-session-cookie", APP, "self.get_signed_cookie(self.settings[\"auth_cookie_name\"](), min_version=2)",
           "self.get_cookie(self.settings[\"auth_cookie_name\"]())", "R46.2"),
    Mutant("missing-cookie-is-logged-in", APP, "AUTH_COOKIE_VALUE = b\"y\"", "AUTH_COOKIE_VALUE = None", "R46.2"),
    Mutant("constant-cookie-secret", APP, "cookie_secret=secrets.token_bytes(32),", "cookie_secret=b\"mitmproxy\",", "R46.2"),
    Mutant("verification-error-accepts", WA, "            except argon2.exceptions.VerificationError:\n                return False",
           "            except argon2.exceptions.VerificationError:\n                return True", "R46.2"),
    Mutant("configured-password-may-be-empty", WA, "self._password = ctx.options.web_password or secrets.token_hex(16)", "self._password = ctx.options.web_password", "R46.2"),
    Mutant("compare-with-wrong-operand", WA, "                self._password,\n                password,\n            )", "                password,\n                password,\n            )", "R46.2"),
    Mutant("pass-the-hash", WA, "        if self._password.startswith(\"$\"):\n            try:", "        if self._password.startswith(\"$\") and password != self._password:\n            try:", "R46.2"),
    Mutant("login-page-leaks-flows", APP, "        self.render(\"login.html\", invalid_password=invalid_password)",
           "        self.render(\"login.html\", invalid_password=invalid_password, flows=len(self.view))", "R46.2"),
    Mutant("xsrf-off", APP, "xsrf_cookies=True,", "xsrf_cookies=False,", "R46.3"),
    Mutant("prepare-accepts-same-site", APP, "not in (\"same-origin\", \"none\")", "not in (\"same-origin\", \"none\", \"same-site\")", "R46.3"),
    Mutant("prepare-gates-post-only", APP, "self.request.method not in (\"GET\", \"HEAD\", \"OPTIONS\")", "self.request.method in (\"POST\",)", "R46.3"),
    Mutant("handler-overrides-xsrf-check", APP, "class ClearAll(RequestHandler):\n", "class ClearAll(RequestHandler):\n    def check_xsrf_cookie(self):\n        pass\n\n", "R46.3"),
    Mutant("unsafe-verb-outside-the-gate", APP, "class ClearAll(RequestHandler):", "class ClearAll(AuthRequestHandler):", "R46.3"),
]
