"""C46 - mitmweb requires authentication and blocks cross-site state changes.

Decided from the source of tools/web/app.py, webaddons.py and master.py:
  R46.1 registry + hierarchy: every row of the ``handlers`` route table and every class deriving from a tornado
        handler is a proper subclass of AuthRequestHandler; AuthRequestHandler.__init_subclass__ installs
        ``_require_auth(fn)`` for every implemented member of SUPPORTED_METHODS (path enumeration of the loop
        body); no subclass defines __init_subclass__ / get_current_user / current_user / _require_auth / _execute,
        and no verb is re-assigned after class creation; the route table is the only handler registration.
  R46.2 ``_require_auth.wrapper`` (all paths): ``fn`` runs only after ``self.current_user`` or
        ``settings['is_valid_password'](..)`` was truthy; every other path sets status 403 and never reaches ``fn``;
        get_current_user compares a *signed* cookie with a non-empty constant, the cookie secret is random;
        ``is_valid_password`` is WebAuth.is_valid_password, which answers True only through a comparison of the
        supplied with the configured password (compare_digest / == / argon2 verify); the configured password can
        never be the empty string (the wrapper's default for "no credentials"); auth_fail overrides do not touch
        view / master / flow.
  R46.3 Application(...) passes xsrf_cookies=True and nothing rewrites that setting; no handler overrides
        check_xsrf_cookie; RequestHandler.prepare raises for every non-safe method whose Sec-Fetch-Site is
        same-site / cross-site (decision table, evaluated on the AST); every routed handler that implements a
        non-safe verb resolves ``prepare`` to RequestHandler.prepare.
NOT decided: tornado's own dispatch (verb lookup by lower-cased method name, xsrf check before prepare, 405 for
unimplemented verbs, WebSocket upgrade only through ``get``), the static file route tornado adds for ``static_path``
(serves the bundled UI assets, no flow data), the HTTP status actually produced by the exception raised in
``prepare``.
"""

from __future__ import annotations

import ast
import re

from ..core import AnalysisError
from ..core import norm
from ..model import attr_chain
from ..model import call_name
from ..model import eval_order
from ..model import last_attr
from ..model import stmts_of
from ..model import walk_in_order
from ..paths import C
from ..paths import Engine
from ..paths import GenericSpec
from ..paths import is_const
from ..paths import State
from ..paths import traces_of
from ..paths import UNKNOWN
from ..selftest import Mutant
from ._helpers_F import attribute_stores
from ._helpers_F import class_members
from ._helpers_F import has_star_kwargs
from ._helpers_F import kwarg
from ._helpers_F import local_assignments
from ._helpers_F import own_nodes
from ._helpers_F import params_of

PROP = "C46"
REG = {
    "strength": "strong",
    "technique": "route-table / class-hierarchy registry check, path enumeration of the auth wrapper and of __init_subclass__, "
    "decision table of RequestHandler.prepare, settings dataflow",
    "claim": "every routed mitmweb handler (24 routes, 26 handler classes) is a proper subclass of AuthRequestHandler whose "
    "__init_subclass__ wraps every implemented HTTP verb with _require_auth; the wrapper reaches the verb only after a valid "
    "signed session cookie or a password accepted by WebAuth.is_valid_password (never the empty string) and answers 403 "
    "otherwise; xsrf_cookies is on, check_xsrf_cookie is never overridden, and every handler with a non-safe verb runs the "
    "Sec-Fetch-Site gate, which rejects same-site and cross-site for every non-safe method.",
    "note": "Trusted: tornado dispatch semantics (verb lookup via getattr(self, method.lower()), SUPPORTED_METHODS, xsrf check "
    "for non GET/HEAD/OPTIONS before prepare(), current_user caching get_current_user(), WebSocket upgrade in get()); the "
    "static asset route is outside the claim.",
}

APP = "mitmproxy/tools/web/app.py"
WA = "mitmproxy/tools/web/webaddons.py"
MASTER = "mitmproxy/tools/web/master.py"
BASE = "AuthRequestHandler"
GATE = "RequestHandler"  # the class whose prepare() implements the Sec-Fetch-Site gate
VERBS = ("get", "head", "post", "delete", "patch", "put", "options")
UNSAFE = ("post", "delete", "patch", "put")
AUTH_MEMBERS = ("__init_subclass__", "get_current_user", "current_user", "_current_user", "_require_auth", "_execute")
NON_HANDLER_TORNADO = {"HTTPError", "GZipContentEncoding", "Application"}
SENSITIVE_SETTINGS = {"xsrf_cookies", "is_valid_password", "auth_cookie_name", "cookie_secret"}
RANDOM_SOURCES = {"secrets.token_bytes", "secrets.token_hex", "secrets.token_urlsafe", "os.urandom"}


# ---------------------------------------------------------------------------------------------------
# model of the handler hierarchy


def handler_classes(ctx):
    """qual -> ClassDef for every class of app.py that has a tornado *Handler among its ancestors."""
    m = ctx.model.module(APP)
    out = {}
    for q, d in m.defs().items():
        if not isinstance(d, ast.ClassDef):
            continue
        if any(k.arg == "metaclass" for k in d.keywords):
            raise AnalysisError(f"{APP}::{q} uses a metaclass; class creation is not modelled")
        names = ctx.model.base_names(APP, q)
        ext = [n for n in names if n.startswith("tornado.")]
        if any(n.endswith("Handler") for n in ext):
            out[q] = d
        else:
            for n in ext:
                if n.rsplit(".", 1)[-1] not in NON_HANDLER_TORNADO:
                    raise AnalysisError(f"{APP}::{q} derives from {n}; not known whether this is a request handler")
    return out


def mro_names(ctx, q):
    return [c.name for _, c in ctx.model.mro(APP, q)]


def resolve_member(ctx, q, name):
    """(class name, node) of the first class along the (repo-resolved) MRO defining ``name``."""
    for _, c in ctx.model.mro(APP, q):
        mem = class_members(c)
        if name in mem:
            return c.name, mem[name]
    return None, None


# ---------------------------------------------------------------------------------------------------
# R46.1


def check_registry(ctx, classes):
    model = ctx.model
    m = model.module(APP)
    vals = m.assigns("handlers")
    ctx.require(len(vals) == 1, f"{APP}: expected exactly one module-level assignment to 'handlers', found {len(vals)}")
    table = vals[0]
    ctx.require(isinstance(table, ast.List), f"{APP}::handlers is not a list literal any more: {norm(table)}")
    routed = []
    for row in table.elts:
        ok_shape = (
            isinstance(row, ast.Tuple) and len(row.elts) >= 2 and isinstance(row.elts[0], ast.Constant)
            and isinstance(row.elts[0].value, str) and isinstance(row.elts[1], ast.Name)
        )
        ctx.require(ok_shape, f"{APP}::handlers row of unmodelled shape: {norm(row)}")
        pattern, target = row.elts[0].value, row.elts[1].id
        d = m.get(target)
        ctx.require(isinstance(d, ast.ClassDef), f"{APP}::handlers row {pattern!r} targets {target}, which is not a class of app.py")
        anc = mro_names(ctx, target)
        ok = BASE in anc[1:]
        ctx.check(ok, "R46.1", (APP, "handlers", row), f"route {pattern} -> {target}",
                  f"routed handler {target} is not a proper subclass of {BASE}: its HTTP verbs are never wrapped with _require_auth",
                  desc=f"route {pattern} -> {target} (MRO {' > '.join(anc)})")
        routed.append((pattern, target, row))
    # 'handlers' is used exactly once: as the handlers= argument of Application
    uses = [n for n in walk_in_order(m.tree) if isinstance(n, ast.Name) and n.id == "handlers" and isinstance(n.ctx, ast.Load)]
    init = ctx.func(APP, "Application.__init__")
    sup = [c for c in walk_in_order(init) if isinstance(c, ast.Call) and norm(c.func) == "super().__init__"]
    ctx.require(len(sup) == 1, "Application.__init__ no longer makes exactly one super().__init__ call")
    app_call = sup[0]
    ctx.require(not has_star_kwargs(app_call) and not app_call.args, "Application super().__init__ uses positional / ** arguments (not modelled)")
    h = kwarg(app_call, "handlers")
    ctx.require(isinstance(h, ast.Name) and h.id == "handlers", "Application does not pass handlers=handlers any more")
    ctx.require(len(uses) == 1 and uses[0] is h, f"{APP}: the route table 'handlers' is read in {len(uses)} places (only the Application argument is modelled)")
    for kw in ("default_handler_class", "static_handler_class"):
        ctx.require(kwarg(app_call, kw) is None, f"Application passes {kw}= (an extra handler outside the route table; not modelled)")
    # the master serves exactly this application
    mt = model.module(MASTER)
    mk = [c for c in walk_in_order(mt.tree) if isinstance(c, ast.Call) and call_name(c) == "app.Application"]
    srv = [c for c in walk_in_order(mt.tree) if isinstance(c, ast.Call) and last_attr(c.func) == "HTTPServer"]
    ctx.require(len(mk) == 1 and len(srv) == 1 and srv[0].args and attr_chain(srv[0].args[0]) == "self.app",
                f"{MASTER}: WebMaster no longer builds one app.Application and serves it with one HTTPServer(self.app)")
    # no second registration anywhere in the package
    pat = re.compile(r"add_handlers|RequestHandler|WebSocketHandler|wildcard_router|RuleRouter")
    for p in sorted((model.repo / "mitmproxy").rglob("*.py")):
        rel = p.relative_to(model.repo).as_posix()
        if rel == APP or rel.startswith("mitmproxy/contrib/"):
            continue
        src = model.source(rel)
        if "tornado" in src and pat.search(src):
            raise AnalysisError(f"{rel} mentions tornado handlers / add_handlers: a second handler registration is not modelled")
    for c in walk_in_order(m.tree):
        if isinstance(c, ast.Call) and last_attr(c.func) in ("add_handlers", "add_transform", "wildcard_router"):
            raise AnalysisError(f"{APP}: {norm(c)} registers handlers outside the route table (not modelled)")
    return routed, app_call


def check_hierarchy(ctx, classes):
    ctx.require(BASE in classes and GATE in classes, f"{APP}: {BASE} / {GATE} vanished")
    for q, d in classes.items():
        if q == BASE:
            continue
        anc = mro_names(ctx, q)
        ctx.check(BASE in anc[1:], "R46.1", (APP, q, d), f"class {q}({', '.join(norm(b) for b in d.bases)})",
                  f"tornado handler class {q} does not derive from {BASE}: its verbs are served without authentication",
                  desc=f"class {q} derives from {BASE}")
        mem = class_members(d)
        for name in AUTH_MEMBERS:
            if name in mem:
                ctx.fail("R46.1", (APP, q, mem[name]), f"{q}.{name} overrides the authentication machinery",
                         f"subclass {q} defines {name}: the verbs of this class are no longer guaranteed to pass _require_auth / the signed-cookie check")
    ctx.ok("R46.1", f"no subclass of {BASE} defines any of {', '.join(AUTH_MEMBERS)}")
    # external bases must not shadow the machinery: they are tornado classes (trusted not to define these members)
    ctx.trust("tornado.web.RequestHandler / tornado.websocket.WebSocketHandler define no __init_subclass__, and only the default get_current_user (None)")


def check_init_subclass(ctx):
    fn = ctx.func(APP, f"{BASE}.__init_subclass__")
    ctx.require(not fn.decorator_list, "__init_subclass__ is decorated (not modelled)")
    cls = fn.args.args[0].arg if fn.args.args else None
    ctx.require(cls is not None, "__init_subclass__ has no cls parameter")
    body = stmts_of(fn)
    loops = [s for s in body if isinstance(s, ast.For)]
    ctx.require(len(loops) == 1 and attr_chain(loops[0].iter) == f"{cls}.SUPPORTED_METHODS" and isinstance(loops[0].target, ast.Name),
                "__init_subclass__ is no longer one loop over cls.SUPPORTED_METHODS")
    loop = loops[0]
    for s in body:
        if s is not loop and not (isinstance(s, ast.Expr) and isinstance(s.value, ast.Call) and norm(s.value.func).startswith("super()")):
            raise AnalysisError(f"__init_subclass__: statement outside the loop is not modelled: {norm(s)}")
    ctx.require(not loop.orelse, "__init_subclass__: for/else not modelled")
    var = loop.target.id

    def getattr_of(name_node):
        """is ``name_node`` a Name bound (in the loop body) only from getattr(cls, <verb name>)?"""
        if not isinstance(name_node, ast.Name):
            return False
        vals = [n.value for n in walk_in_order(loop) if isinstance(n, ast.Assign) and any(isinstance(t, ast.Name) and t.id == name_node.id for t in n.targets)]
        return bool(vals) and all(
            isinstance(v, ast.Call) and call_name(v) == "getattr" and len(v.args) == 2 and isinstance(v.args[0], ast.Name)
            and v.args[0].id == cls and verb_name(v.args[1]) for v in vals)

    def verb_name(node):
        """the loop variable, possibly re-bound to / wrapped in .lower()"""
        if isinstance(node, ast.Call) and isinstance(node.func, ast.Attribute) and node.func.attr == "lower" and not node.args:
            node = node.func.value
        if not isinstance(node, ast.Name):
            return False
        if node.id == var:
            return True
        vals = [n.value for n in walk_in_order(loop) if isinstance(n, ast.Assign) and any(isinstance(t, ast.Name) and t.id == node.id for t in n.targets)]
        return bool(vals) and all(verb_name(v) for v in vals)

    def wrapping(call):
        if len(call.args) != 3 or call.keywords:
            return False
        a0, a1, a2 = call.args
        if not (isinstance(a0, ast.Name) and a0.id == cls and verb_name(a1)):
            return False
        if not (isinstance(a2, ast.Call) and last_attr(a2.func) == "_require_auth" and len(a2.args) == 1):
            return False
        return getattr_of(a2.args[0])

    class S(GenericSpec):

        def events(self, node, st):
            out = []
            for n in eval_order(node):
                if isinstance(n, ast.Call) and call_name(n) == "setattr":
                    out.append(("setattr", wrapping(n)))
            return out

        def cond_event(self, expr, value, st):
            if isinstance(expr, ast.Compare) and len(expr.ops) == 1 and isinstance(expr.ops[0], (ast.Is, ast.IsNot)):
                sides = [expr.left, expr.comparators[0]]
                um = [s for s in sides if attr_chain(s).endswith("._unimplemented_method")]
                fnv = [s for s in sides if getattr_of(s)]
                if len(um) == 1 and len(fnv) == 1:
                    implemented = value if isinstance(expr.ops[0], ast.IsNot) else not value
                    return ("implemented", implemented)
            return ("cond", norm(expr), value)

    eng = Engine(S(record_conds=True))
    o = eng.block(loop.body, {State()}, 0)
    ctx.paths += len(o.normal | o.cont | o.brk | o.ret | o.exc)
    bad = []
    for s in o.brk | o.ret | o.exc:
        bad.append(("the loop can be left early, later verbs stay unwrapped", s.trace))
    n_wrap = 0
    for s in o.normal | o.cont:
        tr = s.trace
        if ("implemented", False) in tr:
            continue
        if ("setattr", True) in tr:
            n_wrap += 1
            continue
        bad.append(("an implemented verb is not replaced by _require_auth(fn)", tr))
    ctx.require(bad or n_wrap >= 1, "__init_subclass__: no path installs the wrapper (loop body shape not recognised)")
    if bad:
        why, tr = bad[0]
        ctx.fail("R46.1", (APP, f"{BASE}.__init_subclass__", loop), "for method in cls.SUPPORTED_METHODS: setattr(cls, method, _require_auth(fn))",
                 f"{why} on the path {list(tr)}", paths=[list(t) for _, t in bad])
    else:
        ctx.ok("R46.1", f"__init_subclass__: every implemented member of cls.SUPPORTED_METHODS is replaced by _require_auth(fn) ({len(o.normal | o.cont)} loop-body paths)")


def check_no_late_rebinding(ctx, classes):
    names = set(classes)
    watched = set(VERBS) | set(AUTH_MEMBERS) | {"check_xsrf_cookie", "prepare", "SUPPORTED_METHODS"}
    init_sub = ctx.model.func(APP, f"{BASE}.__init_subclass__")
    for rel in (APP, MASTER, WA):
        tree = ctx.model.module(rel).tree
        for stmt, t in attribute_stores(tree, watched):
            root = attr_chain(t.value)
            tail = root.rsplit(".", 1)[-1]
            if tail in names or root in ("self", "cls") and rel == APP:
                ctx.fail("R46.1", (rel, "<module>", stmt), f"{norm(t)} = ...",
                         f"{norm(t)} is (re)bound after class creation, bypassing the _require_auth wrapper installed by __init_subclass__")
        for c in walk_in_order(tree):
            if not (isinstance(c, ast.Call) and call_name(c) == "setattr" and len(c.args) >= 2):
                continue
            if rel == APP and any(a is c for a in walk_in_order(init_sub)):
                continue
            root = attr_chain(c.args[0])
            tail = root.rsplit(".", 1)[-1] if root else ""
            if tail in names or root in ("self", "cls") or isinstance(c.args[0], ast.Call):
                key = c.args[1].value if isinstance(c.args[1], ast.Constant) else None
                if key is None or key in watched:
                    ctx.fail("R46.1", (rel, "<module>", c), norm(c), "setattr on a handler class / instance can replace a wrapped verb or the authentication machinery")
    ctx.ok("R46.1", "no verb / auth member of a handler class is re-bound after class creation (app.py, master.py, webaddons.py)")


# ---------------------------------------------------------------------------------------------------
# R46.2


def is_password_check(expr) -> bool:
    """self.settings['is_valid_password'](...)  (also via self.application.settings)"""
    if not isinstance(expr, ast.Call) or not isinstance(expr.func, ast.Subscript):
        return False
    sub = expr.func
    return attr_chain(sub.value) in ("self.settings", "self.application.settings") and isinstance(sub.slice, ast.Constant) and sub.slice.value == "is_valid_password"


def check_wrapper(ctx):
    ra = ctx.func(APP, f"{BASE}._require_auth")
    ps = params_of(ra)
    ctx.require(len(ps) == 1, "_require_auth no longer takes exactly the wrapped function")
    fn_name = ps[0]
    inner = [s for s in stmts_of(ra) if isinstance(s, (ast.FunctionDef, ast.AsyncFunctionDef))]
    rets = [s for s in stmts_of(ra) if isinstance(s, ast.Return)]
    ctx.require(len(inner) == 1 and len(rets) == 1 and isinstance(rets[0].value, ast.Name) and rets[0].value.id == inner[0].name
                and len(stmts_of(ra)) == 2, "_require_auth is no longer `def wrapper...; return wrapper`")
    w = inner[0]
    ctx.functions.add(f"{APP}::{BASE}._require_auth.{w.name}")
    for d in w.decorator_list:
        ctx.require(norm(d) == f"functools.wraps({fn_name})", f"wrapper is decorated with {norm(d)} (not modelled)")
    ctx.require(not isinstance(w, ast.AsyncFunctionDef), "wrapper became async (not modelled)")
    ctx.require(fn_name not in [n.id for n in own_nodes(w) if isinstance(n, ast.Name) and isinstance(n.ctx, ast.Store)], "wrapper rebinds the wrapped function")

    class S(GenericSpec):

        def events(self, node, st):
            out = []
            for n in eval_order(node):
                if isinstance(n, ast.Call):
                    if isinstance(n.func, ast.Name) and n.func.id == fn_name:
                        out.append(("fn",))
                    elif last_attr(n.func) in ("set_status", "send_error") and attr_chain(n.func).startswith("self."):
                        code = n.args[0].value if n.args and isinstance(n.args[0], ast.Constant) else (
                            kwarg(n, "status_code").value if isinstance(kwarg(n, "status_code"), ast.Constant) else None)
                        out.append(("status", code))
                elif isinstance(n, ast.Name) and n.id == fn_name and isinstance(n.ctx, ast.Load):
                    par = getattr(n, "_parent", None)
                    if not (isinstance(par, ast.Call) and par.func is n):
                        out.append(("fn-escapes", norm(par)))
            return out

        def cond_event(self, expr, value, st):
            if attr_chain(expr) == "self.current_user":
                return ("auth", "cookie", value)
            if is_password_check(expr):
                return ("auth", "password", value)
            return None

    trs, eng = traces_of(w, S(record_conds=True))
    ctx.paths += len(trs)
    ctx.require(any(("fn",) in t for t, _, _ in trs), "wrapper never calls the wrapped function (shape not recognised)")
    ctx.require(any(e[0] == "auth" and e[1] == "password" for t, _, _ in trs for e in t) and any(e[0] == "auth" and e[1] == "cookie" for t, _, _ in trs for e in t),
                "wrapper no longer tests self.current_user and self.settings['is_valid_password'](...) (shape not recognised)")
    n_ok = n_deny = 0
    for tr, how, _ in trs:
        authed_at = next((i for i, e in enumerate(tr) if e[0] == "auth" and e[2] is True), None)
        fn_at = next((i for i, e in enumerate(tr) if e[0] in ("fn", "fn-escapes")), None)
        if fn_at is not None and (authed_at is None or authed_at > fn_at):
            ctx.fail("R46.2", (APP, f"{BASE}._require_auth", w), "wrapper reaches fn(self, ...) without a successful credential check",
                     f"path {list(tr)} calls the wrapped verb although neither self.current_user nor is_valid_password(password) was truthy", path=list(tr))
            continue
        if authed_at is None:
            if ("status", 403) not in tr and not how.startswith("raise"):
                ctx.fail("R46.2", (APP, f"{BASE}._require_auth", w), "unauthenticated path does not answer 403",
                         f"path {list(tr)} ends ({how}) without set_status(403)", path=list(tr))
                continue
            n_deny += 1
        else:
            n_ok += 1
    if not any(f.rule == "R46.2" and f.func.endswith("_require_auth") for f in ctx.findings):
        ctx.ok("R46.2", f"_require_auth.wrapper: {len(trs)} paths, fn only after a truthy credential check ({n_ok}), 403 otherwise ({n_deny})")
    ctx.require(n_deny >= 1 or any(f.rule == "R46.2" for f in ctx.findings), "wrapper has no denying path (shape not recognised)")


def check_current_user(ctx, app_call):
    fn = ctx.func(APP, f"{BASE}.get_current_user")
    body = stmts_of(fn)
    ctx.require(len(body) == 1 and isinstance(body[0], ast.Return) and isinstance(body[0].value, ast.Compare) and len(body[0].value.ops) == 1
                and isinstance(body[0].value.ops[0], ast.Eq), f"get_current_user is no longer `return <cookie> == <constant>`: {norm(fn)}")
    cmp_ = body[0].value
    sides = [cmp_.left, cmp_.comparators[0]]
    calls = [s for s in sides if isinstance(s, ast.Call)]
    ctx.require(len(calls) == 1, "get_current_user: expected exactly one call among the compared operands")
    getter = norm(calls[0].func)
    if getter in ("self.get_signed_cookie", "self.get_secure_cookie"):
        ctx.ok("R46.2", f"get_current_user reads the session through {getter} (signed)")
    elif getter in ("self.get_cookie", "self.request.cookies.get", "self.cookies.get"):
        ctx.fail("R46.2", (APP, f"{BASE}.get_current_user", fn), f"{getter}(...) == AUTH_COOKIE_VALUE",
                 "the session cookie is read unsigned: any client can forge it and skip the password check")
    else:
        raise AnalysisError(f"get_current_user reads the cookie through {getter} (not modelled)")
    other = [s for s in sides if s is not calls[0]][0]
    if attr_chain(other) == "self.AUTH_COOKIE_VALUE":
        mem = class_members(ctx.model.cls(APP, BASE))
        ctx.require("AUTH_COOKIE_VALUE" in mem and isinstance(mem["AUTH_COOKIE_VALUE"], (ast.Assign, ast.AnnAssign)), "AUTH_COOKIE_VALUE vanished")
        other = mem["AUTH_COOKIE_VALUE"].value
    ctx.require(isinstance(other, ast.Constant), f"get_current_user compares with a non-constant: {norm(other)}")
    ctx.check(isinstance(other.value, (bytes, str)) and len(other.value) > 0, "R46.2", (APP, f"{BASE}.get_current_user", fn),
              f"AUTH_COOKIE_VALUE = {other.value!r}", "a missing cookie (None / empty) compares equal to the expected value: everyone is logged in",
              desc=f"expected cookie value is the non-empty constant {other.value!r}")
    sec = kwarg(app_call, "cookie_secret")
    ctx.require(sec is not None, "Application no longer passes cookie_secret")
    if isinstance(sec, ast.Constant):
        ctx.fail("R46.2", (APP, "Application.__init__", sec), "cookie_secret=<constant>", "the cookie signing secret is a source constant: session cookies can be forged")
    else:
        ok = isinstance(sec, ast.Call) and call_name(sec) in RANDOM_SOURCES and sec.args and isinstance(sec.args[0], ast.Constant) and isinstance(sec.args[0].value, int)
        ctx.require(ok, f"cookie_secret={norm(sec)} is not a recognised random source")
        ctx.check(sec.args[0].value >= 16, "R46.2", (APP, "Application.__init__", sec), f"cookie_secret={norm(sec)}", "cookie signing secret shorter than 128 bit",
                  desc=f"cookie_secret={norm(sec)}")


def check_password_binding(ctx, app_call):
    init = ctx.func(APP, "Application.__init__")
    v = kwarg(app_call, "is_valid_password")
    ctx.require(isinstance(v, ast.Attribute) and isinstance(v.value, ast.Name), f"Application: is_valid_password={norm(v) if v is not None else None} (not modelled)")
    src = local_assignments(init, v.value.id)
    ctx.require(len(src) == 1 and isinstance(src[0], ast.Call) and norm(src[0].func).endswith("addons.get") and src[0].args
                and isinstance(src[0].args[0], ast.Constant), f"Application: {v.value.id} is not `master.addons.get(<name>)`")
    addon_name = src[0].args[0].value
    wa_cls = [d for q, d in ctx.model.module(WA).defs().items() if isinstance(d, ast.ClassDef) and q.lower() == addon_name]
    ctx.require(len(wa_cls) == 1, f"{WA}: no class whose lower-cased name is {addon_name!r}")
    wcls = wa_cls[0]
    ctx.require("name" not in class_members(wcls, strict=False), f"{wcls.name} defines a custom addon name")
    mt = ctx.model.module(MASTER)
    added = [c for c in walk_in_order(mt.tree) if isinstance(c, ast.Call) and call_name(c) == f"webaddons.{wcls.name}"]
    ctx.require(len(added) == 1, f"{MASTER}: WebMaster does not register webaddons.{wcls.name}() exactly once")
    ok = v.attr == "is_valid_password" and "is_valid_password" in class_members(wcls, strict=False)
    ctx.check(ok, "R46.2", (APP, "Application.__init__", v), f"is_valid_password={norm(v)}",
              f"the password predicate handed to the handlers is not {wcls.name}.is_valid_password",
              desc=f"settings['is_valid_password'] = {wcls.name}.is_valid_password (addon {addon_name!r} registered in WebMaster)")
    return wcls


def check_is_valid_password(ctx, wcls):
    q = f"{wcls.name}.is_valid_password"
    fn = ctx.func(WA, q)
    ps = params_of(fn)
    ctx.require(len(ps) == 2 and not fn.decorator_list, f"{q}: signature changed")
    supplied = ps[1]
    stored = "self._password"

    def pair(a, b):
        got = {attr_chain(a) or norm(a), attr_chain(b) or norm(b)}
        return got == {stored, supplied}

    n = 0
    for r in [x for x in own_nodes(fn) if isinstance(x, ast.Return)]:
        v = r.value
        n += 1
        if v is None or (isinstance(v, ast.Constant) and not v.value):
            ctx.ok("R46.2", f"{q}: `{norm(r)}` denies")
            continue
        if isinstance(v, ast.Constant):
            ctx.fail("R46.2", (WA, q, r), norm(r), "is_valid_password accepts without comparing the supplied password")
            continue
        if isinstance(v, ast.Call) and call_name(v) == "hmac.compare_digest" and len(v.args) == 2:
            ctx.check(pair(*v.args), "R46.2", (WA, q, r), norm(r), "the comparison is not between the supplied and the configured password", desc=f"{q}: {norm(r)}")
            continue
        if isinstance(v, ast.Compare) and len(v.ops) == 1 and isinstance(v.ops[0], ast.Eq):
            ctx.check(pair(v.left, v.comparators[0]), "R46.2", (WA, q, r), norm(r), "the comparison is not between the supplied and the configured password", desc=f"{q}: {norm(r)}")
            continue
        if isinstance(v, ast.Call) and call_name(v) == "self._hasher.verify" and len(v.args) == 2:
            hs = [val for st, t in attribute_stores(wcls, {"_hasher"}) for val in [getattr(st, "value", None)]]
            ctx.require(hs and all(isinstance(h, ast.Call) and call_name(h) == "argon2.PasswordHasher" for h in hs), f"{wcls.name}._hasher is not argon2.PasswordHasher()")
            ok = attr_chain(v.args[0]) == stored and attr_chain(v.args[1]) == supplied
            ctx.check(ok, "R46.2", (WA, q, r), norm(r), "argon2 verify is not called as verify(configured hash, supplied password)", desc=f"{q}: {norm(r)}")
            continue
        raise AnalysisError(f"{q}: return expression not modelled: {norm(r)}")
    ctx.require(n >= 1, f"{q}: no return statement")
    for nd in own_nodes(fn):
        if isinstance(nd, (ast.Yield, ast.YieldFrom, ast.Await, ast.Lambda)):
            raise AnalysisError(f"{q}: {norm(nd)} not modelled")
    # the configured password is never empty (the wrapper validates "" when no credentials are supplied)
    stores = attribute_stores(wcls, {"_password"})
    ctx.require(stores, f"{wcls.name}: no assignment to self._password")
    for st, t in stores:
        ctx.require(isinstance(st, ast.Assign) and attr_chain(t) == stored, f"{wcls.name}: unmodelled write {norm(st)}")
        val = st.value
        last = val.values[-1] if isinstance(val, ast.BoolOp) and isinstance(val.op, ast.Or) else val
        nonempty = isinstance(last, ast.Call) and call_name(last) in RANDOM_SOURCES and last.args and isinstance(last.args[0], ast.Constant) and last.args[0].value >= 8
        if nonempty:
            ctx.ok("R46.2", f"{wcls.name}: `{norm(st)}` is never empty")
        elif attr_chain(val).endswith(".web_password") or (isinstance(val, ast.Constant) and not val.value):
            ctx.fail("R46.2", (WA, qual(st), st), norm(st),
                     "the configured password can be the empty string (the option's default), which the auth wrapper accepts for requests that carry no credentials at all")
        else:
            raise AnalysisError(f"{wcls.name}: cannot decide whether `{norm(st)}` can be empty")
    for rel in (APP, MASTER):
        for st, t in attribute_stores(ctx.model.module(rel).tree, {"_password", "_hasher"}):
            raise AnalysisError(f"{rel}: writes {norm(t)} (not modelled)")


def qual(node):
    from ..model import qual_of

    return qual_of(node)


def check_auth_fail(ctx, classes):
    n = 0
    for q, d in classes.items():
        if q == BASE:
            continue
        mem = class_members(d)
        if "auth_fail" not in mem:
            continue
        fn = mem["auth_fail"]
        ctx.require(isinstance(fn, ast.FunctionDef), f"{q}.auth_fail is not a plain method")
        leaks = sorted({x.attr for x in ast.walk(fn) if isinstance(x, ast.Attribute) and x.attr in ("view", "master", "flow", "application", "json", "filecontents")}
                       | {x.id for x in ast.walk(fn) if isinstance(x, ast.Name) and x.id in ("flow_to_json", "logentry_to_json")})
        ctx.check(not leaks, "R46.2", (APP, f"{q}.auth_fail", fn), f"{q}.auth_fail uses {', '.join(leaks)}",
                  "the 403 response body is computed from proxy state: unauthenticated clients can read or change it", desc=f"{q}.auth_fail touches no proxy state")
        n += 1
    base = ctx.func(APP, f"{BASE}.auth_fail")
    ctx.require(not stmts_of(base), f"{BASE}.auth_fail is no longer empty")
    return n


# ---------------------------------------------------------------------------------------------------
# R46.3


def check_xsrf_setting(ctx, classes, app_call):
    x = kwarg(app_call, "xsrf_cookies")
    if x is None or (isinstance(x, ast.Constant) and x.value is not True):
        ctx.fail("R46.3", (APP, "Application.__init__", app_call), f"xsrf_cookies={norm(x) if x is not None else '<absent>'}",
                 "tornado's XSRF token check is off: state-changing requests are accepted without a token")
    else:
        ctx.require(isinstance(x, ast.Constant), f"xsrf_cookies={norm(x)} is not a constant (cannot be decided)")
        ctx.ok("R46.3", "Application(xsrf_cookies=True)")
    for q, d in classes.items():
        mem = class_members(d)
        if "check_xsrf_cookie" in mem:
            ctx.fail("R46.3", (APP, q, mem["check_xsrf_cookie"]), f"{q}.check_xsrf_cookie overridden", "the XSRF token check of this handler is replaced")
    ctx.ok("R46.3", f"none of the {len(classes)} handler classes overrides check_xsrf_cookie")
    for rel in (APP, MASTER, WA):
        for n in walk_in_order(ctx.model.module(rel).tree):
            tgt = None
            if isinstance(n, ast.Assign):
                tgt = [t for t in n.targets if isinstance(t, ast.Subscript) and attr_chain(t.value).endswith("settings")]
                for t in tgt:
                    key = t.slice.value if isinstance(t.slice, ast.Constant) else None
                    if key is None or key in SENSITIVE_SETTINGS:
                        ctx.fail("R46.3", (rel, qual(n), n), norm(n), "an application setting the authentication / XSRF machinery depends on is rewritten after construction")
                for t in n.targets:
                    if isinstance(t, ast.Attribute) and t.attr == "settings":
                        raise AnalysisError(f"{rel}: {norm(n)} replaces the settings dict (not modelled)")
            elif isinstance(n, ast.Call) and isinstance(n.func, ast.Attribute) and n.func.attr in ("update", "pop", "clear", "setdefault", "__setitem__") and attr_chain(n.func.value).endswith(".settings"):
                raise AnalysisError(f"{rel}: {norm(n)} mutates the application settings (not modelled)")


class PrepareSpec(GenericSpec):
    """Evaluates RequestHandler.prepare for one (method, Sec-Fetch-Site) cell."""

    record_conds = False

    def __init__(self):
        super().__init__(keep=lambda ev: ev[0] in ("raise",))

    @staticmethod
    def _hdr(node):
        return isinstance(node, ast.Constant) and isinstance(node.value, str) and node.value.lower() == "sec-fetch-site"

    def value(self, expr, st, depth):
        if attr_chain(expr) == "self.request.method":
            return st.get("$method")
        if isinstance(expr, ast.Subscript) and attr_chain(expr.value) == "self.request.headers" and self._hdr(expr.slice):
            return st.get("$site")
        if isinstance(expr, ast.Call) and call_name(expr) == "self.request.headers.get" and expr.args and self._hdr(expr.args[0]):
            return st.get("$site")
        return super().value(expr, st, depth)

    def decide_extra(self, cond, st, depth):
        if isinstance(cond, ast.Compare) and len(cond.ops) == 1 and isinstance(cond.ops[0], (ast.In, ast.NotIn)):
            if self._hdr(cond.left) and attr_chain(cond.comparators[0]) == "self.request.headers":
                return isinstance(cond.ops[0], ast.In)  # the cells evaluated here always carry the header
        return None


def check_prepare(ctx):
    q = f"{GATE}.prepare"
    fn = ctx.func(APP, q)
    ctx.require(not fn.decorator_list and not isinstance(fn, ast.AsyncFunctionDef), f"{q}: decorated / async (not modelled)")
    bad = []
    for method in ("POST", "PUT", "DELETE", "PATCH"):
        for site in ("cross-site", "same-site"):
            trs, eng = traces_of(fn, PrepareSpec(), init_env={"$method": C(method), "$site": C(site)})
            ctx.cells += 1
            ctx.require(eng.forks == 0, f"{q}: a condition could not be decided for method={method}, Sec-Fetch-Site={site} (shape not modelled)")
            if not trs or not all(how.startswith("raise") for _, how, _ in trs):
                bad.append((method, site))
    for method, site in bad:
        ctx.fail("R46.3", (APP, q, fn), f"prepare accepts {method} with Sec-Fetch-Site: {site}",
                 "a state-changing request the browser marks as not same-origin passes the Sec-Fetch-Site gate")
    if not bad:
        ctx.ok("R46.3", f"{q} raises for POST/PUT/DELETE/PATCH x Sec-Fetch-Site in (cross-site, same-site): 8 cells")
    # positive control (keeps the evaluation non-vacuous): a same-origin POST passes
    trs, eng = traces_of(fn, PrepareSpec(), init_env={"$method": C("POST"), "$site": C("same-origin")})
    ctx.cells += 1
    ctx.require(eng.forks == 0 and trs and all(how == "return" for _, how, _ in trs), f"{q}: evaluation does not let a same-origin POST pass (model broken or UI locked out)")


def check_gate_coverage(ctx, routed):
    for pattern, target, row in routed:
        verbs = []
        for _, c in ctx.model.mro(APP, target):
            mem = class_members(c)
            verbs += [v for v in UNSAFE if v in mem]
        verbs = sorted(set(verbs))
        if not verbs:
            ctx.ok("R46.3", f"route {pattern} -> {target}: no non-safe verb implemented in the repository classes")
            continue
        owner, node = resolve_member(ctx, target, "prepare")
        ctx.check(owner == GATE, "R46.3", (APP, target, row), f"{target} implements {'/'.join(verbs)} but prepare resolves to {owner or 'tornado'}",
                  f"the Sec-Fetch-Site gate ({GATE}.prepare) does not run for the state-changing verbs of {target}",
                  desc=f"route {pattern} -> {target}: {'/'.join(verbs)} behind {GATE}.prepare")


# ---------------------------------------------------------------------------------------------------


def check(ctx):
    ctx.rule("R46.1", "every routed / tornado-derived handler class is a proper subclass of AuthRequestHandler, whose __init_subclass__ wraps every "
             "implemented verb with _require_auth; nothing overrides or rebinds that machinery")
    ctx.rule("R46.2", "_require_auth.wrapper calls the verb only after a truthy signed-cookie / password check and answers 403 otherwise; the password "
             "predicate is WebAuth.is_valid_password, a real comparison against a never-empty configured password")
    ctx.rule("R46.3", "xsrf_cookies=True, check_xsrf_cookie never overridden, RequestHandler.prepare rejects non-safe methods marked same-site / cross-site "
             "and runs for every handler with a non-safe verb")
    classes = handler_classes(ctx)
    routed, app_call = check_registry(ctx, classes)
    check_hierarchy(ctx, classes)
    check_init_subclass(ctx)
    check_no_late_rebinding(ctx, classes)
    check_wrapper(ctx)
    check_current_user(ctx, app_call)
    wcls = check_password_binding(ctx, app_call)
    check_is_valid_password(ctx, wcls)
    check_auth_fail(ctx, classes)
    check_xsrf_setting(ctx, classes, app_call)
    check_prepare(ctx)
    check_gate_coverage(ctx, routed)
    ctx.note(f"{len(routed)} routes, {len(classes)} handler classes (incl. {BASE})")
    ctx.assume("tornado serves files below static_path (bundled UI assets) without authentication; they carry no flow data")
    ctx.trust("tornado.web dispatch: verb = getattr(handler, request.method.lower()) for methods in SUPPORTED_METHODS; xsrf check for non GET/HEAD/OPTIONS "
              "when settings['xsrf_cookies']; prepare() before the verb; RequestHandler.current_user caches get_current_user()")
    ctx.trust("hmac.compare_digest, argon2.PasswordHasher.verify (raises on mismatch), secrets.token_*")
    ctx.expect_instances("R46.1", 24 + 26 + 3)
    ctx.expect_instances("R46.2", 11)
    ctx.expect_instances("R46.3", 2 + 1 + 24)


MUTANTS = [
    Mutant("route-to-plain-tornado-handler", APP, "class FilterHelp(RequestHandler):", "class FilterHelp(tornado.web.RequestHandler):", "R46.1"),
    Mutant("request-handler-base-swapped", APP, "class RequestHandler(AuthRequestHandler):", "class RequestHandler(tornado.web.RequestHandler):", "R46.1"),
    Mutant("init-subclass-installs-unwrapped", APP, "setattr(cls, method, AuthRequestHandler._require_auth(fn))", "setattr(cls, method, fn)", "R46.1"),
    Mutant("init-subclass-wraps-get-only", APP, "if fn is not tornado.web.RequestHandler._unimplemented_method:",
           "if fn is not tornado.web.RequestHandler._unimplemented_method and method == \"get\":", "R46.1"),
    Mutant("subclass-overrides-get-current-user", APP, "    post = get  # login form\n", "    post = get  # login form\n\n    def get_current_user(self):\n        return True\n", "R46.1"),
    Mutant("verb-rebound-after-class-creation", APP, "\n\nhandlers = [", "\n\nFlows.get = lambda self: self.write([flow_to_json(f) for f in self.view])\n\nhandlers = [", "R46.1"),
    Mutant("wrapper-skips-check-without-password", APP, "if not self.settings[\"is_valid_password\"](password):",
           "if password and not self.settings[\"is_valid_password\"](password):", "R46.2"),
    Mutant("wrapper-falls-through-after-403", APP, "                    self.auth_fail(bool(password))\n                    return None\n",
           "                    self.auth_fail(bool(password))\n", "R46.2"),
    Mutant("wrapper-no-403", APP, "                    self.set_status(403)\n", "", "R46.2"),
    Mutant("unsigned-session-cookie", APP, "self.get_signed_cookie(self.settings[\"auth_cookie_name\"](), min_version=2)",
           "self.get_cookie(self.settings[\"auth_cookie_name\"]())", "R46.2"),
    Mutant("constant-cookie-secret", APP, "cookie_secret=secrets.token_bytes(32),", "cookie_secret=b\"mitmproxy\",", "R46.2"),
    Mutant("verification-error-accepts", WA, "            except argon2.exceptions.VerificationError:\n                return False",
           "            except argon2.exceptions.VerificationError:\n                return True", "R46.2"),
    Mutant("configured-password-may-be-empty", WA, "self._password = ctx.options.web_password or secrets.token_hex(16)", "self._password = ctx.options.web_password", "R46.2"),
    Mutant("compare-with-wrong-operand", WA, "                self._password,\n                password,\n            )", "                password,\n                password,\n            )", "R46.2"),
    Mutant("login-page-leaks-flows", APP, "        self.render(\"login.html\", invalid_password=invalid_password)",
           "        self.render(\"login.html\", invalid_password=invalid_password, flows=len(self.view))", "R46.2"),
    Mutant("xsrf-off", APP, "xsrf_cookies=True,", "xsrf_cookies=False,", "R46.3"),
    Mutant("prepare-accepts-same-site", APP, "not in (\"same-origin\", \"none\")", "not in (\"same-origin\", \"none\", \"same-site\")", "R46.3"),
    Mutant("prepare-gates-post-only", APP, "self.request.method not in (\"GET\", \"HEAD\", \"OPTIONS\")", "self.request.method in (\"POST\",)", "R46.3"),
    Mutant("handler-overrides-xsrf-check", APP, "class ClearAll(RequestHandler):\n", "class ClearAll(RequestHandler):\n    def check_xsrf_cookie(self):\n        pass\n\n", "R46.3"),
    Mutant("unsafe-verb-outside-the-gate", APP, "class ClearAll(RequestHandler):", "class ClearAll(AuthRequestHandler):", "R46.3"),
]
