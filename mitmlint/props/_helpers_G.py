"""Batch G (C12 C49 C48) helpers: engine E4 of DESIGN section 2 - source / sanitiser / sink dataflow ("taint").

What it is
  * abstract value of an expression = set of *origins* (frozenset of ``Origin``); the empty set is "clean".
  * intra-procedural, flow-sensitive def-use over statements (if / for / while / try / with / match are joined, loops
    iterated to a fixpoint) and expressions (assignments incl. tuple unpacking and augmented, f-strings, ``%``,
    ``.format``, ``+``, ``str.join``, conditional expressions, calls, comprehension variables, loop targets, walrus,
    mutation of a local through ``x.append(t)`` / ``x[k] = t`` / ``x.a = t``).
  * inter-procedural through *summaries* of functions / methods of the same module (``self.m(...)`` is resolved along
    the MRO with ``ctx.model``): "returns origins rooted at parameter k" and "parameter k reaches sink S inside the
    callee" (derived sink).  Self attributes are joined class-wide (flow-insensitive) and iterated to a fixpoint.
  * per rule a ``TaintSpec``: which parameters are real sources (entries) and which symbolic, a sanitiser table
    (canonical dotted callee -> one-line reason), callbacks for conditional sanitisers / clean attributes, and sink callbacks.
  * an expression the engine cannot classify is tainted iff a sub-expression is tainted; a call the engine cannot resolve
    returns the union of its receiver and arguments (assumption, stated in the evidence: a callee outside the module
    returns data derived from its operands only).  A subscript / ``.get`` lookup does not carry the *key* into the result.
  * nested function definitions inside an analysed function are refused (AnalysisError), never guessed.

``AttrTypes`` - "name typing": ``X.attr`` of a tainted object is discharged iff EVERY declaration of an attribute of
that name in mitmproxy/** has a non-string type (int / float / bool / None / Enum / Literal[...] / ClassVar[str] bound to
literals).  A new ``str`` declaration of the same name anywhere re-taints it (fail-safe, no hand-kept table).

Nothing here imports or executes repository code.
"""

from __future__ import annotations

import ast
import builtins
from collections import namedtuple
from pathlib import Path

from ..core import AnalysisError
from ..core import norm
from ..core import VERIF
from ..model import attr_chain
from ..model import qual_of

Origin = namedtuple("Origin", "kind root text where via")
#  kind  'src'   real source (reported when it reaches a sink)
#        'param' symbolic: rooted at parameter ``root`` of the function being summarised
#  text  the expression that introduced it, e.g. 'f.request.path';  where = qualname of the function
#  via   tuple of 'callee: expr' hops it travelled through

CLEAN: frozenset = frozenset()

# builtins whose result cannot carry text of the operands
CLEAN_BUILTINS = {
    "len": "returns int", "int": "returns int", "float": "returns float", "bool": "returns bool", "isinstance": "returns bool",
    "issubclass": "returns bool", "hasattr": "returns bool", "callable": "returns bool", "ord": "returns int", "hash": "returns int",
    "id": "returns int", "any": "returns bool", "all": "returns bool", "range": "ints", "type": "a class object",
}
LOOKUP_METHODS = {"get", "pop"}  # recv.get(key, default): the key does not flow into the result
MUTATORS = {"append", "extend", "add", "insert", "update", "setdefault", "appendleft", "extendleft", "write", "writelines", "__setitem__"}


def union(*ts) -> frozenset:
    out = set()
    for t in ts:
        out |= t
    return frozenset(out)


class Hit:
    """A sink reached by a non-empty set of origins."""

    __slots__ = ("kind", "rel", "qual", "node", "arg", "origins", "desc")

    def __init__(self, kind, rel, qual, node, arg, origins, desc=""):
        # node: where it is reported = the base sink, or the outermost call whose argument carried a real source into a
        # parameter that reaches the base sink (derived sink); desc names the base sink
        self.kind, self.rel, self.qual, self.node, self.arg, self.origins, self.desc = kind, rel, qual, node, arg, frozenset(origins), desc

    def ident(self):
        return (self.kind, self.rel, self.qual, id(self.node), self.arg)


class Summary:
    def __init__(self):
        self.ret: frozenset = CLEAN
        self.hits: dict = {}  # ident -> Hit
        self.params: list[str] = []
        self.vararg = None
        self.kwarg = None
        self.discharged: list[tuple[str, str]] = []  # (expr text, reason)


class TaintSpec:
    """Per-rule tables.  Override what the rule needs."""

    name = "taint"
    sanitisers: dict[str, str] = {}
    clean_builtins = CLEAN_BUILTINS

    def param_kind(self, fn, arg: ast.arg, an) -> str | None:
        """'src' | 'param' | None (clean).  Default: self/cls and int/bool/float-annotated parameters are clean, the rest symbolic."""
        if arg.arg in ("self", "cls"):
            return None
        if arg.annotation is not None and annotation_is_nonstr(arg.annotation):
            return None
        return "src" if self.is_entry(fn, an) else "param"

    def is_entry(self, fn, an) -> bool:
        return False

    def sanitiser(self, call: ast.Call, dotted: str, frame) -> str | None:
        """reason if this call yields clean data whatever its operands."""
        return self.sanitisers.get(dotted)

    def clean_attr(self, node: ast.Attribute, frame) -> str | None:
        return None

    def clean_expr(self, node, frame) -> str | None:
        """reason if the expression is clean whatever its parts (rule specific idioms)."""
        return None

    def yield_taint(self, node: ast.Yield, frame) -> frozenset:
        """taint of the value a ``yield`` expression evaluates to (the reply to a command); default clean."""
        return CLEAN

    def self_chain_taint(self, node: ast.Attribute, chain: str, frame) -> frozenset | None:
        """taint of ``self.a.b...`` (two or more attributes); None = default treatment through the class's attribute summary."""
        return None

    def call_result(self, call: ast.Call, dotted: str, frame, operands: frozenset) -> frozenset | None:
        """override the taint of a call's result (e.g. an object of which only some fields are sanitised); None = default."""
        return None

    def on_call(self, call: ast.Call, dotted: str, frame) -> None:
        """sink detection: use frame.taint(expr) and frame.hit(...)"""

    def on_node(self, node, frame) -> None:
        """sink detection on non-call nodes (JoinedStr, BinOp ...)"""

    def on_return(self, stmt: ast.Return, taint: frozenset, frame) -> None:
        """sink detection on returned values"""


def annotation_is_nonstr(a) -> bool:
    """int / bool / float / None and unions of them (PEP 604 or Optional)."""
    if isinstance(a, ast.Constant):
        if a.value is None:
            return True
        if isinstance(a.value, str):
            try:
                return annotation_is_nonstr(ast.parse(a.value, mode="eval").body)
            except SyntaxError:
                return False
        return False
    if isinstance(a, ast.Name):
        return a.id in ("int", "bool", "float", "None")
    if isinstance(a, ast.BinOp) and isinstance(a.op, ast.BitOr):
        return annotation_is_nonstr(a.left) and annotation_is_nonstr(a.right)
    if isinstance(a, ast.Subscript) and attr_chain(a.value).split(".")[-1] == "Optional":
        return annotation_is_nonstr(a.slice)
    return False


# ---------------------------------------------------------------------------------------------------


class Program:
    """All summaries of one rule over the modules it touches."""

    def __init__(self, model, spec: TaintSpec):
        self.model = model
        self.spec = spec
        self.summaries: dict[int, Summary] = {}
        self.in_progress: set[int] = set()
        self.self_attr: dict[tuple[str, str, str], frozenset] = {}  # (rel, class qual, attr) -> taint
        self.self_attr_dirty = False
        self.analysed: list[tuple[str, str]] = []

    # -- name resolution --------------------------------------------------------------------------
    def dotted(self, mod, func, frame=None) -> str:
        """Canonical dotted name of a callee: 'mitmproxy.utils.strutils.escape_control_characters', 'html.escape',
        'builtins.len', 'self.echo', '<mod>.indent' ; '' when the receiver is a value ('.method' is appended: '?.get')."""
        chain = attr_chain(func)
        if not chain:
            if isinstance(func, ast.Attribute):
                return "?." + func.attr
            return ""
        parts = chain.split(".")
        head = parts[0]
        if frame is not None and (head in frame.env or head in frame.locals):
            if head in ("self", "cls") and len(parts) == 2:
                return "self." + parts[1]
            return "?." + parts[-1] if len(parts) > 1 else "?local"
        if head in ("self", "cls"):
            return "self." + ".".join(parts[1:]) if len(parts) == 2 else "?." + parts[-1]
        if mod.get(head) is not None and len(parts) == 1:
            return f"{mod.dotted}.{head}"
        if head in mod.imports:
            return ".".join([mod.imports[head]] + parts[1:])
        if mod.get(head) is not None:
            return f"{mod.dotted}.{chain}"
        if len(parts) == 1 and hasattr(builtins, head):
            return "builtins." + head
        if mod.assigns(head):
            return f"{mod.dotted}.{chain}"
        return "?." + parts[-1] if len(parts) > 1 else "?" + head

    def resolve(self, mod, call: ast.Call, frame):
        """(module, FunctionDef) of a same-module function or a method of the enclosing class (MRO), else None."""
        f = call.func
        if isinstance(f, ast.Name) and f.id not in frame.env and f.id not in frame.locals:
            d = mod.get(f.id)
            if isinstance(d, (ast.FunctionDef, ast.AsyncFunctionDef)):
                return mod, d
            return None
        if isinstance(f, ast.Attribute) and isinstance(f.value, ast.Name) and f.value.id in ("self", "cls") and frame.cls:
            try:
                r = self.model.method(mod.rel, frame.cls, f.attr)
            except AnalysisError:
                r = None
            return r
        return None

    # -- summaries --------------------------------------------------------------------------------
    def summary(self, mod, fn) -> Summary:
        k = id(fn)
        if k in self.summaries:
            return self.summaries[k]
        if k in self.in_progress:  # recursion: everything a parameter carries may come back
            s = Summary()
            a = fn.args
            s.params = [x.arg for x in a.posonlyargs + a.args + a.kwonlyargs]
            s.ret = frozenset(Origin("param", p, p, qual_of(fn), ()) for p in s.params if p not in ("self", "cls"))
            return s
        self.in_progress.add(k)
        try:
            fr = Frame(self, mod, fn)
            s = fr.run()
        finally:
            self.in_progress.discard(k)
        self.summaries[k] = s
        self.analysed.append((mod.rel, qual_of(fn)))
        return s

    def run(self, pairs) -> list[Hit]:
        """Analyse the given (module, function) pairs to a fixpoint over self attributes; return the hits carrying a real source."""
        pairs = list(pairs)
        for round_ in range(6):
            self.summaries.clear()
            self.analysed.clear()
            self.self_attr_dirty = False
            for mod, fn in pairs:
                self.summary(mod, fn)
            if not self.self_attr_dirty:
                break
        else:
            raise AnalysisError(f"{self.spec.name}: self-attribute taint did not stabilise")
        out: dict = {}
        for s in list(self.summaries.values()):
            for h in s.hits.values():
                real = frozenset(o for o in h.origins if o.kind == "src")
                if real:
                    k = h.ident()
                    if k in out:
                        out[k].origins = out[k].origins | real
                    else:
                        out[k] = Hit(h.kind, h.rel, h.qual, h.node, h.arg, real, h.desc)
        return list(out.values())

    def discharged(self) -> list[tuple[str, str]]:
        seen, out = set(), []
        for s in self.summaries.values():
            for d in s.discharged:
                if d not in seen:
                    seen.add(d)
                    out.append(d)
        return out


class Frame:
    """Abstract execution of one function."""

    def __init__(self, prog: Program, mod, fn, env=None):
        self.prog, self.mod, self.fn, self.spec = prog, mod, fn, prog.spec
        self.qual = qual_of(fn)
        self.cls = None
        p = getattr(fn, "_parent", None)
        if isinstance(p, ast.ClassDef):
            self.cls = getattr(p, "_qual", p.name)
        self.env: dict[str, frozenset] = dict(env or {})
        self.locals: set[str] = set()
        self.sum = Summary()
        self.body_taint: frozenset = CLEAN  # join of everything evaluated (for `except ... as e`)

    # -- driver -----------------------------------------------------------------------------------
    def run(self) -> Summary:
        fn, s = self.fn, self.sum
        a = fn.args
        allp = a.posonlyargs + a.args + a.kwonlyargs
        s.params = [x.arg for x in allp]
        s.vararg = a.vararg.arg if a.vararg else None
        s.kwarg = a.kwarg.arg if a.kwarg else None
        for x in allp + ([a.vararg] if a.vararg else []) + ([a.kwarg] if a.kwarg else []):
            k = self.spec.param_kind(fn, x, self)
            self.locals.add(x.arg)
            self.env[x.arg] = frozenset([Origin(k, x.arg, x.arg, self.qual, ())]) if k else CLEAN
        for n in ast.walk(fn):  # every name bound anywhere in the function is a local
            if isinstance(n, ast.Name) and isinstance(n.ctx, (ast.Store, ast.Del)):
                self.locals.add(n.id)
            elif isinstance(n, (ast.FunctionDef, ast.AsyncFunctionDef)) and n is not fn:
                raise AnalysisError(f"{self.mod.rel}::{self.qual}: nested function {n.name!r} is not modelled by the taint engine")
        for d in a.defaults + [d for d in a.kw_defaults if d is not None]:
            self.expr(d)
        self.block(fn.body)
        return s

    # -- recording --------------------------------------------------------------------------------
    def taint(self, e) -> frozenset:
        return self.expr(e, probe=True)

    def hit(self, kind, node, arg_text, origins, desc="", rel=None, qual=None) -> None:
        if not origins:
            return
        h = Hit(kind, rel or self.mod.rel, qual or self.qual, node, arg_text, origins, desc)
        k = h.ident()
        if k in self.sum.hits:
            self.sum.hits[k].origins = self.sum.hits[k].origins | h.origins
        else:
            self.sum.hits[k] = h

    def discharge(self, node, reason) -> None:
        d = (norm(node), reason)
        if d not in self.sum.discharged:
            self.sum.discharged.append(d)

    # -- statements -------------------------------------------------------------------------------
    def join_env(self, envs) -> dict:
        out: dict = {}
        for e in envs:
            for k, v in e.items():
                out[k] = out.get(k, CLEAN) | v
        return out

    def block(self, stmts) -> bool:
        """Execute; returns False when the block always leaves (return / raise / continue / break)."""
        for st in stmts:
            if not self.stmt(st):
                return False
        return True

    def stmt(self, st) -> bool:
        if isinstance(st, ast.Assign):
            v = self.expr(st.value)
            for t in st.targets:
                self.bind(t, v, st.value)
        elif isinstance(st, ast.AnnAssign):
            if st.value is not None:
                self.bind(st.target, self.expr(st.value), st.value)
        elif isinstance(st, ast.AugAssign):
            v = self.expr(st.value)
            self.bind(st.target, self.expr(_load(st.target)) | v, None)
        elif isinstance(st, ast.Expr):
            self.expr(st.value)
        elif isinstance(st, ast.Return):
            if st.value is not None:
                t = self.expr(st.value)
                self.sum.ret = self.sum.ret | t
                self.spec.on_return(st, t, self)
            return False
        elif isinstance(st, ast.Raise):
            if st.exc is not None:
                self.expr(st.exc)
            if st.cause is not None:
                self.expr(st.cause)
            return False
        elif isinstance(st, (ast.Break, ast.Continue)):
            return True  # loop bodies are joined with the pre-state anyway
        elif isinstance(st, ast.If):
            self.expr(st.test)
            pre = dict(self.env)
            a = self.block(st.body)
            ea = self.env
            self.env = dict(pre)
            b = self.block(st.orelse)
            eb = self.env
            live = [e for e, ok in ((ea, a), (eb, b)) if ok]
            self.env = self.join_env(live) if live else self.join_env([ea, eb])
            return a or b
        elif isinstance(st, (ast.For, ast.AsyncFor, ast.While)):
            pre = dict(self.env)
            for _ in range(8):
                before = dict(self.env)
                if isinstance(st, ast.While):
                    self.expr(st.test)
                else:
                    self.bind(st.target, self.expr(st.iter), None)
                self.block(st.body)
                self.env = self.join_env([before, self.env])
                if self.env == before:
                    break
            else:
                raise AnalysisError(f"{self.mod.rel}::{self.qual}: loop taint did not stabilise")
            self.block(st.orelse)
            self.env = self.join_env([pre, self.env])
        elif isinstance(st, (ast.With, ast.AsyncWith)):
            for it in st.items:
                v = self.expr(it.context_expr)
                if it.optional_vars is not None:
                    self.bind(it.optional_vars, v, None)
            return self.block(st.body)
        elif isinstance(st, (ast.Try, getattr(ast, "TryStar", ast.Try))):
            pre = dict(self.env)
            saved, self.body_taint = self.body_taint, CLEAN
            ok = self.block(st.body)
            thrown = self.body_taint
            self.body_taint = saved | thrown
            post = self.env
            outs = []
            if ok:
                self.env = dict(post)
                if self.block(st.orelse):
                    outs.append(self.env)
            for h in st.handlers:
                self.env = self.join_env([pre, post])
                if h.name:
                    self.locals.add(h.name)
                    self.env[h.name] = thrown  # the message of an exception may quote anything the body touched
                if self.block(h.body):
                    outs.append(self.env)
            self.env = self.join_env(outs) if outs else self.join_env([pre, post])
            fin = self.block(st.finalbody)
            return bool(outs) and fin
        elif isinstance(st, ast.Match):
            subj = self.expr(st.subject)
            pre = dict(self.env)
            outs = [pre]
            for c in st.cases:
                self.env = dict(pre)
                for n in ast.walk(c.pattern):
                    nm = getattr(n, "name", None) if isinstance(n, (ast.MatchAs, ast.MatchStar)) else getattr(n, "rest", None) if isinstance(n, ast.MatchMapping) else None
                    if nm:
                        self.locals.add(nm)
                        self.env[nm] = subj
                if c.guard is not None:
                    self.expr(c.guard)
                if self.block(c.body):
                    outs.append(self.env)
            self.env = self.join_env(outs)
        elif isinstance(st, ast.Assert):
            self.expr(st.test)
            if st.msg is not None:
                self.expr(st.msg)
        elif isinstance(st, ast.Delete):
            for t in st.targets:
                if isinstance(t, ast.Name):
                    self.env.pop(t.id, None)
        elif isinstance(st, (ast.Pass, ast.Import, ast.ImportFrom, ast.Global, ast.Nonlocal)):
            pass
        elif isinstance(st, ast.ClassDef):
            raise AnalysisError(f"{self.mod.rel}::{self.qual}: nested class is not modelled by the taint engine")
        else:
            raise AnalysisError(f"{self.mod.rel}::{self.qual}: statement {type(st).__name__} is not modelled by the taint engine")
        return True

    def bind(self, target, v: frozenset, value_node) -> None:
        if isinstance(target, ast.Name):
            if isinstance(value_node, ast.Call) and any(o.via for o in v):
                # a value that came back from a summarised helper: name it after the local it is bound to
                v = frozenset(o._replace(text=target.id, via=o.via + (f"{target.id} = {norm(value_node)[:60]}",)) if o.via else o for o in v)
            self.env[target.id] = v
            self.locals.add(target.id)
        elif isinstance(target, (ast.Tuple, ast.List)):
            if isinstance(value_node, (ast.Tuple, ast.List)) and len(value_node.elts) == len(target.elts) and not any(
                isinstance(x, ast.Starred) for x in list(value_node.elts) + list(target.elts)
            ):
                for t, e in zip(target.elts, value_node.elts):
                    self.bind(t, self.expr(e, probe=True), e)
            else:
                for t in target.elts:
                    self.bind(t, v, None)
        elif isinstance(target, ast.Starred):
            self.bind(target.value, v, None)
        elif isinstance(target, ast.Attribute):
            chain = attr_chain(target)
            if chain.startswith("self.") and chain.count(".") == 1 and self.cls:
                key = (self.mod.rel, self.cls, target.attr)
                w = frozenset(Origin("src", o.root, f"self.{target.attr} <- {o.text}", o.where, o.via) for o in v)
                old = self.prog.self_attr.get(key, CLEAN)
                if not w <= old:
                    self.prog.self_attr[key] = old | w
                    self.prog.self_attr_dirty = True
            else:
                self.weak_update(target.value, v)
        elif isinstance(target, ast.Subscript):
            self.weak_update(target.value, v)
        else:
            raise AnalysisError(f"{self.mod.rel}::{self.qual}: assignment target {type(target).__name__} is not modelled")

    def weak_update(self, recv, v: frozenset) -> None:
        """``recv.append(v)`` / ``recv[k] = v`` / ``recv.a = v``: the local at the root of ``recv`` now also carries v."""
        if not v:
            return
        e = recv
        while isinstance(e, (ast.Attribute, ast.Subscript)):
            e = e.value
        if isinstance(e, ast.Name) and e.id in self.locals and e.id not in ("self", "cls"):
            self.env[e.id] = self.env.get(e.id, CLEAN) | v

    # -- expressions ------------------------------------------------------------------------------
    def expr(self, e, probe=False) -> frozenset:
        """Taint of ``e``.  probe=True: no sink callbacks (used by the callbacks themselves)."""
        t = self._expr(e, probe)
        if not probe:
            self.body_taint = self.body_taint | t
        return t

    def _expr(self, e, probe) -> frozenset:
        if e is None or isinstance(e, (ast.Constant, ast.Slice)):
            if isinstance(e, ast.Slice):
                for x in (e.lower, e.upper, e.step):
                    if x is not None:
                        self.expr(x, probe)
            return CLEAN
        why = self.spec.clean_expr(e, self)
        if why:
            self.discharge(e, why)
            for c in ast.iter_child_nodes(e):
                if isinstance(c, ast.expr):
                    self.expr(c, probe)
            return CLEAN
        if isinstance(e, ast.Name):
            return self.env.get(e.id, CLEAN)
        if isinstance(e, ast.Attribute):
            chain = attr_chain(e)
            if chain.startswith("self.") and chain.count(".") == 1 and self.cls and "self" in self.locals:
                return self.prog.self_attr.get((self.mod.rel, self.cls, e.attr), CLEAN)
            if chain.startswith("self.") and chain.count(".") >= 2 and "self" in self.locals:
                t = self.spec.self_chain_taint(e, chain, self)
                if t is not None:
                    return t
            base = self.expr(e.value, probe)
            if not base:
                return CLEAN
            why = self.spec.clean_attr(e, self)
            if why:
                self.discharge(e, why)
                return CLEAN
            inner, full = norm(e.value), norm(e)
            return frozenset(o._replace(text=full) if o.text == inner else o for o in base)
        if isinstance(e, ast.Subscript):
            self.expr(e.slice, probe)
            base = self.expr(e.value, probe)
            inner, full = norm(e.value), norm(e)
            return frozenset(o._replace(text=full) if o.text == inner else o for o in base)
        if isinstance(e, ast.Call):
            return self.call(e, probe)
        if isinstance(e, ast.JoinedStr):
            t = union(*[self.expr(v, probe) for v in e.values])
            if not probe:
                self.spec.on_node(e, self)
            return t
        if isinstance(e, ast.FormattedValue):
            return self.expr(e.value, probe) | (self.expr(e.format_spec, probe) if e.format_spec is not None else CLEAN)
        if isinstance(e, ast.BinOp):
            t = self.expr(e.left, probe) | self.expr(e.right, probe)
            if not probe:
                self.spec.on_node(e, self)
            return t
        if isinstance(e, ast.BoolOp):
            return union(*[self.expr(v, probe) for v in e.values])
        if isinstance(e, ast.Compare):
            self.expr(e.left, probe)
            for c in e.comparators:
                self.expr(c, probe)
            return CLEAN  # a bool
        if isinstance(e, ast.UnaryOp):
            t = self.expr(e.operand, probe)
            return CLEAN if isinstance(e.op, ast.Not) else t
        if isinstance(e, ast.IfExp):
            self.expr(e.test, probe)
            return self.expr(e.body, probe) | self.expr(e.orelse, probe)
        if isinstance(e, (ast.Tuple, ast.List, ast.Set)):
            return union(*[self.expr(v, probe) for v in e.elts])
        if isinstance(e, ast.Dict):
            return union(*[self.expr(v, probe) for v in list(e.keys) + list(e.values) if v is not None])
        if isinstance(e, ast.Starred):
            return self.expr(e.value, probe)
        if isinstance(e, (ast.ListComp, ast.SetComp, ast.GeneratorExp, ast.DictComp)):
            saved, saved_locals = dict(self.env), set(self.locals)
            for g in e.generators:
                self.bind(g.target, self.expr(g.iter, probe), None)
                for c in g.ifs:
                    self.expr(c, probe)
            if isinstance(e, ast.DictComp):
                t = self.expr(e.key, probe) | self.expr(e.value, probe)
            else:
                t = self.expr(e.elt, probe)
            self.env, self.locals = saved, saved_locals
            return t
        if isinstance(e, (ast.Await, ast.YieldFrom)):
            return self.expr(e.value, probe)
        if isinstance(e, ast.Yield):
            if e.value is not None:
                self.expr(e.value, probe)
            return self.spec.yield_taint(e, self)
        if isinstance(e, ast.NamedExpr):
            t = self.expr(e.value, probe)
            self.bind(e.target, t, e.value)
            return t
        if isinstance(e, ast.Lambda):
            saved = dict(self.env)
            a = e.args
            for x in a.posonlyargs + a.args + a.kwonlyargs + ([a.vararg] if a.vararg else []) + ([a.kwarg] if a.kwarg else []):
                self.env[x.arg] = CLEAN
            t = self.expr(e.body, True)
            self.env = saved
            return t
        # anything else: tainted iff a part is tainted
        return union(*[self.expr(c, probe) for c in ast.iter_child_nodes(e) if isinstance(c, ast.expr)])

    def call(self, c: ast.Call, probe) -> frozenset:
        dotted = self.prog.dotted(self.mod, c.func, self)
        args = [self.expr(a, probe) for a in c.args]
        kws = {(k.arg or "**"): self.expr(k.value, probe) for k in c.keywords}
        recv = CLEAN
        if isinstance(c.func, ast.Attribute):
            recv = self.expr(c.func.value, probe)
        elif not isinstance(c.func, ast.Name):
            recv = self.expr(c.func, probe)
        if not probe:
            self.spec.on_call(c, dotted, self)
        why = self.spec.sanitiser(c, dotted, self)
        if why:
            if union(recv, *args, *kws.values()):
                self.discharge(c, why)
            return CLEAN
        special = self.spec.call_result(c, dotted, self, union(recv, *args, *kws.values()))
        if special is not None:
            return special
        if dotted.startswith("builtins."):
            b = dotted[len("builtins."):]
            if b in self.spec.clean_builtins:
                return CLEAN
            if b == "getattr":  # getattr(obj, name, default)
                return union(args[0] if args else CLEAN, *(args[2:]))
            return union(*args, *kws.values())
        meth = c.func.attr if isinstance(c.func, ast.Attribute) else None
        target = self.prog.resolve(self.mod, c, self)
        if target is not None:
            tm, tf = target
            s = self.prog.summary(tm, tf)
            bound = self.bind_args(s, tf, c, args, kws, is_method=meth is not None)
            out = set()
            for o in s.ret:
                if o.kind == "src":
                    out.add(o)
                else:
                    for a in bound.get(o.root, CLEAN):
                        out.add(a._replace(via=a.via + (f"{qual_of(tf)}: {o.text}",)))
            if not probe:
                for h in s.hits.values():  # derived sinks: a parameter of the callee reaches a sink inside it
                    real, sym = set(), set()
                    for o in h.origins:
                        if o.kind == "param":
                            for a in bound.get(o.root, CLEAN):
                                hop = a._replace(via=a.via + ((f"{qual_of(tf)}: {o.text}",) if o.text != o.root else ()) + o.via)
                                (real if a.kind == "src" else sym).add(hop)
                    callee = norm(c.func)
                    if real:  # reported here: this is where source data enters the sink parameter
                        self.hit(h.kind, c, callee, real, h.desc if h.node is not c else "")
                    if sym:  # this function is a derived sink itself
                        self.hit(h.kind, h.node, h.arg, sym, h.desc, rel=h.rel, qual=h.qual)
            return frozenset(out)
        if meth in LOOKUP_METHODS and c.args:
            return union(recv, *args[1:], *kws.values())
        t = union(recv, *args, *kws.values())
        if meth in MUTATORS or (meth is not None and not recv):
            # an unknown method of a local object may store its operands in it
            self.weak_update(c.func.value, union(*args, *kws.values()))
        return t

    def bind_args(self, s: Summary, fn, c: ast.Call, args, kws, is_method) -> dict:
        params = list(s.params)
        if is_method and params and params[0] in ("self", "cls") and not any(d for d in fn.decorator_list if norm(d) == "staticmethod"):
            params = params[1:]
        elif not is_method and params and params[0] in ("self", "cls"):
            params = params[1:]
        bound: dict = {}
        spill = CLEAN
        i = 0
        for a_node, a in zip(c.args, args):
            if isinstance(a_node, ast.Starred):
                spill = spill | a
                continue
            if i < len(params):
                bound[params[i]] = bound.get(params[i], CLEAN) | a
            elif s.vararg:
                bound[s.vararg] = bound.get(s.vararg, CLEAN) | a
            i += 1
        for k, v in kws.items():
            if k == "**":
                spill = spill | v
            elif k in params:
                bound[k] = bound.get(k, CLEAN) | v
            elif s.kwarg:
                bound[s.kwarg] = bound.get(s.kwarg, CLEAN) | v
        if spill:
            for p in params + [x for x in (s.vararg, s.kwarg) if x]:
                bound[p] = bound.get(p, CLEAN) | spill
        return bound


def _load(target):
    t = ast.parse(ast.unparse(target), mode="eval").body
    return t


def describe(origins, limit=3) -> str:
    """Stable short text naming the tainted expressions (sorted, de-duplicated)."""
    texts = sorted({o.text + ("".join(f" [{v}]" for v in o.via[-1:]) if o.via else "") for o in origins})
    return ", ".join(texts[:limit]) + (" ..." if len(texts) > limit else "")


# ---------------------------------------------------------------------------------------------------
# name typing


class AttrTypes:
    """Declared types of attribute names over the whole package (class-level annotations, annotated ``self.a: T`` in
    methods, ``@property`` return annotations, un-annotated class constants).  ``nonstr(name)`` -> reason | None."""

    NONSTR = {"int", "float", "bool", "None", "complex", "type"}  # `type`: a class object
    # classes outside the repository that are Enums (trusted, listed in the evidence)
    EXTERNAL_ENUMS = {"wsproto.frame_protocol.Opcode", "wsproto.frame_protocol.CloseReason"}

    def __init__(self, model, classes=None):
        """classes: [(Module, ClassDef)] to take declarations from (default: every class of the package)."""
        self.model = model
        self.decl: dict[str, list[tuple[str, str, ast.AST | None, ast.AST | None]]] = {}
        if classes is None:
            classes = [(m, d) for m in model.all_modules() for q, d in m.defs().items() if isinstance(d, ast.ClassDef)]
        self.n_classes = len(classes)
        for m, d in classes:
            q = getattr(d, "_qual", d.name)
            if True:
                annotated = set()
                plain = []
                for st in d.body:
                    if isinstance(st, ast.AnnAssign) and isinstance(st.target, ast.Name):
                        self._add(st.target.id, m, q, st.annotation, st.value)
                        annotated.add(st.target.id)
                    elif isinstance(st, ast.Assign):
                        for t in st.targets:
                            if isinstance(t, ast.Name):
                                plain.append((t.id, st.value))
                    elif isinstance(st, (ast.FunctionDef, ast.AsyncFunctionDef)):
                        decs = [norm(x) for x in st.decorator_list]
                        if any(x in ("property", "functools.cached_property", "cached_property") for x in decs):
                            self._add(st.name, m, q, st.returns, None)
                            annotated.add(st.name)
                        for n in ast.walk(st):
                            if isinstance(n, ast.AnnAssign) and attr_chain(n.target).startswith("self.") and attr_chain(n.target).count(".") == 1:
                                self._add(n.target.attr, m, q, n.annotation, n.value)
                                annotated.add(n.target.attr)
                for name, v in plain:
                    if name not in annotated:
                        self._add(name, m, q, None, v)
                for st in d.body:
                    if isinstance(st, (ast.FunctionDef, ast.AsyncFunctionDef)):
                        for n in ast.walk(st):
                            if isinstance(n, ast.Assign):
                                for t in n.targets:
                                    for tt in t.elts if isinstance(t, (ast.Tuple, ast.List)) else [t]:
                                        ch = attr_chain(tt)
                                        if ch.startswith("self.") and ch.count(".") == 1 and tt.attr not in annotated and not self._inherited(m, q, tt.attr):
                                            self._add(tt.attr, m, q, None, n.value if tt is t else None)

    def _inherited(self, m, q, name) -> bool:
        try:
            for bm, bc in self.model.mro(m.rel, q)[1:]:
                for st in bc.body:
                    if isinstance(st, ast.AnnAssign) and isinstance(st.target, ast.Name) and st.target.id == name:
                        return True
        except (AnalysisError, RecursionError):
            pass
        return False

    def _add(self, name, m, q, ann, value):
        self.decl.setdefault(name, []).append((m.rel, q, ann, value))

    def _ann_ok(self, m, ann, value) -> str | None:
        """kind if the annotation denotes a non-string type, else None."""
        if ann is None:
            if isinstance(value, ast.Constant) and (value.value is None or isinstance(value.value, (int, float, bool))) and not isinstance(value.value, str):
                return "const"
            if isinstance(value, ast.Name):  # self.a = <parameter annotated with a non-string type>
                fn = getattr(value, "_parent", None)
                while fn is not None and not isinstance(fn, (ast.FunctionDef, ast.AsyncFunctionDef)):
                    fn = getattr(fn, "_parent", None)
                if fn is not None:
                    a = fn.args
                    for x in a.posonlyargs + a.args + a.kwonlyargs:
                        if x.arg == value.id and x.annotation is not None:
                            rebound = any(isinstance(n, ast.Name) and n.id == value.id and isinstance(n.ctx, ast.Store) for n in ast.walk(fn))
                            k = self._ann_ok(m, x.annotation, None)
                            if k and not rebound:
                                return "param " + k
            return None
        if isinstance(ann, ast.Constant):
            if ann.value is None:
                return "None"
            if isinstance(ann.value, str):
                try:
                    return self._ann_ok(m, ast.parse(ann.value, mode="eval").body, value)
                except SyntaxError:
                    return None
            return None
        if isinstance(ann, ast.BinOp) and isinstance(ann.op, ast.BitOr):
            a, b = self._ann_ok(m, ann.left, None), self._ann_ok(m, ann.right, None)
            return f"{a}|{b}" if a and b else None
        if isinstance(ann, ast.Subscript):
            head = attr_chain(ann.value).split(".")[-1]
            if head == "Optional":
                return self._ann_ok(m, ann.slice, None)
            if head == "Literal":
                return "Literal"  # a closed set of constants written in the source
            if head == "ClassVar":
                inner = ann.slice
                if isinstance(inner, ast.Name) and inner.id == "str":
                    # a class-level constant: accepted when it is bound to a literal (or only declared, bound in subclasses)
                    if value is None or (isinstance(value, ast.Constant) and isinstance(value.value, str) and value.value.isprintable()):
                        return "ClassVar[str] literal"
                    return None
                return self._ann_ok(m, inner, value)
            return None
        chain = attr_chain(ann)
        if not chain:
            return None
        if chain in self.NONSTR:
            return chain
        r = self.model.resolve_name(m, ann)
        if r is not None and isinstance(r[1], ast.ClassDef):
            rm, rc = r
            names = self.model.base_names(rm.rel, getattr(rc, "_qual", rc.name))
            if any(n.split(".")[-1] in ("Enum", "IntEnum", "Flag", "IntFlag", "StrEnum") for n in names[1:]):
                if any(n.split(".")[-1] == "StrEnum" for n in names[1:]):
                    return None
                return "Enum " + rc.name
            return None
        head = chain.split(".")[0]
        if head in m.imports:
            full = ".".join([m.imports[head]] + chain.split(".")[1:])
            if full in self.EXTERNAL_ENUMS:
                return "Enum " + full
        return None

    def nonstr(self, name: str) -> str | None:
        ds = self.decl.get(name)
        if not ds:
            return None
        kinds = []
        for rel, q, ann, value in ds:
            m = self.model.module(rel)
            k = self._ann_ok(m, ann, value)
            if k is None:
                return None
            kinds.append(f"{q}:{k}")
        return f"every declaration of .{name} in the {self.n_classes} classes considered is non-string ({', '.join(sorted(set(kinds))[:6])})"

    def why_not(self, name: str) -> str:
        ds = self.decl.get(name)
        if not ds:
            return "no declaration found"
        bad = []
        for rel, q, ann, value in ds:
            if self._ann_ok(self.model.module(rel), ann, value) is None:
                bad.append(f"{rel}::{q}.{name}: {norm(ann) if ann is not None else 'unannotated'}")
        return "; ".join(bad[:5])


def annotation_classes(model, mod, ann) -> list:
    """(Module, ClassDef) of every repository class named inside an annotation (unions, subscripts, strings)."""
    out = []
    if ann is None:
        return out
    if isinstance(ann, ast.Constant) and isinstance(ann.value, str):
        try:
            ann = ast.parse(ann.value, mode="eval").body
        except SyntaxError:
            return out

    def visit(e):
        if isinstance(e, (ast.Name, ast.Attribute)):
            r = model.resolve_name(mod, e)
            if r is not None and isinstance(r[1], ast.ClassDef):
                out.append(r)
            return
        if isinstance(e, ast.Constant) and isinstance(e.value, str):
            out.extend(annotation_classes(model, mod, e))
            return
        for c in ast.iter_child_nodes(e):
            visit(c)

    visit(ann)
    return out


def class_closure(model, seeds) -> list:
    """Classes reachable from ``seeds`` [(Module, ClassDef)] through base classes, subclasses (anywhere in the package) and
    the annotations of their attributes / properties / annotated __init__ parameters: the static shape of the object graph
    hanging off a hook argument."""
    all_classes = [(m, d) for m in model.all_modules() for q, d in m.defs().items() if isinstance(d, ast.ClassDef)]
    children: dict[int, list] = {}
    parents: dict[int, list] = {}
    for m, d in all_classes:
        for b in d.bases:
            r = model.resolve_name(m, b)
            if r is not None and isinstance(r[1], ast.ClassDef):
                children.setdefault(id(r[1]), []).append((m, d))
                parents.setdefault(id(d), []).append(r)
    seen: dict[int, tuple] = {}
    work = list(seeds)
    while work:
        m, d = work.pop()
        if id(d) in seen:
            continue
        seen[id(d)] = (m, d)
        work.extend(parents.get(id(d), []))
        work.extend(children.get(id(d), []))
        for n in ast.walk(d):
            ann = None
            if isinstance(n, ast.AnnAssign):
                ann = n.annotation
            elif isinstance(n, (ast.FunctionDef, ast.AsyncFunctionDef)):
                if any(norm(x) in ("property", "functools.cached_property", "cached_property") for x in n.decorator_list):
                    ann = n.returns
                elif n.name == "__init__":
                    for x in n.args.args + n.args.kwonlyargs:
                        work.extend(annotation_classes(model, m, x.annotation))
            work.extend(annotation_classes(model, m, ann))
    return list(seen.values())


# ---------------------------------------------------------------------------------------------------
# constant folding of small table-building expressions (own evaluator over the AST; nothing is executed)


def _fold_int(e, env):
    if isinstance(e, ast.Constant) and isinstance(e.value, int) and not isinstance(e.value, bool):
        return e.value
    if isinstance(e, ast.Constant) and isinstance(e.value, str):
        return e.value
    if isinstance(e, ast.JoinedStr):
        out = ""
        for v in e.values:
            if isinstance(v, ast.Constant):
                out += v.value
            elif isinstance(v, ast.FormattedValue) and v.conversion == -1:
                x = _fold_int(v.value, env)
                spec = _fold_int(v.format_spec, env) if v.format_spec is not None else ""
                out += format(x, spec)
            else:
                raise AnalysisError(f"constant folding: cannot fold {norm(e)}")
        return out
    if isinstance(e, ast.Name) and e.id in env:
        return env[e.id]
    if isinstance(e, ast.Call) and isinstance(e.func, ast.Name) and len(e.args) == 1 and not e.keywords:
        v = _fold_int(e.args[0], env)
        if e.func.id == "ord" and isinstance(v, str) and len(v) == 1:
            return ord(v)
        if e.func.id == "chr" and isinstance(v, int):
            return chr(v)
    if isinstance(e, ast.BinOp) and isinstance(e.op, (ast.Add, ast.Sub)):
        a, b = _fold_int(e.left, env), _fold_int(e.right, env)
        if isinstance(a, int) and isinstance(b, int):
            return a + b if isinstance(e.op, ast.Add) else a - b
    raise AnalysisError(f"constant folding: cannot fold {norm(e)} to a constant")


def _fold_iter(e, env):
    """list of constants an iterable expression denotes."""
    if isinstance(e, ast.Call) and isinstance(e.func, ast.Name) and e.func.id == "range" and not e.keywords and 1 <= len(e.args) <= 3:
        return list(range(*[_fold_int(a, env) for a in e.args]))
    if isinstance(e, ast.Call) and isinstance(e.func, ast.Name) and e.func.id in ("list", "tuple", "set", "sorted") and len(e.args) == 1:
        return _fold_iter(e.args[0], env)
    if isinstance(e, ast.Call) and norm(e.func) in ("itertools.chain", "chain"):
        return [x for a in e.args for x in _fold_iter(a, env)]
    if isinstance(e, (ast.Tuple, ast.List, ast.Set)):
        out = []
        for x in e.elts:
            out += _fold_iter(x.value, env) if isinstance(x, ast.Starred) else [_fold_int(x, env)]
        return out
    if isinstance(e, ast.Constant) and isinstance(e.value, str):
        return list(e.value)
    if isinstance(e, ast.BinOp) and isinstance(e.op, (ast.Add, ast.BitOr)):
        return _fold_iter(e.left, env) + _fold_iter(e.right, env)
    raise AnalysisError(f"constant folding: cannot fold the iterable {norm(e)}")


def _fold_dict(e, tables, env):
    if isinstance(e, ast.DictComp):
        if len(e.generators) != 1 or e.generators[0].ifs or not isinstance(e.generators[0].target, ast.Name):
            raise AnalysisError(f"constant folding: dict comprehension shape not modelled: {norm(e)}")
        g = e.generators[0]
        out = {}
        for x in _fold_iter(g.iter, env):
            env2 = dict(env, **{g.target.id: x})
            out[_fold_int(e.key, env2)] = _fold_int(e.value, env2)
        return out
    if isinstance(e, ast.Dict):
        return {_fold_int(k, env): _fold_int(v, env) for k, v in zip(e.keys, e.values)}
    if isinstance(e, ast.Call) and isinstance(e.func, ast.Attribute) and e.func.attr == "copy" and isinstance(e.func.value, ast.Name) and e.func.value.id in tables:
        return dict(tables[e.func.value.id])
    if isinstance(e, ast.Call) and norm(e.func) in ("dict", "str.maketrans") and len(e.args) == 1 and not e.keywords:
        d = _fold_dict(e.args[0], tables, env)
        return {(ord(k) if isinstance(k, str) else k): (ord(v) if isinstance(v, str) and len(v) == 1 else v) for k, v in d.items()}
    if isinstance(e, ast.Name) and e.id in tables:
        return dict(tables[e.id])
    if isinstance(e, ast.BinOp) and isinstance(e.op, ast.BitOr):
        d = _fold_dict(e.left, tables, env)
        d.update(_fold_dict(e.right, tables, env))
        return d
    raise AnalysisError(f"constant folding: cannot fold the table expression {norm(e)}")


TABLE_MUTATORS = {"update", "pop", "setdefault", "clear", "popitem", "__setitem__", "__delitem__"}


def _writes_table(st, names) -> bool:
    for n in ast.walk(st):
        if isinstance(n, (ast.Assign, ast.AnnAssign, ast.AugAssign, ast.Delete, ast.For)):
            ts = n.targets if isinstance(n, (ast.Assign, ast.Delete)) else [n.target]
            for t in ts:
                for x in ast.walk(t):
                    if isinstance(x, ast.Name) and x.id in names:
                        return True
        elif isinstance(n, ast.Call) and isinstance(n.func, ast.Attribute) and n.func.attr in TABLE_MUTATORS and isinstance(n.func.value, ast.Name) and n.func.value.id in names:
            return True
    return False


def fold_tables(stmts, names, what="module") -> dict:
    """Abstractly execute the statements of ``stmts`` (a module or function body) that build / mutate the dict tables
    ``names``: dict displays and comprehensions over range(), item assignment, update, pop, del, copy, str.maketrans and
    ``for`` loops over constants around them.  Anything else that writes the tables -> AnalysisError."""
    tables: dict = {}

    def exec_stmt(st, env):
        if isinstance(st, ast.Assign) and len(st.targets) == 1:
            t = st.targets[0]
            if isinstance(t, ast.Name) and t.id in names:
                tables[t.id] = _fold_dict(st.value, tables, env)
                return
            if isinstance(t, ast.Subscript) and isinstance(t.value, ast.Name) and t.value.id in tables:
                tables[t.value.id][_fold_int(t.slice, env)] = _fold_int(st.value, env)
                return
        elif isinstance(st, ast.AnnAssign) and isinstance(st.target, ast.Name) and st.target.id in names and st.value is not None:
            tables[st.target.id] = _fold_dict(st.value, tables, env)
            return
        elif isinstance(st, ast.Delete) and all(isinstance(t, ast.Subscript) and isinstance(t.value, ast.Name) and t.value.id in tables for t in st.targets):
            for t in st.targets:
                k = _fold_int(t.slice, env)
                if k not in tables[t.value.id]:
                    raise AnalysisError(f"constant folding: del of a missing key {k!r}")
                del tables[t.value.id][k]
            return
        elif isinstance(st, ast.Expr) and isinstance(st.value, ast.Call) and isinstance(st.value.func, ast.Attribute) and isinstance(st.value.func.value, ast.Name) \
                and st.value.func.value.id in tables:
            c = st.value
            if c.func.attr == "pop" and c.args:
                tables[c.func.value.id].pop(_fold_int(c.args[0], env), None)
                return
            if c.func.attr == "update" and len(c.args) == 1 and not c.keywords:
                tables[c.func.value.id].update(_fold_dict(c.args[0], tables, env))
                return
        elif isinstance(st, ast.For) and isinstance(st.target, ast.Name) and not st.orelse and st.target.id not in names:
            for x in _fold_iter(st.iter, env):
                for b in st.body:
                    if _writes_table(b, names):
                        exec_stmt(b, dict(env, **{st.target.id: x}))
            return
        raise AnalysisError(f"constant folding ({what}): statement writing the tables {sorted(names)} is not modelled: {norm(st)}")

    for st in stmts:
        if isinstance(st, (ast.FunctionDef, ast.AsyncFunctionDef, ast.ClassDef)):
            continue
        if _writes_table(st, names):
            exec_stmt(st, {})
    return tables


# ---------------------------------------------------------------------------------------------------
# positive examples (rules whose expected count on the repository is zero)


class SnippetModule:
    """A stand-alone source text wrapped like model.Module (no imports resolved against the repository)."""

    def __init__(self, rel, source):
        from ..model import Module

        self._m = Module(rel, source)

    def __getattr__(self, k):
        return getattr(self._m, k)


def load_positive(name: str):
    """Parse /verif/mitmlint/positive/<name> (plain text, never imported).  AnalysisError if missing / unparsable."""
    from ..model import Module

    p = Path(VERIF) / "mitmlint" / "positive" / name
    if not p.exists():
        raise AnalysisError(f"positive example file missing: {p}")
    return Module("positive/" + name, p.read_text(encoding="utf-8"))


class SnippetModel:
    """Minimal model for analysing a positive-example module with the taint engine (same-module resolution only)."""

    def __init__(self, mod, real_model=None):
        self.mod = mod
        self.real = real_model

    def module(self, rel):
        if rel == self.mod.rel:
            return self.mod
        if self.real is not None:
            return self.real.module(rel)
        raise AnalysisError(f"snippet model: unknown module {rel}")

    def method(self, rel, cls_qual, name):
        c = self.mod.get(cls_qual)
        if isinstance(c, ast.ClassDef):
            for st in c.body:
                if isinstance(st, (ast.FunctionDef, ast.AsyncFunctionDef)) and st.name == name:
                    return self.mod, st
        return None

    def resolve_name(self, mod, expr):
        if self.real is not None and mod is not self.mod:
            return self.real.resolve_name(mod, expr)
        return None

    def __getattr__(self, k):
        if self.real is None:
            raise AttributeError(k)
        return getattr(self.real, k)


def expected_markers(mod) -> dict[str, list[int]]:
    """Lines of a positive file carrying '# EXPECT: <rule>' (must be reported) ; '# CLEAN: <rule>' (must not)."""
    out: dict[str, list[int]] = {}
    for i, line in enumerate(mod.source.splitlines(), 1):
        for tag in ("EXPECT", "CLEAN"):
            mark = f"# {tag}:"
            if mark in line:
                out.setdefault(tag + ":" + line.split(mark, 1)[1].strip().split()[0], []).append(i)
    return out


# ---------------------------------------------------------------------------------------------------
# sanitiser semantics by interpretation (added for C49 R49.2 / C50 R50.1; nothing above depends on it)

CC_POINTS = frozenset(range(0, 32)) | {127} | frozenset(range(128, 160))
SPACING_POINTS = frozenset({9, 10, 13})


def translation_table_names(mod) -> set:
    """Module-level names that hold a character translation table: assigned from ``str.maketrans(...)`` at module level, plus the module-level
    dict names those statements are built from (``X.copy()``, ``str.maketrans(X)``), transitively."""
    assigned = {}
    for st in mod.tree.body:
        if isinstance(st, ast.Assign):
            for t in st.targets:
                if isinstance(t, ast.Name):
                    assigned.setdefault(t.id, []).append(st.value)
        elif isinstance(st, ast.AnnAssign) and isinstance(st.target, ast.Name) and st.value is not None:
            assigned.setdefault(st.target.id, []).append(st.value)
    names = {n for n, vs in assigned.items() if any(isinstance(v, ast.Call) and norm(v.func) == "str.maketrans" for v in vs)}
    todo = list(names)
    while todo:
        n = todo.pop()
        for v in assigned.get(n, []):
            for x in ast.walk(v):
                if isinstance(x, ast.Name) and x.id in assigned and x.id not in names and any(isinstance(w, (ast.Dict, ast.DictComp)) or (isinstance(w, ast.Call) and isinstance(w.func, ast.Attribute) and w.func.attr == "copy") for w in assigned[x.id]):
                    names.add(x.id)
                    todo.append(x.id)
    return names


def control_character_domain() -> list:
    """Representative inputs for a control-character sanitiser.  The abstract domain is "which classes of characters occur together": clean text,
    C0 controls other than TAB/LF/CR, the spacing controls TAB/LF/CR, DEL, C1 controls.  Every control code point occurs alone, surrounded by
    clean text, and every non-empty combination of the four control classes occurs with clean text around and between its members."""
    import itertools

    out = []
    for cp in sorted(CC_POINTS):
        out.append(chr(cp))
        out.append(f"GET /a{chr(cp)}b é中")
    reps = {"C0": "\x1b\x00\x07", "SP": "\t\r\n", "DEL": "\x7f", "C1": "\x9b\x80\x9f"}
    for r in range(1, 5):
        for combo in itertools.combinations(sorted(reps), r):
            out.append("x" + "y".join(reps[c] for c in combo) + "z")
            out.append("".join(reps[c] for c in reversed(combo)))
    out += ["", "plain text é中\U0001f600", "a" * 200 + "\x9d0;title\x9c"]
    return out


def interpret_sanitiser(model, rel, fname, keep_kw="keep_spacing", trusted=None):
    """Interpret ``rel::fname(text, keep_spacing=<bool>)`` from its AST (pyint) on ``control_character_domain()``.  The module state the function
    reads is built by interpreting the module's own top-level statements (see ``interpret_sanitiser_semantics`` below, to which this delegates).
    -> ({keep: (leaked code points, (input, output) | None)}, {global: dict}); AnalysisError when a construct is outside pyint."""
    return interpret_sanitiser_semantics(model, rel, fname, keep_kw=keep_kw, trusted=trusted)


# ---------------------------------------------------------------------------------------------------
# module initialisation by interpretation (added in the hardening round for C49 R49.2 / C50; nothing above depends on it except
# ``interpret_sanitiser``, which now delegates to it instead of folding table-building statements by shape)


def _stmt_writes(st) -> set:
    """Names a module-level statement may bind or mutate: Store/Del names, the root name of a subscript / attribute store or delete
    (``T[k] = v``, ``del T[k]``, ``T.a = v``), and the root name of the receiver of any method call (``T.update(...)`` - may mutate)."""
    out = set()
    for n in ast.walk(st):
        if isinstance(n, ast.Name) and isinstance(n.ctx, (ast.Store, ast.Del)):
            out.add(n.id)
        elif isinstance(n, (ast.Subscript, ast.Attribute)) and isinstance(n.ctx, (ast.Store, ast.Del)):
            e = n
            while isinstance(e, (ast.Subscript, ast.Attribute)):
                e = e.value
            if isinstance(e, ast.Name):
                out.add(e.id)
        elif isinstance(n, ast.Call) and isinstance(n.func, ast.Attribute):
            e = n.func.value
            while isinstance(e, (ast.Subscript, ast.Attribute)):
                e = e.value
            if isinstance(e, ast.Name):
                out.add(e.id)
    return out


def _names_read(node) -> set:
    return {n.id for n in ast.walk(node) if isinstance(n, ast.Name) and isinstance(n.ctx, ast.Load)}


def module_init_slice(mod, roots) -> list:
    """The module-level statements (in source order) that can influence the value of a module global read - directly, through same-module
    functions, or through other module-level statements - by the functions named in ``roots``.  Imports, function and class definitions
    are not part of the slice (the interpreter resolves them by itself)."""
    stmts = [st for st in mod.tree.body if not isinstance(st, (ast.FunctionDef, ast.AsyncFunctionDef, ast.ClassDef, ast.Import, ast.ImportFrom))
             and not (isinstance(st, ast.Expr) and isinstance(st.value, ast.Constant))]
    writes = {id(st): _stmt_writes(st) for st in stmts}
    needed, seen_fn, chosen = set(), set(), set()
    for r in roots:
        d = mod.get(r)
        if d is not None:
            seen_fn.add(id(d))
            needed |= _names_read(d)
    changed = True
    while changed:
        changed = False
        for nm in list(needed):  # same-module functions / classes reachable by name
            d = mod.get(nm)
            if d is not None and id(d) not in seen_fn:
                seen_fn.add(id(d))
                needed |= _names_read(d)
                changed = True
        for st in stmts:
            if id(st) not in chosen and writes[id(st)] & needed:
                chosen.add(id(st))
                needed |= _names_read(st)
                changed = True
    return [st for st in stmts if id(st) in chosen]


def module_globals_by_interpretation(interp, rel, roots) -> dict:
    """Run ``module_init_slice`` in source order with ``interp`` (pyint) in one global environment and bind every resulting global as
    an override of ``interp`` - the interpreted functions of that module then see the module state CPython would have built at import
    time (dict displays and comprehensions, item assignment and deletion, ``update`` / ``copy``, loops, helper calls, ``str.maketrans``,
    ``dict.fromkeys``, ``re.compile`` ...), whatever statements built it.  -> the global environment.  AnalysisError when a statement
    of the slice is outside the interpreter's subset or raises."""
    from ..pyint import Raised

    mod = interp.model.module(rel)
    genv: dict = {}
    for st in module_init_slice(mod, roots):
        try:
            interp.stmt(st, genv, mod, 0)
        except Raised as r:
            raise AnalysisError(f"{rel}: module-level statement raises {r} in the interpreted model: {norm(st)[:80]}")
        except RecursionError:
            raise AnalysisError(f"{rel}: module-level statement recurses too deeply in the interpreted model: {norm(st)[:80]}")
        for k, v in genv.items():
            if not k.startswith("$"):
                interp.overrides[(rel, k)] = v
    return genv


SANITISER_TRUSTED = ("re", "string", "unicodedata", "itertools", "functools", "operator")


def interpret_sanitiser_semantics(model, rel, fname, keep_kw="keep_spacing", trusted=None, domain=None):
    """Interpret ``rel::fname(text, keep_spacing=<bool>)`` from its AST on ``control_character_domain()``; the module state the function reads is
    built by interpreting the module's own top-level statements (``module_globals_by_interpretation``).  One interpreter per keep value: the
    module is initialised once and the function called once per input, as in a running process.
    -> ({keep: (leaked code points, (input, output) | None)}, {global name: dict} of the dict-valued globals)."""
    import importlib

    from ..pyint import Func
    from ..pyint import Interp
    from ..pyint import NullLog
    from ..pyint import Raised

    class CallbackInterp(Interp):
        """interpreted functions / lambdas handed to a trusted native callable (``re.sub(p, fn, s)``, ``sorted(key=fn)``, ``map``) are wrapped
        into a native callable that interprets them on call."""

        def native_call(self, f, args, kwargs, where):
            def wrap(v):
                if isinstance(v, Func):
                    return lambda *a, **k: self.apply(v, list(a), k, 1)
                return v

            return super().native_call(f, [wrap(a) for a in args], {k: wrap(v) for k, v in kwargs.items()}, where)

    tm = {n: importlib.import_module(n) for n in SANITISER_TRUSTED}  # stdlib only, pure
    tm["logging"] = NullLog()
    tm.update(trusted or {})
    inputs = list(domain) if domain is not None else control_character_domain()
    res, tables = {}, {}
    for keep in (True, False):
        it = CallbackInterp(model, trusted_modules=tm)
        genv = module_globals_by_interpretation(it, rel, [fname])
        tables = {k: v for k, v in genv.items() if isinstance(v, dict)}
        leaked, example = set(), None
        for text in inputs:
            it.steps = 0
            try:
                out = it.call(rel, fname, text, **{keep_kw: keep})
            except Raised as r:
                raise AnalysisError(f"{rel}::{fname} raises {r} on {text[:20]!r} (sanitiser domain)")
            except RecursionError:
                raise AnalysisError(f"{rel}::{fname} recurses too deeply in the interpreted model")
            if not isinstance(out, str):
                raise AnalysisError(f"{rel}::{fname} returns {type(out).__name__}, not str, in the interpreted model")
            bad = {ord(c) for c in out if ord(c) in CC_POINTS and ord(c) not in SPACING_POINTS}  # TAB / LF / CR are allowed by the properties
            if bad and example is None:
                example = (text, out)
            leaked |= bad
        res[keep] = (leaked, example)
    return res, tables


# ---------------------------------------------------------------------------------------------------
# whole-package queries without parsing the whole package (added in the hardening round: ``Model.all_modules`` costs ~4 s; a textual
# necessary condition selects the few modules that can contribute, only those are parsed.  Rules compare the result with the
# ``all_modules`` based computation in the thorough tier.)

import re as _re_mod


def package_sources(model, sub="mitmproxy", exclude=("mitmproxy/contrib/",)) -> dict:
    """rel -> source text of every module ``Model.all_modules`` would return (same listing, same in-memory overrides), unparsed."""
    cache = getattr(model, "_g_sources", None)
    if cache is None:
        cache = {}
        for p in sorted((model.repo / sub).rglob("*.py")):
            rel = p.relative_to(model.repo).as_posix()
            if any(rel.startswith(e) for e in exclude):
                continue
            cache[rel] = model.source(rel)
        try:
            model._g_sources = cache
        except AttributeError:
            pass
    return cache


def modules_where(model, pred) -> list:
    """Parsed modules of the package whose *source text* satisfies ``pred`` (a necessary condition of what the caller looks for)."""
    return [model.module(rel) for rel, src in package_sources(model).items() if pred(src)]


_CLASS_HEADER = _re_mod.compile(r"^[ \t]*class[ \t]+\w+[ \t]*\(((?:[^()]|\([^()]*\))*)\)", _re_mod.M)
_ALIAS = _re_mod.compile(r"\b(\w+)\s+as\s+(\w+)")


def _base_words(src) -> set | None:
    """Identifiers that occur in the base lists of the class statements of ``src`` (aliases ``X as Y`` expanded to X as well);
    None when a class header is not matched by the simple pattern (the module is then always a candidate)."""
    words = set()
    n_headers = len(_re_mod.findall(r"^[ \t]*class[ \t]+\w+[ \t]*\(", src, _re_mod.M))
    found = _CLASS_HEADER.findall(src)
    if len(found) != n_headers:
        return None
    for bases in found:
        words |= set(_re_mod.findall(r"\w+", bases))
    if words:
        for orig, alias in _ALIAS.findall(src):
            if alias in words:
                words.add(orig)
    return words


def class_closure_lazy(model, seeds) -> list:
    """Same result as ``class_closure`` (as a set of classes), but subclasses are looked for only in the modules whose class headers
    mention the name of the class (textual necessary condition), and base classes / annotation classes are resolved on demand."""
    words = {rel: _base_words(src) for rel, src in package_sources(model).items() if "class " in src}
    by_name: dict = {}  # class name -> [(Module, ClassDef)] having a base that resolves to a class of that name (checked below by identity)

    def subclasses_of(d):
        key = d.name
        if key not in by_name:
            out = []
            for rel, w in words.items():
                if w is None or key in w:
                    m = model.module(rel)
                    for q, c in m.defs().items():
                        if isinstance(c, ast.ClassDef):
                            for b in c.bases:
                                r = model.resolve_name(m, b)
                                if r is not None and isinstance(r[1], ast.ClassDef) and r[1].name == key:
                                    out.append((m, c, r[1]))
            by_name[key] = out
        return [(m, c) for m, c, base in by_name[key] if base is d]

    seen: dict = {}
    work = list(seeds)
    while work:
        m, d = work.pop()
        if id(d) in seen:
            continue
        seen[id(d)] = (m, d)
        for b in d.bases:
            r = model.resolve_name(m, b)
            if r is not None and isinstance(r[1], ast.ClassDef):
                work.append(r)
        work.extend(subclasses_of(d))
        for n in ast.walk(d):
            ann = None
            if isinstance(n, ast.AnnAssign):
                ann = n.annotation
            elif isinstance(n, (ast.FunctionDef, ast.AsyncFunctionDef)):
                if any(norm(x) in ("property", "functools.cached_property", "cached_property") for x in n.decorator_list):
                    ann = n.returns
                elif n.name == "__init__":
                    for x in n.args.args + n.args.kwonlyargs:
                        work.extend(annotation_classes(model, m, x.annotation))
            work.extend(annotation_classes(model, m, ann))
    return list(seen.values())
