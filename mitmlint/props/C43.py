"""C43 - the flow view always shows exactly the matching flows in order.

Decided from the source of mitmproxy/addons/view.py:
  R43.1 membership agreement (decision table): every View method that inserts into ``_view`` (today _refilter, add, update;
        private helpers inlined) is evaluated for all 8 combinations of filter(f) x show_marked x f.marked: it inserts only when
        filter(f) and (not show_marked or f.marked), it can insert when that holds, and ``update`` removes the flow from the view
        when it does not hold.  Every writer of ``self.filter`` / ``self.show_marked`` re-filters afterwards; nothing outside
        view.py touches the view's internals.
  R43.2 bookkeeping on all paths: store deletions are followed by sig_store_remove / sig_store_refresh and never leave the flow
        in the view; in ``remove`` the index is taken and the view entry removed *before* the store entry (and its cached order
        key) disappears; every view mutation is followed by the matching sig_view_* signal; Settings drops values on
        sig_store_remove, prunes on sig_store_refresh and only creates values for stored flows; Focus only ever holds a flow of
        the view (guard in the setter, None only when the view is empty, refocus when the focused flow left the view);
        ``update`` refreshes the order key of flows that stay in the view and _OrderKey.refresh re-keys between remove and add.
NOT decided: sortedness itself (sortedcontainers), the order-key functions, behaviour under re-entrant signal handlers.
"""

from __future__ import annotations

import ast
import itertools
import re

from ..core import AnalysisError
from ..core import norm
from ..model import attr_chain
from ..model import call_name
from ..model import eval_order
from ..model import last_attr
from ..model import walk_in_order
from ..paths import C
from ..paths import GenericSpec
from ..paths import index_of
from ..paths import traces_of
from ..selftest import Mutant
from ._helpers_F import attribute_stores
from ._helpers_F import class_members
from ._helpers_F import kwarg
from ._helpers_F import own_nodes
from ._helpers_F import params_of
from ._helpers_F import StrictEngine

PROP = "C43"
REG = {
    "strength": "partial",
    "technique": "decision table over (filter, show_marked, marked) evaluated by path enumeration of every insertion site (helpers inlined); "
    "must-precede / must-follow path rules for store, view, signal, Settings and Focus bookkeeping",
    "claim": "all insertion sites of View (_refilter, add, update) agree with the membership predicate filter(f) and (not show_marked or f.marked), "
    "update evicts flows that stop matching, filter / marked-only changes re-filter; store deletions signal and never leave view entries "
    "behind, view mutations signal, Settings only holds stored flows, Focus only holds a flow of the view.",
    "note": "Loops unrolled once (one flow per call). Trusted: sortedcontainers.SortedListWithKey, signals.SyncSignal (synchronous delivery).",
}

F = "mitmproxy/addons/view.py"
CELLS = list(itertools.product((True, False), repeat=3))  # (filter, show_marked, marked)


def pred(flt, show_marked, marked):
    return flt and (not show_marked or marked)


# ---------------------------------------------------------------------------------------------------
# event alphabet shared by all rules


def classify_call(n: ast.Call):
    name = call_name(n)
    if name in ("self._view.add", "self._view.update", "self._view.insert", "self.view._view.add"):
        return ("insert",)
    if name in ("self._view.remove", "self._view.discard", "self._view.pop", "self.view._view.remove"):
        return ("vremove",)
    if name == "self._view.clear":
        return ("vclear",)
    if name == "self._view.index":
        return ("vindex",)
    if name in ("self._store.pop", "self._store.popitem"):
        return ("storedel",)
    if name == "self._store.clear":
        return ("storedel",)
    if name == "self.order_key.refresh":
        return ("rekey",)
    m = re.fullmatch(r"self\.(?:view\.)?(sig_\w+)\.send", name)
    if m:
        return ("send", m.group(1))
    return None


def membership(expr):
    """('instore'|'inview', positive?) for `x in self._store` / `x not in self._view` (also via self.view.)"""
    if isinstance(expr, ast.Compare) and len(expr.ops) == 1 and isinstance(expr.ops[0], (ast.In, ast.NotIn)):
        ch = attr_chain(expr.comparators[0])
        kind = {"self._store": "instore", "self.view._store": "instore", "self._view": "inview", "self.view._view": "inview"}.get(ch)
        if kind:
            return kind, isinstance(expr.ops[0], ast.In)
    return None


class ViewSpec(GenericSpec):
    """Events: insert / vremove / vclear / vindex / storedel / rekey / ('send', sig) / ('assign', target) / ('del', target);
    conditions: ('instore', v) / ('inview', v) and whatever ``extra_cond`` recognises."""

    def __init__(self, ctx, cls="View", extra_cond=None, inline_private=True):
        super().__init__(record_conds=True)
        self._ctx = ctx
        self._cls = cls
        self._extra = extra_cond
        self._inline_private = inline_private

    def events(self, node, st):
        out = []
        for n in eval_order(node):
            if isinstance(n, ast.Call):
                ev = classify_call(n)
                if ev:
                    out.append(ev)
        if isinstance(node, ast.Assign):
            for t in node.targets:
                v = "None" if isinstance(node.value, ast.Constant) and node.value.value is None else "value"
                out.append(("assign", norm(t), v))
        elif isinstance(node, ast.Delete):
            for t in node.targets:
                if attr_chain(getattr(t, "value", None)) == "self._store":
                    out.append(("storedel",))
                else:
                    out.append(("del", norm(t)))
        elif isinstance(node, ast.Raise):
            out.append(("raise", last_attr(node.exc) if node.exc is not None else ""))
        return out

    def cond_event(self, expr, value, st):
        m = membership(expr)
        if m:
            return (m[0], value if m[1] else not value)
        if self._extra:
            r = self._extra(expr)
            if r:
                return (r[0], value if r[1] else not value)
        return None

    def inline(self, call, st, depth):
        if not self._inline_private:
            return None
        ch = attr_chain(call.func)
        if ch.startswith("self.") and ch.count(".") == 1:
            name = ch.split(".")[1]
            if name.startswith("_") and not name.startswith("__") and self._ctx.model.has(F, f"{self._cls}.{name}"):
                fn = self._ctx.model.module(F).get(f"{self._cls}.{name}")
                if isinstance(fn, ast.FunctionDef):
                    return fn
        return None


class MembershipSpec(ViewSpec):
    """ViewSpec that decides filter(f), self.show_marked and <flow>.marked from the cell in the environment."""

    @staticmethod
    def _is_filter_call(e):
        return isinstance(e, ast.Call) and attr_chain(e.func) == "self.filter" and len(e.args) == 1

    def value(self, expr, st, depth):
        if attr_chain(expr) == "self.show_marked":
            return st.get("$show_marked")
        if isinstance(expr, ast.Attribute) and expr.attr == "marked" and isinstance(expr.value, ast.Name):
            return st.get("$marked")
        if self._is_filter_call(expr):
            return st.get("$filter")
        return super().value(expr, st, depth)

    def decide_extra(self, cond, st, depth):
        if self._is_filter_call(cond):
            return st.get("$filter")[1]
        if isinstance(cond, ast.Call) and isinstance(cond.func, ast.Name) and cond.func.id == "bool" and len(cond.args) == 1:
            return self.truth(cond.args[0], st, depth)
        return None


def fork_ok(expr):
    """conditions the membership rule is indifferent to"""
    return membership(expr) is not None or attr_chain(expr) == "self.focus_follow"


# ---------------------------------------------------------------------------------------------------
# R43.1


def insertion_sites(ctx):
    view = ctx.model.cls(F, "View")
    mem = class_members(view, strict=False)
    helpers = set()
    sites = []
    for name, fn in mem.items():
        if not isinstance(fn, ast.FunctionDef):
            continue
        direct = [c for c in own_nodes(fn) if isinstance(c, ast.Call) and classify_call(c) == ("insert",)]
        if direct and name.startswith("_") and not any(isinstance(x, (ast.If, ast.For, ast.While, ast.Try)) for x in own_nodes(fn)):
            helpers.add(name)  # unconditional insertion helper (today: _base_add)
    for name, fn in mem.items():
        if not isinstance(fn, ast.FunctionDef) or name in helpers:
            continue
        calls = [c for c in own_nodes(fn) if isinstance(c, ast.Call)]
        if any(classify_call(c) == ("insert",) for c in calls) or any(attr_chain(c.func) in {f"self.{h}" for h in helpers} for c in calls):
            sites.append((name, fn))
    return helpers, sites


def check_membership(ctx):
    helpers, sites = insertion_sites(ctx)
    ctx.require(helpers, "View: no unconditional insertion helper (_base_add) found")
    # set_order copies the old view into a re-keyed container: same members, not a membership decision
    copy_sites = []
    real = []
    for name, fn in sites:
        ins = [c for c in own_nodes(fn) if isinstance(c, ast.Call) and classify_call(c) == ("insert",)]
        if ins and all(call_name(c) == "self._view.update" for c in ins):
            copy_sites.append(name)
        else:
            real.append((name, fn))
    ctx.require(not copy_sites, f"View.{copy_sites}: bulk insertion into self._view is not modelled")
    ctx.require(len(real) >= 3, f"View: only {len(real)} insertion sites found ({[n for n, _ in real]}), expected _refilter, add, update")
    for name, fn in real:
        ctx.functions.add(f"{F}::View.{name}")
        bad_in, bad_out, bad_evict = [], [], []
        for flt, sm, mk in CELLS:
            spec = MembershipSpec(ctx)
            eng = StrictEngine(spec, fork_ok, f"View.{name}")
            trs = eng.terminal(fn, {"$filter": C(flt), "$show_marked": C(sm), "$marked": C(mk)})
            ctx.cells += 1
            ctx.paths += len(trs)
            has_ins = any(("insert",) in t for t, _, _ in trs)
            if pred(flt, sm, mk):
                if not has_ins:
                    bad_out.append((flt, sm, mk))
            else:
                if has_ins:
                    bad_in.append((flt, sm, mk))
                elif name == "update" or any(e[0] == "inview" for t, _, _ in trs for e in t):
                    # a site that handles flows already in the view must evict those that stopped matching
                    if not any(("vremove",) in t or ("vclear",) in t for t, _, _ in trs):
                        bad_evict.append((flt, sm, mk))
        fmt = lambda cs: "; ".join(f"filter={a}, show_marked={b}, marked={c}" for a, b, c in cs)
        if bad_in:
            ctx.fail("R43.1", (F, f"View.{name}", fn), f"View.{name} inserts although {fmt(bad_in)}",
                     "this insertion site disagrees with the membership predicate filter(f) and (not show_marked or f.marked): a flow that must be hidden is shown",
                     cells=bad_in)
        if bad_out:
            ctx.fail("R43.1", (F, f"View.{name}", fn), f"View.{name} never inserts for {fmt(bad_out)}",
                     "a flow that satisfies the membership predicate is not added to the view", cells=bad_out)
        if bad_evict:
            ctx.fail("R43.1", (F, f"View.{name}", fn), f"View.{name} never evicts for {fmt(bad_evict)}",
                     "a flow in the view that stopped matching stays visible", cells=bad_evict)
        if not (bad_in or bad_out or bad_evict):
            ctx.ok("R43.1", f"View.{name}: 8 cells agree with filter(f) and (not show_marked or f.marked)")
    # writers of the predicate's inputs re-filter
    view = ctx.model.cls(F, "View")
    for stmt, t in attribute_stores(view, {"show_marked", "filter"}):
        fn = stmt
        while not isinstance(fn, ast.FunctionDef):
            fn = fn._parent
        if fn.name == "__init__":
            continue
        ctx.require(attr_chain(t) in ("self.show_marked", "self.filter"), f"View.{fn.name}: write {norm(t)} not modelled")
        trs, _ = traces_of(fn, GenericSpec(keep=lambda ev: (ev[0] == "assign" and ev[1] in ("self.show_marked", "self.filter")) or ev == ("call", "self._refilter")))
        ctx.paths += len(trs)
        ok = all(index_of(tr, lambda e: e == ("call", "self._refilter"), i + 1) >= 0 for tr, how, _ in trs if how == "return"
                 for i, e in enumerate(tr) if e[0] == "assign")
        ctx.check(ok, "R43.1", (F, f"View.{fn.name}", stmt), f"View.{fn.name}: {norm(t)} = ... without _refilter()",
                  "the membership predicate changes but the view keeps the old members", desc=f"View.{fn.name}: {norm(t)} changed, then _refilter()")
    # nobody else reaches into the view
    pat = re.compile(r"\bshow_marked\s*=[^=]|\._view\b|\.view\._store\b|view\.filter\s*=[^=]")
    for p in sorted((ctx.model.repo / "mitmproxy").rglob("*.py")):
        rel = p.relative_to(ctx.model.repo).as_posix()
        if rel == F or rel.startswith("mitmproxy/contrib/"):
            continue
        if pat.search(ctx.model.source(rel)):
            raise AnalysisError(f"{rel} accesses View internals (_view / _store / show_marked / filter); not modelled")
    ctx.ok("R43.1", "no module other than view.py writes show_marked / filter or touches _view / _store")


# ---------------------------------------------------------------------------------------------------
# R43.2


def run(ctx, qual, spec, allow=lambda e: True):
    fn = ctx.func(F, qual)
    eng = StrictEngine(spec, allow, qual)
    trs = eng.terminal(fn)
    ctx.paths += len(trs)
    return fn, trs


def before(tr, a, b):
    """first a strictly before first b (both present)"""
    ia, ib = index_of(tr, lambda e: e == a), index_of(tr, lambda e: e == b)
    return 0 <= ia < ib


def check_store_and_signals(ctx):
    view = ctx.model.cls(F, "View")
    mem = class_members(view, strict=False)
    n_store = n_view = 0
    for name, fn in mem.items():
        if not isinstance(fn, ast.FunctionDef):
            continue
        direct = []
        for n in own_nodes(fn):
            if isinstance(n, ast.Call) and classify_call(n) in (("insert",), ("vremove",), ("vclear",), ("storedel",)):
                direct.append(classify_call(n)[0])
            elif isinstance(n, ast.Call) and attr_chain(n.func) == "self._base_add":
                direct.append("insert")
            elif isinstance(n, ast.Delete) and any(attr_chain(getattr(t, "value", None)) == "self._store" for t in n.targets):
                direct.append("storedel")
        if not direct or name in ("_base_add", "set_order"):
            continue
        q = f"View.{name}"
        fn, trs = run(ctx, q, ViewSpec(ctx))
        if "storedel" in direct:
            n_store += 1
            bad = None
            for tr, how, _ in trs:
                for i, e in enumerate(tr):
                    if e != ("storedel",):
                        continue
                    if index_of(tr, lambda x: x in (("send", "sig_store_remove"), ("send", "sig_store_refresh")), i + 1) < 0 and how == "return":
                        bad = bad or ("a store deletion is not followed by sig_store_remove / sig_store_refresh: per-flow settings outlive the flow", tr)
                    left_in_view = not (("vclear",) in tr or ("inview", False) in tr or index_of(tr, lambda x: x == ("vremove",)) in range(0, i))
                    if left_in_view:
                        bad = bad or ("the flow is deleted from the store but not (first) removed from the view", tr)
                    if ("inview", True) in tr and ("vremove",) in tr and not before(tr, ("vindex",), ("vremove",)) and ("send", "sig_view_remove") in tr:
                        bad = bad or ("the index reported with sig_view_remove is not taken before the view entry is removed", tr)
            if bad:
                ctx.fail("R43.2", (F, q, fn), f"{q}: store deletion bookkeeping", f"{bad[0]} (path {list(bad[1])})", path=list(bad[1]))
            else:
                ctx.ok("R43.2", f"{q}: store deletion -> view entry gone first, store signal afterwards ({len(trs)} paths)")
        if set(direct) & {"insert", "vremove", "vclear"}:
            n_view += 1
            want = {"insert": ("sig_view_add", "sig_view_refresh"), "vremove": ("sig_view_remove", "sig_view_refresh"), "vclear": ("sig_view_refresh",)}
            bad = None
            for tr, how, _ in trs:
                if how != "return":
                    continue
                for i, e in enumerate(tr):
                    if e[0] in want and index_of(tr, lambda x: x[0] == "send" and x[1] in want[e[0]], i + 1) < 0:
                        bad = bad or (f"{e[0]} is not followed by {' / '.join(want[e[0]])}", tr)
            if bad:
                ctx.fail("R43.2", (F, q, fn), f"{q}: view mutation without notification", f"{bad[0]} (path {list(bad[1])})", path=list(bad[1]))
            else:
                ctx.ok("R43.2", f"{q}: every view mutation is followed by its sig_view_* signal ({len(trs)} paths)")
    ctx.require(ctx.findings or (n_store >= 3 and n_view >= 5), f"View: found {n_store} store-deleting and {n_view} view-mutating methods (expected >= 3 and >= 5)")


def check_settings(ctx):
    init = ctx.func(F, "Settings.__init__")
    conns = {(attr_chain(c.func), attr_chain(c.args[0]) if c.args else "") for c in own_nodes(init) if isinstance(c, ast.Call) and last_attr(c.func) == "connect"}
    for sig, h in (("sig_store_remove", "_sig_store_remove"), ("sig_store_refresh", "_sig_store_refresh")):
        ctx.check((f"view.{sig}.connect", f"self.{h}") in conns, "R43.2", (F, "Settings.__init__", init), f"Settings: {sig} -> {h} not connected",
                  "settings of removed flows are never dropped", desc=f"Settings connects {sig} -> {h}")
    fn, trs = run(ctx, "Settings._sig_store_remove", ViewSpec(ctx, "Settings", lambda e: ("known", True) if membership_values(e) else None),
                  lambda e: membership_values(e))
    ok = any(any(x[0] == "del" and "self._values" in x[1] for x in tr) for tr, _, _ in trs) and all(
        any(x[0] == "del" and "self._values" in x[1] for x in tr) or ("known", False) in tr for tr, _, _ in trs)
    ctx.check(ok, "R43.2", (F, "Settings._sig_store_remove", fn), "Settings._sig_store_remove keeps the values of the removed flow",
              "per-flow settings must exist only for stored flows", desc="Settings._sig_store_remove deletes self._values[flow.id] when present")
    fn, trs = run(ctx, "Settings._sig_store_refresh", ViewSpec(ctx, "Settings"), lambda e: membership(e) is not None)
    ok = all(any(x[0] == "del" and "self._values" in x[1] for x in tr) for tr, _, _ in trs if ("instore", False) in tr) and any(("instore", False) in tr for tr, _, _ in trs)
    ctx.check(ok, "R43.2", (F, "Settings._sig_store_refresh", fn), "Settings._sig_store_refresh keeps values of flows that left the store",
              "per-flow settings must exist only for stored flows", desc="Settings._sig_store_refresh deletes every id that is not in view._store")
    fn, trs = run(ctx, "Settings.__getitem__", ViewSpec(ctx, "Settings"), lambda e: membership(e) is not None)

    class G(ViewSpec):
        def events(self, node, st):
            return [("create",) for n in eval_order(node) if isinstance(n, ast.Call) and last_attr(n.func) in ("setdefault", "__setitem__")] + [
                ("create",) for t in (node.targets if isinstance(node, ast.Assign) else []) if isinstance(t, ast.Subscript) and attr_chain(t.value) == "self._values"]

    fn, trs = run(ctx, "Settings.__getitem__", G(ctx, "Settings"), lambda e: membership(e) is not None)
    ok = any(("create",) in tr for tr, _, _ in trs) and all(before(tr, ("instore", True), ("create",)) for tr, _, _ in trs if ("create",) in tr)
    ctx.check(ok, "R43.2", (F, "Settings.__getitem__", fn), "Settings.__getitem__ creates values without checking the store",
              "settings would be created for flows that are not stored", desc="Settings.__getitem__ creates values only for flows in view._store")


def membership_values(expr):
    return isinstance(expr, ast.Compare) and len(expr.ops) == 1 and isinstance(expr.ops[0], (ast.In, ast.NotIn)) and attr_chain(expr.comparators[0]) == "self._values" \
        and isinstance(expr.ops[0], ast.In)


def focus_cond(expr):
    """classify the conditions used by the Focus handlers -> (kind, positive?)"""
    t = norm(expr)
    table = {
        "len(self.view) == 0": ("empty", True), "len(self.view) != 0": ("empty", False), "len(self.view) > 0": ("empty", False),
        "len(self.view)": ("empty", False), "self.view": ("empty", False),
        "self.flow is None": ("nofocus", True), "self.flow is not None": ("nofocus", False), "self.flow": ("nofocus", False),
        "self.flow not in self.view": ("stale", True), "self.flow in self.view": ("stale", False),
        "flow is self.flow": ("isfocus", True), "self.flow is flow": ("isfocus", True), "flow is not self.flow": ("isfocus", False),
        "f is not None": ("given", True), "f is None": ("given", False), "f not in self.view": ("foreign", True), "f in self.view": ("foreign", False),
    }
    return table.get(t)


def check_focus(ctx):
    focus = ctx.model.cls(F, "Focus")
    init = ctx.func(F, "Focus.__init__")
    conns = {(attr_chain(c.func), attr_chain(c.args[0]) if c.args else "") for c in own_nodes(init) if isinstance(c, ast.Call) and last_attr(c.func) == "connect"}
    for sig in ("sig_view_add", "sig_view_remove", "sig_view_refresh"):
        ctx.check((f"v.{sig}.connect", f"self._{sig}") in conns, "R43.2", (F, "Focus.__init__", init), f"Focus: {sig} not connected",
                  "the focus is not repaired when the view changes", desc=f"Focus connects {sig}")
    # the only writer of _flow is the guarded setter
    setter = ctx.func(F, "Focus.flow")
    ctx.require(any(norm(d) == "flow.setter" for d in setter.decorator_list), "Focus.flow: the last definition is not the setter")
    for stmt, t in attribute_stores(focus, {"_flow"}):
        fn = stmt
        while not isinstance(fn, ast.FunctionDef):
            fn = fn._parent
        if fn is setter:
            continue
        val = getattr(stmt, "value", None)
        ctx.check(fn.name == "__init__" and isinstance(val, ast.Constant) and val.value is None, "R43.2", (F, f"Focus.{fn.name}", stmt), f"Focus.{fn.name} writes {norm(t)} directly",
                  "the focus is set without the `f in view` guard of the setter", desc="Focus.__init__: _flow = None")
    allow = lambda e: focus_cond(e) is not None
    sp = lambda: ViewSpec(ctx, "Focus", focus_cond, inline_private=False)
    fn, trs = run(ctx, "Focus.flow", sp(), allow)
    writes = [tr for tr, _, _ in trs if any(e[0] == "assign" and e[1] == "self._flow" for e in tr)]
    ctx.require(writes, "Focus.flow setter never assigns self._flow (shape not recognised)")
    ok = all(("given", False) in tr or ("foreign", False) in tr for tr in writes)
    for tr, how, _ in trs:
        if ("given", True) in tr and ("foreign", True) in tr and how == "return":
            ok = False
    ctx.check(ok, "R43.2", (F, "Focus.flow", fn), "Focus.flow setter accepts a flow that is not in the view", "the focus must always be a flow of the view",
              desc="Focus.flow setter: raises for a flow outside the view, assigns otherwise")

    def handler(q, must_move):
        fn, trs = run(ctx, q, sp(), allow)
        bad = None
        moved_somewhere = False
        for tr, how, _ in trs:
            assigns = [e for e in tr if e[0] == "assign" and e[1] in ("self.flow", "self.index")]
            moved_somewhere = moved_somewhere or any(a[2] != "None" for a in assigns)
            if any(a[2] == "None" for a in assigns) and ("empty", True) not in tr:
                bad = bad or ("focus is cleared although the view is not known to be empty", tr)
            if ("empty", True) in tr and not any(a[2] == "None" for a in assigns):
                bad = bad or ("focus is kept although the view is empty", tr)
            if must_move(tr) and not any(a[2] != "None" for a in assigns):
                bad = bad or ("focus is not moved to a flow of the view", tr)
        ctx.require(bad or moved_somewhere, f"{q}: no path moves the focus (shape not recognised)")
        ctx.check(not bad, "R43.2", (F, q, fn), f"{q}: {bad[0] if bad else ''}", f"{bad[0] if bad else ''} (path {list(bad[1]) if bad else ''})",
                  desc=f"{q}: None iff view empty, refocus when needed ({len(trs)} paths)")

    handler("Focus._sig_view_remove", lambda tr: ("empty", False) in tr and ("isfocus", True) in tr)
    handler("Focus._sig_view_refresh", lambda tr: ("empty", False) in tr and (("nofocus", True) in tr or ("stale", True) in tr))
    fn, trs = run(ctx, "Focus._sig_view_add", sp(), allow)
    ok = all(any(e[0] == "assign" and e[1] == "self.flow" and e[2] != "None" for e in tr) for tr, _, _ in trs if ("nofocus", True) in tr) and any(("nofocus", True) in tr for tr, _, _ in trs)
    ctx.check(ok, "R43.2", (F, "Focus._sig_view_add", fn), "Focus._sig_view_add leaves the focus empty", "after an addition the view is not empty, so a focus must exist",
              desc="Focus._sig_view_add focuses the new flow when there was no focus")


def check_order_key(ctx):
    # update(): flows that stay in the view get their order key refreshed
    upd = ctx.func(F, "View.update")
    found = bad = 0
    for flt, sm, mk in CELLS:
        if not pred(flt, sm, mk):
            continue
        eng = StrictEngine(MembershipSpec(ctx), fork_ok, "View.update")
        for tr, how, _ in eng.terminal(upd, {"$filter": C(flt), "$show_marked": C(sm), "$marked": C(mk)}):
            if ("instore", True) in tr and ("inview", True) in tr:
                found += 1
                if not (("rekey",) in tr and index_of(tr, lambda e: e == ("send", "sig_view_update")) > index_of(tr, lambda e: e == ("rekey",))):
                    bad += 1
    ctx.require(found, "View.update: no path for a flow that stays in the view")
    ctx.check(not bad, "R43.2", (F, "View.update", upd), "View.update: flow stays in the view without order_key.refresh(f) before sig_view_update",
              "a changed sort key leaves the flow at its old position (and corrupts the sorted container)", desc="View.update: order_key.refresh(f) then sig_view_update for flows that stay")
    # _OrderKey.refresh: remove (old key) -> store new key -> add
    class K(GenericSpec):
        def events(self, node, st):
            out = []
            for n in eval_order(node):
                if isinstance(n, ast.Call) and call_name(n) == "self.view._view.remove":
                    out.append(("remove",))
                elif isinstance(n, ast.Call) and call_name(n) == "self.view._view.add":
                    out.append(("add",))
            if isinstance(node, ast.Assign) and any(isinstance(t, ast.Subscript) and "self.view.settings" in norm(t) for t in node.targets):
                out.append(("store-key",))
            return out

    fn = ctx.func(F, "_OrderKey.refresh")
    trs, _ = traces_of(fn, K())
    ctx.paths += len(trs)
    changed = [tr for tr, _, _ in trs if tr]
    ctx.require(changed, "_OrderKey.refresh: no path re-sorts (shape not recognised)")
    ok = all(tr == (("remove",), ("store-key",), ("add",)) for tr in changed)
    ctx.check(ok, "R43.2", (F, "_OrderKey.refresh", fn), f"_OrderKey.refresh order {[e[0] for e in changed[0]]}",
              "the flow must be removed under its old key, re-keyed, then added: otherwise the sorted container cannot find or misplaces it",
              desc="_OrderKey.refresh: remove -> store new key -> add")


def check(ctx):
    ctx.rule("R43.1", "every insertion site of View agrees with filter(f) and (not show_marked or f.marked) on all 8 combinations; update evicts; "
             "writers of filter / show_marked re-filter")
    ctx.rule("R43.2", "store deletions signal and leave no view entry behind; view mutations signal; Settings holds stored flows only; Focus holds a flow "
             "of the view; order keys are refreshed remove -> re-key -> add")
    check_membership(ctx)
    check_store_and_signals(ctx)
    check_settings(ctx)
    check_focus(ctx)
    check_order_key(ctx)
    ctx.assume("one flow per call (loops unrolled once); signal handlers run synchronously and do not re-enter the view")
    ctx.trust("sortedcontainers.SortedListWithKey keeps its elements sorted by the key it was constructed with")
    if not ctx.findings:
        ctx.expect_instances("R43.1", 3 + 2 + 1)
        ctx.expect_instances("R43.2", 3 + 5 + 5 + 3 + 1 + 1 + 3 + 2)


MUTANTS = [
    Mutant("revert-fix-add-ignores-show-marked", F, "                self._store[f.id] = f\n                if self._in_view(f):", "                self._store[f.id] = f\n                if self.filter(f):", "R43.1"),
    Mutant("revert-fix-update-ignores-show-marked", F, "            if f.id in self._store:\n                if self._in_view(f):\n                    if f not in self._view:",
           "            if f.id in self._store:\n                if self.filter(f):\n                    if f not in self._view:", "R43.1"),
    Mutant("in-view-ignores-marked-mode", F, "        if self.show_marked and not f.marked:\n            return False\n        return bool(self.filter(f))", "        return bool(self.filter(f))", "R43.1"),
    Mutant("in-view-hides-marked", F, "        if self.show_marked and not f.marked:\n            return False", "        if self.show_marked and f.marked:\n            return False", "R43.1"),
    Mutant("refilter-ignores-filter", F, "            if self._in_view(i):\n                self._base_add(i)", "            if not self.show_marked or i.marked:\n                self._base_add(i)", "R43.1"),
    Mutant("toggle-marked-does-not-refilter", F, "        self.show_marked = not self.show_marked\n        self._refilter()", "        self.show_marked = not self.show_marked", "R43.1"),
    Mutant("update-does-not-evict", F, "                    else:\n                        self._view.remove(f)\n                        self.sig_view_remove.send(flow=f, index=idx)", "                    else:\n                        pass", "R43.1"),
    Mutant("remove-deletes-store-entry-first", F,
           "                if f in self._view:\n                    # We manually pass the index here because multiple flows may have the same\n                    # sorting key, and we cannot reconstruct the index from that.\n                    idx = self._view.index(f)\n                    self._view.remove(f)\n                    self.sig_view_remove.send(flow=f, index=idx)\n                del self._store[f.id]\n",
           "                del self._store[f.id]\n                if f in self._view:\n                    idx = self._view.index(f)\n                    self._view.remove(f)\n                    self.sig_view_remove.send(flow=f, index=idx)\n", "R43.2"),
    Mutant("remove-without-store-signal", F, "                del self._store[f.id]\n                self.sig_store_remove.send(flow=f)\n", "                del self._store[f.id]\n", "R43.2"),
    Mutant("remove-keeps-view-entry", F, "                    idx = self._view.index(f)\n                    self._view.remove(f)\n                    self.sig_view_remove.send(flow=f, index=idx)\n                del",
           "                    idx = self._view.index(f)\n                    self.sig_view_remove.send(flow=f, index=idx)\n                del", "R43.2"),
    Mutant("clear-without-view-refresh", F, "        self._view.clear()\n        self.sig_view_refresh.send()\n        self.sig_store_refresh.send()", "        self._view.clear()\n        self.sig_store_refresh.send()", "R43.2"),
    Mutant("add-without-signal", F, "                        self.focus.flow = f\n                    self.sig_view_add.send(flow=f)\n\n    def get_by_id", "                        self.focus.flow = f\n\n    def get_by_id", "R43.2"),
    Mutant("settings-keep-removed-flow", F, "        if flow.id in self._values:\n            del self._values[flow.id]", "        if flow.id in self._values:\n            pass", "R43.2"),
    Mutant("settings-created-for-unknown-flow", F, "        if f.id not in self.view._store:\n            raise KeyError\n        return self._values.setdefault", "        return self._values.setdefault", "R43.2"),
    Mutant("focus-setter-unguarded", F, "        if f is not None and f not in self.view:\n            raise ValueError(\"Attempt to set focus to flow not in view\")\n", "", "R43.2"),
    Mutant("focus-keeps-stale-flow-on-refresh", F, "        elif self.flow not in self.view:\n            self.flow = self.view[self._nearest(self.flow, self.view)]", "        elif self.flow not in self.view:\n            pass", "R43.2"),
    Mutant("focus-not-cleared-when-view-empties", F, "    def _sig_view_remove(self, flow, index):\n        if len(self.view) == 0:\n            self.flow = None\n        elif flow is self.flow:",
           "    def _sig_view_remove(self, flow, index):\n        if flow is self.flow and len(self.view) > 0:", "R43.2"),
    Mutant("update-does-not-refresh-order-key", F, "                        self.order_key.refresh(f)\n", "", "R43.2"),
    Mutant("rekey-before-remove", F, "            self.view._view.remove(f)\n            self.view.settings[f][k] = new\n", "            self.view.settings[f][k] = new\n            self.view._view.remove(f)\n", "R43.2"),
]
