"""C43 - the flow view always shows exactly the matching flows in order.

Decided by INTERPRETING mitmproxy/addons/view.py (View, Focus, Settings, the _OrderKey classes - every helper they call is followed
by the interpreter, whatever its name or shape) in small concrete worlds against a reference written from the property text:
two flows (one under test whose marked / filter-match / sort-size attributes are changed by the environment, one visible bystander),
a scripted model of sortedcontainers.SortedKeyList (entries are filed under the key computed when they were added and are found
again only under the key the key function answers *now*, like the real container) and of signals.SyncSignal (synchronous delivery,
every send recorded together with the view / store state at that moment).  Histories over the public operations
(add, update, remove, clear, clear_not_marked, set_filter, toggle_marked, set_order, set_reversed, Focus.flow = .., settings[..])
are explored breadth first with state de-duplication; after EVERY step the world is compared with the reference:

  R43.1 membership (decision table): after add / update / set_filter / toggle_marked / clear_not_marked the view holds exactly the
        stored flows with filter(f) and (not show_marked or f.marked), each once - all 8 combinations of filter(f) x show_marked x
        f.marked must have been exercised for new flows (add), changed flows (update: entering, staying, evicted) and re-filtering,
        otherwise the run is an ANALYSIS-ERROR.
  R43.2 bookkeeping: remove / clear / set_order / set_reversed leave exactly the expected members (a deleted flow never stays in the
        view, also when its sort key changed since the last update); the public listing view[i] is the container's order (reversed on
        request); per flow the sig_view_add / sig_view_remove(index) / sig_view_update / sig_store_remove notifications are exactly
        those of the change made, each sent after the view / store was changed and with the index the flow had; the refresh signals of
        re-filtering, clearing and reversing are sent; Settings only holds stored flows (and refuses to create values for others);
        the focus is a flow of the view, None only when the view is empty, and the Focus.flow setter refuses flows outside the view;
        update() re-files a flow that stays in the view under its current sort key; no operation raises.
  closure: every function of view.py that writes the tracked state (the view container, the store, show_marked, filter, the focus
        field, the settings values - the private field names are discovered by role from the interpreted constructors) must have been
        executed by the exploration, and functions that were not executed may reach such writers only through the modelled public
        operations; no other module touches the view's internals.
NOT decided: sortedness itself (sortedcontainers), the order-key functions, re-entrant signal handlers, histories with more than two
flows or longer than the exploration bound.
"""

from __future__ import annotations

import ast
import collections
import functools
import itertools
import operator
import re

from ..core import AnalysisError
from ..pyint import ClassRef
from ..pyint import Func
from ..pyint import Interp
from ..pyint import NullLog
from ..pyint import Raised
from ..pyint import Rec
from ..selftest import Mutant
from ._helpers_F import own_nodes

PROP = "C43"
REG = {
    "strength": "partial",
    "technique": "bounded model checking by AST interpretation (pyint): View / Focus / Settings / _OrderKey are interpreted in concrete "
    "two-flow worlds against scripted models of sortedcontainers.SortedKeyList and signals.SyncSignal; histories of the public operations "
    "are explored breadth first with state de-duplication and every step is compared with a reference written from the property text "
    "(decision table filter x show_marked x marked, signals, focus, settings); static closure over all writers of the tracked state",
    "claim": "every operation that can insert into the view (add, update, re-filtering) agrees with the membership predicate filter(f) and "
    "(not show_marked or f.marked) on all 8 combinations, update evicts flows that stop matching, filter / marked-only changes re-filter; "
    "store deletions signal and never leave view entries behind (also after a sort-key change), per-flow notifications match the changes and "
    "are sent after them, Settings only holds stored flows, Focus only holds a flow of the view, update re-files flows under their current key.",
    "note": "Worlds of two flows, histories up to the exploration bound (state classes de-duplicated). Trusted: sortedcontainers.SortedKeyList "
    "(modelled: entries found by the key function's current answer), signals.SyncSignal (synchronous delivery in connection order).",
}

F = "mitmproxy/addons/view.py"
FLOWFILTER = "mitmproxy/flowfilter.py"
FLOW_SIGNALS = ("sig_view_add", "sig_view_remove", "sig_view_update", "sig_store_remove")
MUTATING_METHODS = {"add", "remove", "clear", "update", "discard", "pop", "popitem", "insert", "append", "extend", "setdefault",
                    "__setitem__", "__delitem__", "move_to_end", "sort", "reverse"}


def pred(flt, show_marked, marked):
    return bool(flt) and (not show_marked or bool(marked))


# ---------------------------------------------------------------------------------------------------
# trusted library models


def _accepts(fn):
    fn._pyint_accepts_abstract = True
    fn._c43_model = True
    return fn


class _Model:
    """base of the scripted library objects: anything that is not modelled is an ANALYSIS-ERROR, never a guess"""

    _pyint_accepts_abstract = True
    _what = "library model"

    def __getattr__(self, name):
        if name.startswith("__") and name.endswith("__"):
            raise AttributeError(name)
        raise AnalysisError(f"C43 {self._what}: attribute '{name}' is not modelled")


class _SortedKeyList(_Model):
    """sortedcontainers.SortedKeyList: (key, value) pairs sorted by the key computed when the value was added; lookups compute the key
    of the probe value *now* and compare values only among the entries filed under an equal key."""

    _what = "sortedcontainers.SortedKeyList model"

    def __init__(self, world, iterable=None, key=None):
        self.world = world
        self.key = key
        self.items: list = []
        world.models.append(self)
        if key is None:
            raise AnalysisError("C43 sortedcontainers model: a sorted list without key function is not modelled")
        if iterable is not None:
            self.update(iterable)

    def _k(self, v):
        return self.world.interp.apply(self.key, [v], {}, 0)

    def _find(self, v):
        k = self._k(v)
        for i, (kk, vv) in enumerate(self.items):
            if kk == k and vv is v:
                return i
        return -1

    def add(self, v):
        k = self._k(v)
        i = len(self.items)
        try:
            while i > 0 and self.items[i - 1][0] > k:
                i -= 1
        except TypeError:
            raise AnalysisError("C43 sortedcontainers model: incomparable sort keys in the abstract world")
        self.items.insert(i, (k, v))
        self.world.mut_log.append(("add", v, i))

    def update(self, iterable):
        for v in list(iterable):
            self.add(v)

    def __contains__(self, v):
        return self._find(v) >= 0

    def index(self, v, start=None, stop=None):
        i = self._find(v)
        n = len(self.items)
        lo = 0 if start is None else (start + n if start < 0 else start)
        hi = n if stop is None else (stop + n if stop < 0 else stop)
        if i < 0 or not (lo <= i < hi):
            raise Raised("ValueError", f"{v!r} is not in list")
        return i

    def count(self, v):
        return 1 if self._find(v) >= 0 else 0

    def remove(self, v):
        i = self._find(v)
        if i < 0:
            raise Raised("ValueError", f"{v!r} not in list")
        del self.items[i]
        self.world.mut_log.append(("remove", v, i))

    def discard(self, v):
        i = self._find(v)
        if i >= 0:
            del self.items[i]
            self.world.mut_log.append(("remove", v, i))

    def pop(self, index=-1):
        try:
            k, v = self.items[index]
        except IndexError:
            raise Raised("IndexError", "pop index out of range")
        i = index if index >= 0 else len(self.items) + index
        del self.items[i]
        self.world.mut_log.append(("remove", v, i))
        return v

    def __delitem__(self, index):
        if not isinstance(index, int):
            raise AnalysisError("C43 sortedcontainers model: slice deletion is not modelled")
        self.pop(index)

    def clear(self):
        for i, (_, v) in enumerate(self.items):
            self.world.mut_log.append(("remove", v, i))
        self.items.clear()

    def __len__(self):
        return len(self.items)

    def __bool__(self):
        return bool(self.items)

    def __getitem__(self, i):
        if isinstance(i, slice):
            return [v for _, v in self.items[i]]
        return self.items[i][1]

    def __iter__(self):
        return iter([v for _, v in self.items])

    def __reversed__(self):
        return iter([v for _, v in reversed(self.items)])

    def copy(self):
        c = _SortedKeyList(self.world, key=self.key)
        c.items = list(self.items)
        return c

    def bisect_right(self, v):
        k = self._k(v)
        i = 0
        while i < len(self.items) and self.items[i][0] <= k:
            i += 1
        return i

    bisect = bisect_right

    def bisect_left(self, v):
        k = self._k(v)
        i = 0
        while i < len(self.items) and self.items[i][0] < k:
            i += 1
        return i


class _Signal(_Model):
    """signals.SyncSignal: receivers are called synchronously in connection order; every send is recorded with the state it saw"""

    _what = "signals.SyncSignal model"

    def __init__(self, world, spec=None):
        self.world = world
        self.spec = spec
        self.name = None
        self.receivers: list = []
        world.models.append(self)

    def connect(self, receiver):
        self.receivers.append(receiver)
        return receiver

    def disconnect(self, receiver):
        self.receivers[:] = [r for r in self.receivers if r is not receiver]

    def send(self, *args, **kwargs):
        named = dict(kwargs)
        node = getattr(self.spec, "node", None)
        if args:
            params = [a.arg for a in node.args.posonlyargs + node.args.args] if node is not None else []
            if len(args) > len(params):
                raise AnalysisError(f"C43 signal model: positional arguments of {self.name}.send(...) do not fit the signal's signature")
            named.update(zip(params, args))
        self.world.sig_log.append((self.name, named, self.world.facts()))
        for r in list(self.receivers):
            self.world.interp.apply(r, list(args), dict(kwargs), 0)


class _NS(_Model):
    _what = "library namespace model"

    def __init__(self, what, **kw):
        self.__dict__["_what"] = what
        self.__dict__.update(kw)


# ---------------------------------------------------------------------------------------------------
# interpreter


class ViewInterp(Interp):
    """pyint + the container protocol of records bound to repository classes (x[i], len(x), y in x, truthiness, iteration go to the
    class's dunder methods), a no-op super().__init__ for non-repository bases, and a record of every function that was entered."""

    def __init__(self, *a, **k):
        super().__init__(*a, **k)
        self.entered: set = set()
        self._dunder: dict = {}
        self._props: dict = {}
        self._globals: dict = {}

    def dunder(self, v, name):
        if isinstance(v, Rec) and v._impl is not None:
            key = (v._impl, name)
            if key not in self._dunder:
                self._dunder[key] = self.model.method(v._impl[0], v._impl[1], name)
            m = self._dunder[key]
            if m is not None:
                return Func(m[0], m[1], bound=v)
        return None

    def call_func(self, f, args, kwargs, depth):
        self.entered.add(f.node)
        return super().call_func(f, args, kwargs, depth)

    def truthy(self, v):
        if isinstance(v, Rec) and v._impl is not None:
            m = self.dunder(v, "__bool__") or self.dunder(v, "__len__")
            if m is not None:
                return bool(self.apply(m, [], {}, 0))
        return super().truthy(v)

    def find_property(self, rec, attr, kind="getter"):
        if rec._impl is None:
            return None
        key = (rec._impl, attr, kind)
        if key not in self._props:
            self._props[key] = super().find_property(rec, attr, kind)
        return self._props[key]

    def name(self, ident, env, mod, depth, node):
        if ident in env:
            return env[ident]
        if "$closure" in env:
            return super().name(ident, env, mod, depth, node)
        key = (mod.rel, ident)  # module level: definitions, imports, constants, builtins - the same answer for the whole run
        if key not in self._globals:
            self._globals[key] = super().name(ident, env, mod, depth, node)
        return self._globals[key]

    def ev(self, e, env, mod, depth):
        t = type(e)
        if t is ast.Name:
            return self.name(e.id, env, mod, depth, e)
        if t is ast.Constant:
            return e.value
        if t is ast.Attribute:
            return self.getattr(self.ev(e.value, env, mod, depth), e.attr, e, depth)
        if t is ast.Call:
            self.tick()
            return self.ev_call(e, env, mod, depth)
        if t is ast.Subscript:
            base = self.ev(e.value, env, mod, depth)
            idx = self.ev(e.slice, env, mod, depth)
            m = self.dunder(base, "__getitem__")
            if m is not None:
                return self.apply(m, [idx], {}, depth, e)
            return super().ev(ast.Subscript(value=ast.Name(id="$base"), slice=ast.Name(id="$idx")), {"$base": base, "$idx": idx}, mod, depth)
        return super().ev(e, env, mod, depth)

    def cmp(self, op, a, b, node):
        if isinstance(op, (ast.In, ast.NotIn)):
            m = self.dunder(b, "__contains__")
            if m is not None:
                r = self.truthy(self.apply(m, [a], {}, 0, node))
                return r if isinstance(op, ast.In) else not r
            if isinstance(b, Rec) and b._impl is not None and self.dunder(b, "__getitem__") is not None:
                r = any(x is a or x == a for x in self.iterate(b, node))
                return r if isinstance(op, ast.In) else not r
        return super().cmp(op, a, b, node)

    def iterate(self, v, node):
        if isinstance(v, Rec) and v._impl is not None:
            m = self.dunder(v, "__iter__")
            if m is not None:
                return self.iterate(self.apply(m, [], {}, 0), node)
            ln, gi = self.dunder(v, "__len__"), self.dunder(v, "__getitem__")
            if ln is not None and gi is not None:
                return [self.apply(gi, [i], {}, 0) for i in range(self.apply(ln, [], {}, 0))]
        if isinstance(v, _SortedKeyList) or type(v).__name__ in ("odict_values", "odict_keys", "odict_items", "dict_keyiterator", "dict_valueiterator", "dict_itemiterator", "list_iterator", "odict_iterator"):
            return list(v)
        return super().iterate(v, node)

    def native_call(self, f, args, kwargs, where):
        if f is len and len(args) == 1:
            m = self.dunder(args[0], "__len__")
            if m is not None:
                return self.apply(m, [], {}, 0)
        if f in (list, tuple) and len(args) == 1 and isinstance(args[0], Rec):
            return f(self.iterate(args[0], None))
        if isinstance(getattr(f, "__self__", None), _Model) or getattr(f, "_c43_model", False):
            try:
                return f(*args, **kwargs)
            except (AnalysisError, Raised):
                raise  # the models raise the library's exceptions as interpreted exceptions themselves
            except Exception as e:
                raise AnalysisError(f"C43 world model: {type(e).__name__}: {e} at {where} (call does not fit the modelled library)")
        return super().native_call(f, args, kwargs, where)

    def getattr(self, base, attr, node, depth):
        if isinstance(base, tuple) and base and base[0] == "$super" and attr == "__init__":
            try:
                return super().getattr(base, attr, node, depth)
            except AnalysisError:
                return _accepts(lambda *a, **k: None)  # object.__init__ / collections.abc mixins: nothing to initialise
        if isinstance(base, tuple) and base and base[0] == "$module":
            try:
                return super().getattr(base, attr, node, depth)
            except AnalysisError:
                sub = self.model.module_by_dotted(f"{base[1].dotted}.{attr}")  # `import pkg.mod` spelled pkg.mod.Name
                if sub is None:
                    raise
                return ("$module", sub)
        return super().getattr(base, attr, node, depth)


# ---------------------------------------------------------------------------------------------------
# the world: one interpreted View with two flows, observed through roles


class SetupViolation(Exception):
    """the very first steps (field discovery on a new view) already contradict the reference"""

    def __init__(self, rule, op, clause, detail, history):
        super().__init__(detail)
        self.args5 = (rule, op, clause, detail, history)


class Ref:
    """reference state, written from the property text"""

    def __init__(self):
        self.store: list = []  # names of stored flows
        self.shown: set = set()  # names of the flows the view must hold
        self.show_marked = False
        self.filter = "all"  # 'all' | 'attr' (the stub filter answers f.matches)
        self.reversed = False

    def copy(self):
        r = Ref()
        r.store, r.shown, r.show_marked, r.filter, r.reversed = list(self.store), set(self.shown), self.show_marked, self.filter, self.reversed
        return r


class World:
    def __init__(self, model):
        self.model = model
        self.mod = model.module(F)
        self.models: list = []
        self.sig_log: list = []
        self.mut_log: list = []
        self.history: list = []
        self.ref = Ref()
        self.names: dict = {}
        it = ViewInterp(
            model,
            trusted_modules={
                "collections": collections,
                "logging": NullLog(),
                "re": re,
                "itertools": itertools,
                "functools": functools,
                "operator": operator,
                "sortedcontainers": _NS(
                    "sortedcontainers model",
                    SortedListWithKey=_accepts(lambda iterable=None, key=None: _SortedKeyList(self, iterable, key)),
                    SortedKeyList=_accepts(lambda iterable=None, key=None: _SortedKeyList(self, iterable, key)),
                    SortedList=_accepts(lambda iterable=None, key=None: _SortedKeyList(self, iterable, key)),
                ),
            },
            externals={"id": id, "hash": hash},  # identity of records: stable for the whole run
            max_steps=50_000_000,
        )
        self.interp = it
        sig_ns = _NS("mitmproxy.utils.signals model", SyncSignal=_accepts(lambda spec=None: _Signal(self, spec)))
        for local, target in self.mod.imports.items():
            if target == "mitmproxy.utils.signals":
                it.overrides[(F, local)] = sig_ns
            elif target == "mitmproxy.utils.signals.SyncSignal":
                it.overrides[(F, local)] = sig_ns.SyncSignal
            elif target.startswith("mitmproxy.utils.signals."):
                raise AnalysisError(f"view.py imports {target}: only SyncSignal is modelled")
            elif target == "mitmproxy.ctx":
                # the option store seen by View.configure (only used to switch focus-follow on)
                it.overrides[(F, local)] = _NS("mitmproxy.ctx model", options=_NS("ctx.options model", console_focus_follow=True))
        # flowfilter.match_all is `parse("~all")`: the filter that matches every flow (the filter language itself is C42's subject)
        self.match_all = _accepts(lambda f: True)
        it.overrides[(FLOWFILTER, "match_all")] = self.match_all
        it._modconst[(FLOWFILTER, "match_all")] = self.match_all
        self.attr_filter = _accepts(lambda f: f.matches)
        self.flows = {"f1": self._flow("f1", 1, matches=True, marked=""), "f2": self._flow("f2", 2, matches=True, marked=":default:")}
        self.view = it.apply(ClassRef(self.mod, model.cls(F, "View")), [], {}, 0)
        self._discover()

    # -- construction ----------------------------------------------------------------------------
    @staticmethod
    def _flow(name, n, matches, marked):
        req = Rec("Request", _name=f"{name}.request", raw_content=b"x" * n, method="GET", url=f"http://h/{name}", timestamp_start=float(n))
        return Rec("HTTPFlow", _bases=("Flow",), _name=name, id=f"id-{name}", marked=marked, matches=matches, killable=False, type="http",
                   timestamp_created=float(n), request=req, response=None, error=None, intercepted=False, live=False)

    def _discover(self):
        """private field names by role"""
        v = self.view
        if not isinstance(v, Rec):
            raise AnalysisError("View() did not produce a record")
        views = [k for k, x in v.__dict__.items() if isinstance(x, _SortedKeyList)]
        if len(views) != 1:
            raise AnalysisError(f"View.__init__: expected exactly one sorted container field, found {views}")
        self.names["view"] = views[0]
        for k, x in v.__dict__.items():
            if isinstance(x, _Signal):
                x.name = k
        for want in FLOW_SIGNALS + ("sig_view_refresh", "sig_store_refresh"):
            if not isinstance(v.__dict__.get(want), _Signal):
                raise AnalysisError(f"View.__init__ does not create the signal {want}")
        for k in ("focus", "settings"):
            if not (isinstance(v.__dict__.get(k), Rec) and v.__dict__[k]._impl is not None):
                raise AnalysisError(f"View.__init__ does not create View.{k} from a class of view.py")
        for k, x in v.focus.__dict__.items():
            if isinstance(x, _Signal):
                x.name = "focus." + k
        # the store: the mapping that holds a flow's id after add(); the settings values: the mapping that gains the id on settings[f];
        # the focus field: what the Focus.flow setter changes.  Discovered on a scratch history that is undone afterwards.
        snap = self.snapshot()
        f = self.flows["f2"]
        before = {k: dict(x) for k, x in v.__dict__.items() if isinstance(x, dict)}
        try:
            self.interp.method(v, "add", [f])
        except Raised as r:
            raise SetupViolation("R43.2", api("add", "f2"), "raises", f"add([f2]) on a new view raises {r.name}", ["add([f2])"])
        stores = [k for k, x in v.__dict__.items() if isinstance(x, dict) and f.id in x and f.id not in before.get(k, {})]
        if len(stores) != 1:
            raise AnalysisError(f"View.add: expected exactly one mapping field to gain the flow's id, found {stores}")
        self.names["store"] = stores[0]
        if [x for _, x in self.container().items] != [f]:
            raise SetupViolation("R43.1", api("add", "f2"), "view membership disagrees with filter(f) and (not show_marked or f.marked) over the stored flows",
                                 f"a new unfiltered view holds {[self.name_of(x) for _, x in self.container().items]} after add([f2])", ["add([f2])"])
        try:
            self.lookup_settings(f)
        except Raised as r:
            raise SetupViolation("R43.2", ("probe", "settings", ("f2",)), "Settings has no values for a stored flow", f"raised {r.name}", ["add([f2])", "settings[f2]"])
        vals = [k for k, x in v.settings.__dict__.items() if isinstance(x, dict) and isinstance(x.get(f.id), dict)]
        if len(vals) != 1:
            raise AnalysisError(f"Settings: expected exactly one mapping field keyed by flow id, found {vals}")
        self.names["values"] = vals[0]
        try:
            self.set_focus(f)
        except Raised as r:
            raise SetupViolation("R43.2", ("probe", "focus", ("f2",)), "Focus.flow setter refuses a flow of the view", f"raised {r.name}", ["add([f2])", "focus.flow = f2"])
        held = {k for k, x in v.focus.__dict__.items() if x is f}
        try:
            self.set_focus(None)
        except Raised as r:
            raise AnalysisError(f"Focus.flow = None raises {r.name}: the focus field cannot be discovered")
        fields = sorted(k for k in held if v.focus.__dict__.get(k) is None)
        if len(fields) != 1:
            raise AnalysisError(f"Focus.flow setter: expected exactly one backing field, found {fields}")
        self.names["focus"] = fields[0]
        self.restore(snap)

    # -- roles -----------------------------------------------------------------------------------
    def container(self) -> _SortedKeyList:
        c = self.view.__dict__.get(self.names["view"])
        if not isinstance(c, _SortedKeyList):
            raise AnalysisError(f"View.{self.names['view']} no longer holds a sorted container")
        return c

    def store(self):
        s = self.view.__dict__.get(self.names["store"])
        if not isinstance(s, dict):
            raise AnalysisError(f"View.{self.names['store']} no longer holds a mapping")
        return s

    def name_of(self, x):
        for n, f in self.flows.items():
            if f is x:
                return n
        return None if x is None else f"<{x!r}>"

    def filed(self):
        return [(k, self.name_of(v)) for k, v in self.container().items]

    def facts(self):
        """what a signal receiver can see at the moment of a send"""
        last_removed = {}
        for kind, v, i in self.mut_log:
            if kind == "remove":
                last_removed[self.name_of(v)] = i
            elif kind == "add":
                last_removed.pop(self.name_of(v), None)
        if "store" not in self.names:
            return {}  # (field discovery in progress)
        return {"filed": [n for _, n in self.filed()], "store": list(self.store().keys()), "removed_at": last_removed}

    def focus_flow(self):
        return self.interp.getattr(self.view.focus, "flow", None, 0)

    def set_focus(self, f):
        self.interp.assign(ast.Attribute(value=ast.Name(id="$o"), attr="flow"), f, {"$o": self.view.focus}, self.mod, 0)

    def lookup_settings(self, f):
        return self.interp.ev(ast.Subscript(value=ast.Name(id="$s"), slice=ast.Name(id="$f")), {"$s": self.view.settings, "$f": f}, self.mod, 0)

    def settings_keys(self):
        return list(self.interp.iterate(self.view.settings, None))

    def listing(self):
        return [self.name_of(x) for x in self.interp.iterate(self.view, None)]

    def live_key(self, f):
        """the sort key the current order gives the flow *now*: the answer of the container's key function for an identical flow that is not
        stored (no cached value can exist for it)"""
        twin = Rec(f._cls, _bases=f._bases, _name=f._name + "'", **{k: v for k, v in f.__dict__.items() if not k.startswith("_")})
        object.__setattr__(twin, "id", "id-twin")
        try:
            return self.interp.apply(self.container().key, [twin], {}, 0)
        except Raised as r:
            raise AnalysisError(f"the view's key function raises {r.name} for a flow that is not stored: the current sort key cannot be determined")

    # -- snapshot / restore (identity preserving) --------------------------------------------------
    def snapshot(self):
        objs, seen, todo = [], set(), [self.view, *self.flows.values()]
        while todo:
            v = todo.pop()
            if id(v) in seen or v is None or isinstance(v, (str, bytes, int, float, bool)):
                continue
            if isinstance(v, Rec):
                seen.add(id(v))
                d = dict(v.__dict__)
                objs.append((v, d))
                todo.extend(d.values())
            elif isinstance(v, dict):
                seen.add(id(v))
                objs.append((v, list(v.items())))
                todo.extend(v.values())
            elif isinstance(v, list):
                seen.add(id(v))
                objs.append((v, list(v)))
                todo.extend(v)
            elif isinstance(v, (tuple, set, frozenset)):
                todo.extend(v)
            elif isinstance(v, _SortedKeyList):
                seen.add(id(v))
                objs.append((v, list(v.items)))
                todo.append(v.key)
                todo.extend(x for _, x in v.items)
            elif isinstance(v, _Signal):
                seen.add(id(v))
                objs.append((v, list(v.receivers)))
                todo.extend(v.receivers)
            elif isinstance(v, Func):
                todo.append(v.bound)
        return objs, self.ref.copy(), list(self.history)

    def restore(self, snap):
        objs, ref, hist = snap
        for obj, saved in objs:
            if isinstance(obj, Rec):
                obj.__dict__.clear()
                obj.__dict__.update(saved)
            elif isinstance(obj, dict):
                obj.clear()
                obj.update(saved)
            elif isinstance(obj, list):
                obj[:] = saved
            elif isinstance(obj, _SortedKeyList):
                obj.items[:] = saved
            elif isinstance(obj, _Signal):
                obj.receivers[:] = saved
        self.ref, self.history = ref.copy(), list(hist)

    # -- state class for de-duplication ------------------------------------------------------------
    def state_class(self):
        """(coarse, fine): everything the operations can depend on; the coarse class leaves out the marked / filter-match attributes of the flows"""
        st = self.store()
        vals = self.view.settings.__dict__.get(self.names["values"], {})
        per, attrs = [], []
        for n, f in self.flows.items():
            cache = vals.get(f.id) if isinstance(vals, dict) else None
            per.append((n, f.id in st, len(f.request.raw_content), tuple(sorted(repr(x) for x in cache.values())) if isinstance(cache, dict) else None))
            attrs.append((bool(f.marked), bool(f.matches)))
        coarse = (tuple(self.filed()), tuple(per), self.name_of(self.view.focus.__dict__.get(self.names["focus"])),
                  self.ref.show_marked, self.ref.filter, self.ref.reversed, id(self.container().key))
        return coarse, (coarse, tuple(attrs))


# ---------------------------------------------------------------------------------------------------
# operations and the per-step comparison with the reference

# op = (kind, name, args): kind 'api' (a public View method), 'env' (the environment changes a flow), 'probe' (Focus.flow = f, settings[f])
REFILTERING = {"set_filter", "toggle_marked", "clear_not_marked"}
MEMBERSHIP_OPS = {"add", "update"} | REFILTERING  # a membership disagreement after these is R43.1, after the others R43.2


def render(op):
    kind, name, args = op
    if kind == "env":
        return f"<{name} {args[0]}>"
    if kind == "probe":
        return f"focus.flow = {args[0]}" if name == "focus" else f"settings[{args[0]}]"
    if name in ("add", "update", "remove"):
        return f"{name}([{', '.join(args)}])"
    if name == "configure":
        return f"configure({set(args)})"
    return f"{name}({', '.join(str(a) for a in args)})"


class Step:
    """runs one operation in the world and compares the outcome with the reference"""

    def __init__(self, world: World, ex: "Explorer"):
        self.w = world
        self.ex = ex

    def problem(self, rule, op, clause, detail):
        self.ex.problem(rule, op, clause, detail, list(self.w.history))

    def run(self, op) -> bool:
        w, ref = self.w, self.w.ref
        kind, name, args = op
        w.history.append(render(op))
        n_before = self.ex.n_problems
        if kind == "env":
            f = w.flows[args[0]]
            if name == "mark":
                object.__setattr__(f, "marked", "" if f.marked else ":default:")
            elif name == "match":
                object.__setattr__(f, "matches", not f.matches)
            elif name == "grow":
                object.__setattr__(f.request, "raw_content", b"x" * (3 if len(f.request.raw_content) == 1 else 1))
            return True
        if kind == "probe":
            return self.probe(op)
        w.sig_log.clear()
        w.mut_log.clear()
        flows = [w.flows[a] for a in args] if name in ("add", "update", "remove") else []
        shown_before = set(ref.shown)
        # ---- the reference: what the operation must do
        expect = {n: [] for n in w.flows}
        staying = []
        refresh = set()
        live = lambda f: pred(ref.filter == "all" or f.matches, ref.show_marked, f.marked)
        if name == "add":
            for n, f in zip(args, flows):
                if n not in ref.store:
                    self.ex.cell("add", f.matches if ref.filter == "attr" else None, ref.show_marked, bool(f.marked))
                    ref.store.append(n)
                    if live(f):
                        ref.shown.add(n)
                        expect[n].append("sig_view_add")
            call = [flows]
        elif name == "update":
            for n, f in zip(args, flows):
                if n in ref.store:
                    self.ex.cell("update:" + ("shown" if n in ref.shown else "hidden"), f.matches if ref.filter == "attr" else None, ref.show_marked, bool(f.marked))
                    if live(f) and n not in ref.shown:
                        ref.shown.add(n)
                        expect[n].append("sig_view_add")
                    elif live(f):
                        expect[n].append("sig_view_update")
                        staying.append(n)
                    elif n in ref.shown:
                        ref.shown.discard(n)
                        expect[n].append("sig_view_remove")
            call = [flows]
        elif name == "remove":
            for n, f in zip(args, flows):
                if n in ref.store:
                    if n in ref.shown:
                        ref.shown.discard(n)
                        expect[n].append("sig_view_remove")
                    ref.store.remove(n)
                    expect[n].append("sig_store_remove")
            call = [flows]
        elif name == "clear":
            ref.store, ref.shown = [], set()
            refresh = {"sig_view_refresh", "sig_store_refresh"}
            call = []
        elif name in REFILTERING:
            if name == "toggle_marked":
                ref.show_marked = not ref.show_marked
                call = []
            elif name == "set_filter":
                ref.filter = args[0]
                call = [{"all": None, "attr": w.attr_filter}[args[0]]]
            else:
                ref.store = [n for n in ref.store if w.flows[n].marked]
                refresh = {"sig_store_refresh"}
                call = []
            for n in ref.store:
                f = w.flows[n]
                self.ex.cell("refilter", f.matches if ref.filter == "attr" else None, ref.show_marked, bool(f.marked))
            ref.shown = {n for n in ref.store if live(w.flows[n])}
            refresh = refresh | {"sig_view_refresh"}
        elif name == "set_order":
            call = [args[0]]
        elif name == "configure":
            if set(args) != {"console_focus_follow"}:
                raise AnalysisError("C43: only configure({'console_focus_follow'}) has a reference")
            call = [set(args)]  # focus follows new flows: no effect on membership, notifications or settings
        elif name == "set_reversed":
            ref.reversed = bool(args[0])
            refresh = {"sig_view_refresh"}
            call = [args[0]]
        else:
            raise AnalysisError(f"C43: operation {name} has no reference")
        # ---- the code
        try:
            w.interp.method(w.view, name, *call)
        except Raised as r:
            self.problem("R43.2", op, "raises", f"{render(op)} raises {r.name}" + (f" ({r.msg})" if r.msg else ""))
            return False
        # ---- comparison
        filed = [n for _, n in w.filed()]
        rule = "R43.1" if name in MEMBERSHIP_OPS else "R43.2"
        if sorted(map(str, filed)) != sorted(ref.shown):
            extra = [n for n in filed if n not in ref.shown]
            missing = sorted(ref.shown - set(filed))
            dup = sorted({n for n in filed if filed.count(n) > 1})
            what = "; ".join(x for x in (f"{extra} shown although " + " / ".join(self.why_hidden(n) for n in extra) if extra else "",
                                         f"{missing} missing although they match" if missing else "", f"{dup} listed twice" if dup and not extra else "") if x)
            self.problem(rule, op, "view membership disagrees with filter(f) and (not show_marked or f.marked) over the stored flows", what)
        if set(w.store().keys()) != {w.flows[n].id for n in ref.store}:
            self.problem("R43.2", op, "store contents", f"store holds {sorted(w.store().keys())}, expected the ids of {ref.store}")
        listing = w.listing() if ref.reversed or name in ("set_reversed", "set_order", "add", "remove") else filed
        want = list(reversed(filed)) if ref.reversed else filed
        if listing != want:
            self.problem("R43.2", op, "public listing view[i] differs from the container's order" + (" reversed" if ref.reversed else ""), f"view[0..] = {listing}, container = {filed}")
        # per-flow notifications
        actual = {n: [] for n in w.flows}
        for sname, named, facts in w.sig_log:
            fl = [w.name_of(x) for x in named.values() if isinstance(x, Rec) and x._cls == "HTTPFlow"]
            if sname in FLOW_SIGNALS:
                if len(fl) != 1 or fl[0] not in actual:
                    self.problem("R43.2", op, f"{sname} without its flow", f"arguments {sorted(named)}")
                    continue
                n = fl[0]
                actual[n].append(sname)
                if sname in ("sig_view_add", "sig_view_update") and n not in facts["filed"]:
                    self.problem("R43.2", op, f"{sname} is sent while the flow is not in the view", f"flow {n}, view at that moment {facts['filed']}")
                if sname == "sig_view_remove":
                    idx = [x for x in named.values() if isinstance(x, int) and not isinstance(x, bool)]
                    if n in facts["filed"]:
                        self.problem("R43.2", op, "sig_view_remove is sent before the flow left the view", f"flow {n}, view at that moment {facts['filed']}")
                    elif len(idx) != 1 or facts["removed_at"].get(n) != idx[0]:
                        self.problem("R43.2", op, "sig_view_remove does not carry the index the flow had in the view", f"flow {n}: index argument {idx}, removed at {facts['removed_at'].get(n)}")
                if sname == "sig_store_remove" and w.flows[n].id in facts["store"]:
                    self.problem("R43.2", op, "sig_store_remove is sent before the flow left the store", f"flow {n}")
        for n in w.flows:
            if actual[n] != expect[n]:
                self.problem("R43.2", op, "per-flow notifications differ from the change made", f"flow {n}: sent {actual[n]}, the change made requires {expect[n]}")
        sent = {s for s, _, _ in w.sig_log}
        if refresh - sent:
            self.problem("R43.2", op, f"{' / '.join(sorted(refresh - sent))} not sent", f"signals sent: {[s for s, _, _ in w.sig_log]}")
        self.bookkeeping(op)
        # update(): a flow that stays is filed under its current key
        for n in staying:
            keys = [k for k, m in w.filed() if m == n]
            if len(keys) == 1:
                lk = w.live_key(w.flows[n])
                if keys[0] != lk:
                    self.problem("R43.2", op, "a flow that stays in the view is not re-filed under its current sort key", f"flow {n}: filed under {keys[0]!r}, current key {lk!r}")
        self.ex.steps += 1
        return self.ex.n_problems == n_before

    def why_hidden(self, n):
        w, ref = self.w, self.w.ref
        if n not in w.flows:
            return f"{n} is not a flow of the world"
        f = w.flows[n]
        if n not in ref.store:
            return f"{n} is not stored"
        return f"filter({n})={bool(ref.filter == 'all' or f.matches)}, show_marked={ref.show_marked}, {n}.marked={bool(f.marked)}"

    def bookkeeping(self, op):
        """focus and settings invariants"""
        w, ref = self.w, self.w.ref
        filed = [n for _, n in w.filed()]
        fo = w.focus_flow()
        if fo is None and filed:
            self.problem("R43.2", op, "focus is None although the view is not empty", f"view {filed}")
        elif fo is not None and w.name_of(fo) not in filed:
            self.problem("R43.2", op, "focus is a flow that is not in the view", f"focus {w.name_of(fo)}, view {filed}")
        ids = {w.flows[n].id for n in ref.store}
        stray = [k for k in w.settings_keys() if k not in ids]
        if stray:
            self.problem("R43.2", op, "Settings holds values of flows that are not stored", f"keys {stray}, stored {sorted(ids)}")

    def probe(self, op) -> bool:
        w, ref = self.w, self.w.ref
        _, name, args = op
        f = w.flows[args[0]]
        n_before = self.ex.n_problems
        if name == "focus":
            old = w.focus_flow()
            try:
                w.set_focus(f)
                raised = None
            except Raised as r:
                raised = r.name
            if args[0] in ref.shown:
                if raised or w.focus_flow() is not f:
                    self.problem("R43.2", op, "Focus.flow setter refuses a flow of the view", f"raised {raised}")
            else:
                if not raised:
                    self.problem("R43.2", op, "Focus.flow setter accepts a flow that is not in the view", f"flow {args[0]} ({self.why_hidden(args[0])})")
                elif w.focus_flow() is not old:
                    self.problem("R43.2", op, "Focus.flow setter changes the focus although it raises", f"flow {args[0]}")
        else:
            try:
                r = w.lookup_settings(f)
                raised = None
            except Raised as e:
                raised, r = e.name, None
            if args[0] in ref.store:
                if raised or not isinstance(r, dict):
                    self.problem("R43.2", op, "Settings has no values for a stored flow", f"raised {raised}")
            elif not raised:
                self.problem("R43.2", op, "Settings creates / returns values for a flow that is not stored", f"flow {args[0]}")
        self.bookkeeping(op)
        self.ex.steps += 1
        return self.ex.n_problems == n_before


class Explorer:
    def __init__(self, ctx):
        self.ctx = ctx
        self.n_problems = 0
        self.steps = 0
        self.states = 0
        self.cells: dict = {}
        self.entered: set = set()
        self.passed: dict = {}
        self.exhausted = True

    def cell(self, site, flt, sm, mk):
        if flt is not None:
            self.cells.setdefault(site, set()).add((bool(flt), bool(sm), bool(mk)))

    def problem(self, rule, op, clause, detail, history):
        self.n_problems += 1
        kind, name, args = op
        if kind == "probe":
            qual = "Focus.flow" if name == "focus" else "Settings.__getitem__"
        else:
            qual = f"View.{name}"
        node = None
        try:
            node = self.ctx.model.func(F, qual)
        except Exception:
            pass
        self.ctx.fail(rule, (F, qual, node if node is not None else 0), f"{qual}: {clause}", f"{detail} — history: {'; '.join(history)}", history=history)

    def explore(self, setup, ops, max_states=100000, every_state=False):
        """Breadth-first over the state classes reachable with ``ops`` = [(op, sensitive, enqueue)].  An operation whose outcome cannot depend
        on the flows' marked / filter-match attributes (``sensitive`` False) is executed once per coarse class, the others once per fine class
        (``every_state``: everything in every fine class); successors of ``enqueue`` operations are explored further."""
        try:
            w = World(self.ctx.model)
        except SetupViolation as v:
            self.problem(*v.args5)
            return
        step = Step(w, self)
        for op in setup:
            if not step.run(op):
                self.entered |= w.interp.entered
                return
        queue = collections.deque([(w.snapshot(), w.state_class())])
        seen = {queue[0][1][1]}
        done = set()
        grace = 25  # once a counterexample exists only this many further state classes are expanded (other clauses broken by the same defect)
        while queue and self.states < max_states and grace > 0:
            grace -= 1 if self.n_problems else 0
            snap, (coarse, fine) = queue.popleft()
            self.states += 1
            for op, sensitive, enqueue in ops:
                key = (op, fine if sensitive or every_state else coarse)
                if key in done:
                    continue
                done.add(key)
                w.restore(snap)
                ok = step.run(op)
                name = op[1] if op[0] != "probe" else "probe:" + op[1]
                if op[0] != "env":
                    self.passed[name] = self.passed.get(name, 0) + (1 if ok else 0)
                if ok and enqueue:
                    c = w.state_class()
                    if c[1] not in seen:
                        seen.add(c[1])
                        queue.append((w.snapshot(), c))
        self.entered |= w.interp.entered
        self.names = dict(w.names)
        self.exhausted = self.exhausted and not queue


# ---------------------------------------------------------------------------------------------------
# static closure: who writes the tracked state


def functions_of(mod):
    return {q: n for q, n in mod.defs().items() if isinstance(n, (ast.FunctionDef, ast.AsyncFunctionDef))}


def direct_writes(fn, tracked):
    """tracked attribute names this function writes directly: X.attr = .. / del X.attr[..] / X.attr[..] = .. / X.attr.mutating_method(..)"""
    out = set()
    for n in own_nodes(fn):
        tgts = []
        if isinstance(n, ast.Assign):
            for t in n.targets:
                tgts.extend(t.elts if isinstance(t, (ast.Tuple, ast.List)) else [t])
        elif isinstance(n, (ast.AugAssign, ast.AnnAssign)):
            if not (isinstance(n, ast.AnnAssign) and n.value is None):
                tgts = [n.target]
        elif isinstance(n, ast.Delete):
            tgts = list(n.targets)
        elif isinstance(n, ast.Call) and isinstance(n.func, ast.Attribute) and n.func.attr in MUTATING_METHODS:
            if isinstance(n.func.value, ast.Attribute) and n.func.value.attr in tracked:
                out.add(n.func.value.attr)
        for t in tgts:
            while isinstance(t, (ast.Subscript, ast.Starred)):
                t = t.value
            if isinstance(t, ast.Attribute) and t.attr in tracked:
                out.add(t.attr)
    return out


def check_closure(ctx, ex: Explorer):
    mod = ctx.model.module(F)
    names = ex.names
    tracked = {names["view"], names["store"], names["values"], names["focus"], "show_marked", "filter"}
    fns = functions_of(mod)
    writers = {q: direct_writes(fn, tracked) for q, fn in fns.items()}
    writers = {q: w for q, w in writers.items() if w}
    ctx.require(len(writers) >= 6, f"view.py: only {len(writers)} functions write the tracked state {sorted(tracked)} (anchors moved?)")
    not_run = sorted(q for q in writers if fns[q] not in ex.entered)
    ctx.require(not not_run, f"view.py: {not_run} write(s) {sorted(set().union(*(writers[q] for q in not_run)) if not_run else [])} but is not reached by the modelled "
                "operations (add, update, remove, clear, clear_not_marked, set_filter, toggle_marked, set_order, set_reversed): not modelled")
    for q in sorted(writers):
        ctx.functions.add(f"{F}::{q}")
    # functions the exploration never entered may reach a writer only through the public operations that were explored
    by_name: dict = {}
    for q, fn in fns.items():
        by_name.setdefault(fn.name, []).append(q)

    def callees(fn):
        out = set()
        for n in own_nodes(fn):
            if isinstance(n, ast.Call) and isinstance(n.func, ast.Attribute):
                out.update(by_name.get(n.func.attr, []))
            elif isinstance(n, ast.Call) and isinstance(n.func, ast.Name):
                out.update(by_name.get(n.func.id, []))
        return out

    reach = set(writers)
    changed = True
    graph = {q: callees(fn) for q, fn in fns.items()}
    while changed:
        changed = False
        for q, cs in graph.items():
            if q not in reach and cs & reach:
                reach.add(q)
                changed = True
    for q, fn in sorted(fns.items()):
        if fn in ex.entered:
            continue
        private = sorted(c for c in graph[q] if c in reach and fns[c].name.startswith("_") and not fns[c].name.startswith("__"))
        ctx.require(not private, f"view.py: {q} is not exercised by the modelled operations but calls the private state-changing helper(s) {private}: not modelled")
    ctx.ok("R43.2", f"closure: all {len(writers)} functions that write {sorted(tracked)} were executed by the exploration; the other functions reach them only through the explored public operations")
    # nobody else reaches into the view: an access counts only when its RECEIVER can be an object of view.py (View / Focus / Settings ...);
    # another class's private attribute that happens to carry the same name (`self._store` of an unrelated class) is not the view's
    private = {n for n in (names["view"], names["store"]) if n.startswith("_")}
    ctx.require(private, "the view container / store fields are not private")
    public = {"show_marked", "filter"}
    coarse = re.compile(r"\.(?:" + "|".join(sorted(re.escape(n) for n in private | public)) + r")\b")
    recv = _Receivers(ctx.model)
    for p in sorted((ctx.model.repo / "mitmproxy").rglob("*.py")):
        rel = p.relative_to(ctx.model.repo).as_posix()
        if rel == F or rel.startswith("mitmproxy/contrib/"):
            continue
        if not coarse.search(ctx.model.source(rel)):
            continue
        mod = ctx.model.module(rel)
        for n in ast.walk(mod.tree):
            if not isinstance(n, ast.Attribute):
                continue
            if n.attr in private:
                # the discovered private fields: any access, unless the receiver provably is no object of view.py
                hit = recv.kind(n.value, mod) != "no"
            elif n.attr in public and isinstance(n.ctx, (ast.Store, ast.Del)):
                # show_marked / filter are ordinary attribute names of many classes: a write counts when the receiver is (or may be, for
                # show_marked) a view object - `ctx.master.view.filter = ..`, `view.filter = ..`, a parameter annotated View, an alias of these
                k = recv.kind(n.value, mod)
                hit = k == "yes" or (k == "unknown" and n.attr == "show_marked")
            else:
                hit = False
            if hit:
                raise AnalysisError(f"{rel} accesses View internals ({names['view']} / {names['store']} / show_marked / filter): {ast.unparse(n)} (line {n.lineno}); not modelled")
    ctx.ok("R43.1", "no module other than view.py writes show_marked / filter or touches the view container / the store")


class _Receivers:
    """Can an expression of another module denote an object of view.py?  'yes' (positive evidence: reached through an attribute / name
    spelled ``view``, constructed from / annotated with a class of view.py or a subclass, ``self`` of such a class), 'no' (provably
    something else: ``self`` / ``cls`` of a class unrelated to view.py, a value constructed from / annotated with an unrelated repository
    class or a builtin type, a literal), else 'unknown'."""

    BUILTIN_TYPES = {"dict", "list", "set", "tuple", "str", "bytes", "int", "float", "bool", "bytearray", "frozenset", "object", "type", "None"}

    def __init__(self, model):
        self.model = model
        vmod = model.module(F)
        self.view_classes = {(F, q) for q, n in vmod.defs().items() if isinstance(n, ast.ClassDef)}
        # ancestors of view.py's classes inside the repository: their methods run on view objects too
        self.related = set(self.view_classes)
        for _, q in sorted(self.view_classes):
            for m, c in model.mro(F, q):
                self.related.add((m.rel, getattr(c, "_qual", c.name)))

    def class_kind(self, mod, cls) -> str:
        qual = getattr(cls, "_qual", cls.name)
        if (mod.rel, qual) in self.related:
            return "yes"
        try:
            mro = self.model.mro(mod.rel, qual)
        except AnalysisError:
            return "unknown"
        if any((m.rel, getattr(c, "_qual", c.name)) in self.view_classes for m, c in mro):
            return "yes"
        return "no"

    def type_kind(self, ann, mod) -> str:
        """kind of the values a type expression (annotation / constructor) admits"""
        if ann is None:
            return "unknown"
        if isinstance(ann, ast.Constant) and isinstance(ann.value, str):
            try:
                ann = ast.parse(ann.value, mode="eval").body
            except SyntaxError:
                return "unknown"
        if isinstance(ann, ast.Constant) and ann.value is None:
            return "no"
        if isinstance(ann, ast.BinOp) and isinstance(ann.op, ast.BitOr):
            return self.join(self.type_kind(ann.left, mod), self.type_kind(ann.right, mod))
        if isinstance(ann, ast.Subscript):
            head = ann.value.attr if isinstance(ann.value, ast.Attribute) else getattr(ann.value, "id", "")
            if head in ("Optional", "Union"):
                parts = ann.slice.elts if isinstance(ann.slice, ast.Tuple) else [ann.slice]
                out = "no"
                for p_ in parts:
                    out = self.join(out, self.type_kind(p_, mod))
                return out
            return self.type_kind(ann.value, mod)
        if isinstance(ann, (ast.Name, ast.Attribute)):
            r = self.model.resolve_name(mod, ann)
            if r is not None and isinstance(r[1], ast.ClassDef):
                return self.class_kind(r[0], r[1])
            if isinstance(ann, ast.Name) and ann.id in self.BUILTIN_TYPES and ann.id not in mod.imports and mod.get(ann.id) is None:
                return "no"
        return "unknown"

    @staticmethod
    def join(a, b):
        if "yes" in (a, b):
            return "yes"
        return "no" if a == b == "no" else "unknown"

    def kind(self, e, mod, depth=0) -> str:
        if depth > 6:
            return "unknown"
        if isinstance(e, (ast.Constant, ast.Dict, ast.List, ast.Set, ast.Tuple, ast.ListComp, ast.DictComp, ast.SetComp, ast.GeneratorExp, ast.JoinedStr, ast.Lambda, ast.Compare)):
            return "no"
        if isinstance(e, ast.NamedExpr):
            return self.kind(e.value, mod, depth + 1)
        if isinstance(e, ast.IfExp):
            return self.join(self.kind(e.body, mod, depth + 1), self.kind(e.orelse, mod, depth + 1))
        if isinstance(e, ast.BoolOp):
            out = "no"
            for v in e.values:
                out = self.join(out, self.kind(v, mod, depth + 1))
            return out
        if isinstance(e, ast.Await):
            return "unknown"
        if isinstance(e, ast.Call):
            if isinstance(e.func, (ast.Name, ast.Attribute)):
                k = self.type_kind(e.func, mod)  # a constructor call
                if k != "unknown":
                    return k
                if isinstance(e.func, ast.Name) and e.func.id == "cast" and len(e.args) == 2:
                    return self.type_kind(e.args[0], mod)
                r = self.model.resolve_name(mod, e.func)
                if r is not None and isinstance(r[1], (ast.FunctionDef, ast.AsyncFunctionDef)) and r[1].returns is not None:
                    return self.type_kind(r[1].returns, r[0])
            return "unknown"
        if isinstance(e, ast.Attribute):
            if e.attr == "view":
                return "yes"  # ctx.master.view / self.master.view / self.view: the View addon by the repository's naming
            base = e.value
            fn, cls = self.scope(e)
            if isinstance(base, ast.Name) and cls is not None and fn is not None and self.is_self(base.id, fn, cls):
                # an attribute of the enclosing class's own instances: class-level annotation / every `self.attr = value` in the class
                vals, anns = [], []
                for n in ast.walk(cls):
                    if isinstance(n, ast.AnnAssign) and ((isinstance(n.target, ast.Name) and n._parent is cls) or isinstance(n.target, ast.Attribute)) \
                            and (n.target.id if isinstance(n.target, ast.Name) else n.target.attr) == e.attr:
                        anns.append(n.annotation)
                        if n.value is not None and isinstance(n.target, ast.Attribute):
                            vals.append(n.value)
                    elif isinstance(n, ast.Assign):
                        for t in n.targets:
                            if isinstance(t, ast.Attribute) and t.attr == e.attr and isinstance(t.value, ast.Name) and t.value.id == base.id:
                                vals.append(n.value)
                            elif isinstance(t, (ast.Tuple, ast.List)) and any(isinstance(x, ast.Attribute) and x.attr == e.attr for x in t.elts):
                                return "unknown"
                    elif isinstance(n, ast.AugAssign) and isinstance(n.target, ast.Attribute) and n.target.attr == e.attr:
                        return "unknown"
                if anns:
                    out = "no"
                    for a in anns:
                        out = self.join(out, self.type_kind(a, mod))
                    return out
                if vals:
                    out = "no"
                    for v in vals:
                        out = self.join(out, self.kind(v, mod, depth + 1))
                    return out
            return "unknown"
        if isinstance(e, ast.Name):
            fn, cls = self.scope(e)
            k = None
            while fn is not None and k is None:
                k = self.local_kind(e.id, fn, cls, mod, depth)  # None: not bound in this function - look in the enclosing one
                fn, cls = self.scope(fn)
            if k is None:
                k = self.module_name_kind(e.id, mod, depth)
            return "yes" if k == "unknown" and e.id == "view" else k
        return "unknown"

    def local_kind(self, ident, fn, cls, mod, depth):
        if cls is not None and self.is_self(ident, fn, cls):
            return self.class_kind(mod, cls)
        a = fn.args
        for p_ in a.posonlyargs + a.args + a.kwonlyargs + [x for x in (a.vararg, a.kwarg) if x is not None]:
            if p_.arg == ident:
                return self.type_kind(p_.annotation, mod)
        vals = []
        for n in own_nodes(fn):
            if isinstance(n, ast.Assign):
                for t in n.targets:
                    if isinstance(t, ast.Name) and t.id == ident:
                        vals.append(n.value)
                    elif any(isinstance(x, ast.Name) and x.id == ident and isinstance(x.ctx, ast.Store) for x in ast.walk(t)):
                        vals.append(None)
            elif isinstance(n, ast.AnnAssign) and isinstance(n.target, ast.Name) and n.target.id == ident:
                vals.append(("ann", n.annotation))
            elif isinstance(n, ast.NamedExpr) and n.target.id == ident:
                vals.append(n.value)
            elif isinstance(n, ast.Name) and n.id == ident and isinstance(n.ctx, ast.Store) and not isinstance(getattr(n, "_parent", None), (ast.Assign, ast.AnnAssign, ast.NamedExpr, ast.Tuple, ast.List)):
                vals.append(None)  # for / with / comprehension targets: not followed
            elif isinstance(n, ast.Name) and n.id == ident and isinstance(n.ctx, ast.Store) and isinstance(getattr(n, "_parent", None), (ast.Tuple, ast.List)) \
                    and not isinstance(getattr(n._parent, "_parent", None), ast.Assign):
                vals.append(None)
            elif isinstance(n, ast.ExceptHandler) and n.name == ident:
                return "no"
        if not vals:
            return None
        out = "no"
        for v in vals:
            if v is None:
                k = "unknown"
            elif isinstance(v, tuple):
                k = self.type_kind(v[1], mod)
            else:
                k = self.kind(v, mod, depth + 1)
            out = self.join(out, k)
        return out

    def module_name_kind(self, name, mod, depth):
        vals = mod.assigns(name)
        if not vals:
            return "unknown"
        out = "no"
        for v in vals:
            out = self.join(out, self.kind(v, mod, depth + 1))
        return out

    @staticmethod
    def scope(node):
        """(innermost enclosing function, the class it is a method of) of a node"""
        n = getattr(node, "_parent", None)
        while n is not None and not isinstance(n, (ast.FunctionDef, ast.AsyncFunctionDef, ast.ClassDef)):
            n = getattr(n, "_parent", None)
        if n is None or isinstance(n, ast.ClassDef):
            return None, None
        c = getattr(n, "_parent", None)
        return n, c if isinstance(c, ast.ClassDef) else None

    @staticmethod
    def is_self(name, fn, cls) -> bool:
        """is ``name`` the instance (or class) parameter of the method ``fn`` of ``cls``, never rebound in it?"""
        decs = {d.attr if isinstance(d, ast.Attribute) else getattr(d, "id", "") for d in fn.decorator_list}
        a = fn.args.posonlyargs + fn.args.args
        if "staticmethod" in decs or not a or a[0].arg != name:
            return False
        return not any(isinstance(n, ast.Name) and n.id == name and isinstance(n.ctx, (ast.Store, ast.Del)) for n in own_nodes(fn))


# ---------------------------------------------------------------------------------------------------


def api(name, *args):
    return ("api", name, tuple(args))


def env(name, flow):
    return ("env", name, (flow,))


# (operation, its outcome depends on f1's marked / filter-match attributes, successors are explored further)
OPS = [
    (env("mark", "f1"), True, True), (env("match", "f1"), True, True), (env("grow", "f1"), True, True),
    (api("add", "f1"), True, True), (api("update", "f1"), True, True), (api("remove", "f1"), True, True),
    (api("toggle_marked"), True, True), (api("clear_not_marked"), True, True), (api("set_filter", "attr"), False, True),
    (api("add", "f2"), False, True), (api("remove", "f2"), False, True), (api("clear"), False, True), (api("update", "f2"), False, True),
    (api("add", "f2", "f1"), False, False), (api("update", "f1", "f2"), False, False), (api("remove", "f1", "f2"), False, False),
    (api("set_filter", "all"), False, False),
    (("probe", "focus", ("f1",)), False, False), (("probe", "focus", ("f2",)), False, False),
    (("probe", "settings", ("f1",)), False, False), (("probe", "settings", ("f2",)), False, False),
]


def single(*ops):
    return [(op, False, False) for op in ops]


ALL_CELLS = {(a, b, c) for a in (True, False) for b in (True, False) for c in (True, False)}


def check(ctx):
    ctx.rule("R43.1", "after add / update / set_filter / toggle_marked / clear_not_marked the view holds exactly the stored flows with filter(f) and "
             "(not show_marked or f.marked), on all 8 combinations (new, changed, evicted and re-filtered flows)")
    ctx.rule("R43.2", "store deletions never leave a view entry behind; per-flow notifications match the change, are sent after it and carry the "
             "flow's index; refresh signals are sent; Settings holds stored flows only; Focus holds a flow of the view (None iff empty); update re-files "
             "under the current key; every writer of the tracked state is covered by the explored operations")
    ex = Explorer(ctx)
    size_mode = [api("set_filter", "attr"), api("set_order", "size")]
    time_mode = [api("set_filter", "attr"), api("set_reversed", True), api("configure", "console_focus_follow")]
    thorough = ctx.tier == "thorough"
    # quick: default order (reversed) with every marked / filter-match combination, then the size order with sort-key changes (the flow under test
    # stays unmarked); thorough: every environment change in both orders.  Both explorations run to exhaustion.
    without = lambda *names: [o for o in OPS if thorough or not (o[0][0] == "env" and o[0][1] in names)]
    ex.explore(time_mode, without("grow") + single(api("set_order", "size"), api("set_order", "method"), api("set_reversed", False)))
    if not ctx.findings:
        ex.explore(size_mode, without("mark") + single(api("set_order", "time"), api("set_order", "url"), api("set_reversed", True)))
    ctx.cells += sum(len(v) for v in ex.cells.values())
    ctx.paths += ex.steps
    ctx.bounds.append(f"{ex.states} state classes expanded, {ex.steps} interpreted steps compared with the reference (two flows)")
    if ctx.findings:
        return
    for site in ("add", "update:shown", "update:hidden", "refilter"):
        missing = ALL_CELLS - ex.cells.get(site, set())
        ctx.require(not missing, f"exploration did not exercise {site} for filter/show_marked/marked = {sorted(missing)} (bound too small)")
        ctx.ok("R43.1", f"{site}: all 8 combinations of filter(f) x show_marked x f.marked agree with the reference")
    for name in ("add", "update", "toggle_marked", "set_filter", "clear_not_marked"):
        ctx.require(ex.passed.get(name), f"View.{name} was never executed")
        ctx.ok("R43.1", f"View.{name}: {ex.passed[name]} executions leave exactly the matching stored flows in the view")
    for name in ("remove", "clear", "set_order", "set_reversed", "probe:focus", "probe:settings"):
        ctx.require(ex.passed.get(name), f"{name} was never executed")
        ctx.ok("R43.2", f"{name}: {ex.passed[name]} executions agree with the reference (members, notifications, focus, settings)")
    ctx.guard(check_closure, ctx, ex)
    ctx.assume("worlds of two flows; signal handlers run synchronously and do not re-enter the view")
    ctx.trust("sortedcontainers.SortedKeyList keeps its elements sorted by the key computed at insertion and finds them by the key function's current answer")
    ctx.trust("mitmproxy.utils.signals.SyncSignal calls its receivers synchronously in connection order")
    if not ctx.deferred:
        ctx.expect_instances("R43.1", 4 + 5 + 1)
        ctx.expect_instances("R43.2", 6 + 1)


MUTANTS = [
    Mutant("revert-fix-add-ignores-show-marked", F, "                self._store[f.id] = f\n                if self._in_view(f):", "                self._store[f.id] = f\n                if self.filter(f):", "R43.1"),
    Mutant("revert-fix-update-ignores-show-marked", F, "            if f.id in self._store:\n                if self._in_view(f):\n                    if f not in self._view:",
           "            if f.id in self._store:\n                if self.filter(f):\n                    if f not in self._view:", "R43.1"),
    Mutant("in-view-ignores-marked-mode", F, "        if self.show_marked and not f.marked:\n            return False\n        return bool(self.filter(f))", "        return bool(self.filter(f))", "R43.1"),
    Mutant("in-view-hides-marked", F, "        if self.show_marked and not f.marked:\n            return False", "        if self.show_marked and f.marked:\n            return False", "R43.1"),
    Mutant("refilter-ignores-filter", F, "            if self._in_view(i):\n                self._base_add(i)", "            if not self.show_marked or i.marked:\n                self._base_add(i)", "R43.1"),
    Mutant("toggle-marked-does-not-refilter", F, "        self.show_marked = not self.show_marked\n        self._refilter()", "        self.show_marked = not self.show_marked", "R43.1"),
    Mutant("update-does-not-evict", F, "                    else:\n                        self._view.remove(f)\n                        self.sig_view_remove.send(flow=f, index=idx)", "                    else:\n                        pass", "R43.1"),
    Mutant("remove-deletes-store-entry-first", F,
           "                if f in self._view:\n                    # We manually pass the index here because multiple flows may have the same\n                    # sorting key, and we cannot reconstruct the index from that.\n                    idx = self._view.index(f)\n                    self._view.remove(f)\n                    self.sig_view_remove.send(flow=f, index=idx)\n                del self._store[f.id]\n",
           "                del self._store[f.id]\n                if f in self._view:\n                    idx = self._view.index(f)\n                    self._view.remove(f)\n                    self.sig_view_remove.send(flow=f, index=idx)\n", "R43.2"),
    Mutant("remove-without-store-signal", F, "                del self._store[f.id]\n                self.sig_store_remove.send(flow=f)\n", "                del self._store[f.id]\n", "R43.2"),
    Mutant("remove-keeps-view-entry", F, "                    idx = self._view.index(f)\n                    self._view.remove(f)\n                    self.sig_view_remove.send(flow=f, index=idx)\n                del",
           "                    idx = self._view.index(f)\n                    self.sig_view_remove.send(flow=f, index=idx)\n                del", "R43.2"),
    Mutant("remove-signals-wrong-index", F, "                    idx = self._view.index(f)\n                    self._view.remove(f)\n                    self.sig_view_remove.send(flow=f, index=idx)\n                del",
           "                    idx = self._view.index(f)\n                    self._view.remove(f)\n                    self.sig_view_remove.send(flow=f, index=idx + 1)\n                del", "R43.2"),
    Mutant("clear-without-view-refresh", F, "        self._view.clear()\n        self.sig_view_refresh.send()\n        self.sig_store_refresh.send()", "        self._view.clear()\n        self.sig_store_refresh.send()", "R43.2"),
    Mutant("add-without-signal", F, "                        self.focus.flow = f\n                    self.sig_view_add.send(flow=f)\n\n    def get_by_id", "                        self.focus.flow = f\n\n    def get_by_id", "R43.2"),
    Mutant("add-signals-before-insert", F, "                if self._in_view(f):\n                    self._base_add(f)\n                    if self.focus_follow:\n                        self.focus.flow = f\n                    self.sig_view_add.send(flow=f)\n\n    def get_by_id",
           "                if self._in_view(f):\n                    self.sig_view_add.send(flow=f)\n                    self._base_add(f)\n\n    def get_by_id", "R43.2"),
    Mutant("settings-keep-removed-flow", F, "        if flow.id in self._values:\n            del self._values[flow.id]", "        if flow.id in self._values:\n            pass", "R43.2"),
    Mutant("settings-not-pruned-on-refresh", F, "            if fid not in self.view._store:\n                del self._values[fid]", "            if fid not in self.view._store:\n                pass", "R43.2"),
    Mutant("settings-created-for-unknown-flow", F, "        if f.id not in self.view._store:\n            raise KeyError\n        return self._values.setdefault", "        return self._values.setdefault", "R43.2"),
    Mutant("focus-setter-unguarded", F, "        if f is not None and f not in self.view:\n            raise ValueError(\"Attempt to set focus to flow not in view\")\n", "", "R43.2"),
    Mutant("focus-keeps-stale-flow-on-refresh", F, "        elif self.flow not in self.view:\n            self.flow = self.view[self._nearest(self.flow, self.view)]", "        elif self.flow not in self.view:\n            pass", "R43.2"),
    Mutant("focus-not-cleared-when-view-empties", F, "    def _sig_view_remove(self, flow, index):\n        if len(self.view) == 0:\n            self.flow = None\n        elif flow is self.flow:",
           "    def _sig_view_remove(self, flow, index):\n        if flow is self.flow and len(self.view) > 0:", "R43.2"),
    Mutant("focus-empty-after-add", F, "        if not self.flow:\n            self.flow = flow", "        if not self.flow:\n            pass", "R43.2"),
    Mutant("update-does-not-refresh-order-key", F, "                        self.order_key.refresh(f)\n", "", "R43.2"),
    Mutant("rekey-before-remove", F, "            self.view._view.remove(f)\n            self.view.settings[f][k] = new\n", "            self.view.settings[f][k] = new\n            self.view._view.remove(f)\n", "R43.2"),
    Mutant("reversed-listing-not-reversed", F, "                idx = len(self._view) - idx - 1\n                if idx < 0:", "                idx = idx\n                if idx < 0:", "R43.2"),
]
