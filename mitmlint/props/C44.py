"""C44 - option updates are transactional and typed; config save/load uses the same option set.

Decided (structural clauses, nothing executed):
  R44.1 (E5 + path facts) in ``OptManager.update_known`` every exception that can be raised once the first ``_Option.set`` may have
        happened (anything raised inside the ``with self.rollback(...)`` block: TypeError from the type check in ``_Option.set``,
        OptionsError from listeners notified through ``changed.send``) either reaches a handler of ``rollback`` that restores
        ``_options`` - or cannot happen because the very same check (same function, same value, same typespec, same iteration
        set) was passed for every value before the block was entered (pre-validation idiom).
  R44.2 ``rollback``: the deep copy is taken before the body runs; on OptionsError: ``errored.send`` -> restore of ``_options`` ->
        ``changed.send(updated)`` -> re-raise when asked; ``_Option.set`` type-checks before it assigns.
  R44.3 ``serialize`` writes exactly the options with ``has_changed`` (or all with ``defaults``), drops keys that are not options,
        ``save`` forwards ``defaults``; ``load`` feeds ``update_defer`` with the parsed mapping.  (serialize / load: decided on the key sets
        observed when both functions are interpreted from their AST - same runs as R44.4 - not on their source text.)
  R44.4 (E3, pyint) the config path is value-faithful - clause "saving options to a config file and loading that file into fresh options
        reproduces every non-default value".  ``serialize`` and ``load`` are interpreted from their AST (nothing executed) over one
        representative option per (supported type x value class): bool on/off, int 0/negative, str ""/YAML-special words/quotes+newline/
        unicode, Optional[str]/Optional[int] None-with-non-None-default / falsy / plain, Sequence[str] empty / non-empty, an unchanged
        option, and keys that are not (yet) options.  ``parse`` and the YAML dumper are replaced by recording stubs (library trusted),
        the OptManager by an abstract record offering its accessor contract (keys / has_changed / attribute read / ``_options`` / ``in``):
          (a) the mapping handed to the dumper holds, for EVERY changed option, exactly its current value (same type - None stays None,
              False stays False, [] stays []), never a stale value of the previous file (which keys are written: R44.3); with
              ``defaults`` every option;
          (b) the keyword arguments ``load`` hands to ``update_defer`` are exactly the parsed mapping - every key (known or deferrable),
              every value type-identical; only ``scripts`` may be re-based, and only when ``cwd`` is given.
        A value class dropped or coerced on either side (None, falsy, empty list, unknown key) is a non-default value the next start
        silently replaces by the default.
NOT decided: YAML text round-trip of a value (ruamel trusted); listeners raising anything but OptionsError (contract of
``subscribe``/``changed``); that update_defer applies what it is handed (R44.1/R44.2 cover its transactionality).
"""

from __future__ import annotations

import ast

from ..core import AnalysisError
from ..core import norm
from ..model import walk_in_order
from ..paths import GenericSpec
from ..paths import traces_of
from ..selftest import Mutant
from ._helpers_H import Config
from ._helpers_H import MayRaise
from ..pyint import DictRec
from ..pyint import Interp
from ..pyint import Raised

PROP = "C44"
REG = {
    "strength": "partial",
    "technique": "exception-escape sets vs. restoring handlers of the rollback context manager (E5) + pre-validation idiom + ordering path facts "
    "+ AST interpretation of serialize/load over representative options of every supported type",
    "claim": "every explicit raise / modelled raiser inside update_known's rollback block is either restored by rollback or excluded by an identical "
    "type check passed for every value before the first mutation; rollback copies before and restores/re-notifies in order; serialize/load agree "
    "on the option set and hand every representative value (None, falsy, empty, YAML-special strings, deferred keys) on type-identically.",
    "note": "Listener contract: receivers of `changed` raise OptionsError only. check_option_type is assumed deterministic in its arguments.",
}

OM = "mitmproxy/optmanager.py"
TC = "mitmproxy/utils/typecheck.py"


def _with_rollback(fn):
    ws = [n for n in walk_in_order(fn) if isinstance(n, ast.With) and len(n.items) == 1 and isinstance(n.items[0].context_expr, ast.Call)
          and norm(n.items[0].context_expr.func) == "self.rollback"]
    return ws


def _restoring_handlers(ctx, mr):
    """(handler, names, restores?) of the try around the yield of OptManager.rollback + the statement taking the copy."""
    rb = ctx.func(OM, "OptManager.rollback")
    tries = [s for s in rb.body if isinstance(s, ast.Try) and any(isinstance(x, ast.Expr) and isinstance(x.value, ast.Yield) for x in s.body)]
    ctx.require(len(tries) == 1 and len(tries[0].body) == 1, "OptManager.rollback: try/yield changed shape")
    t = tries[0]
    copies = [s for s in rb.body[: rb.body.index(t)] if isinstance(s, ast.Assign) and norm(s.value) == "copy.deepcopy(self._options)"]
    mod = mr.model.module(OM)
    hs = []
    for h in t.handlers:
        names = ["BaseException"] if h.type is None else [mr.h.canon(mod, e) for e in (h.type.elts if isinstance(h.type, ast.Tuple) else [h.type])]
        restores = False
        for st in h.body:  # top level of the handler: unconditional
            if isinstance(st, ast.Assign) and norm(st.targets[0]) in ("self.__dict__['_options']", "self._options") and copies \
                    and norm(st.value) == norm(copies[0].targets[0]):
                restores = True
        hs.append((h, names, restores))
    return rb, t, copies, hs


def _prevalidated(ctx, fn, w, opt_set):
    """Is every (k, v) the block is going to apply checked by the same function with the same value / typespec before the block?
    -> (ok, description).  Accepted idiom: a loop over the same iterable as the mutation loop, calling the checker that _Option.set
    calls, with the loop's value and ``self._options[<key>].typespec``; nothing in between rebinding the iterable or the options."""
    chk = [n for n in walk_in_order(opt_set) if isinstance(n, ast.Call) and n.func is not None and norm(n.func).endswith("check_option_type")]
    if len(chk) != 1 or [norm(a) for a in chk[0].args[1:]] != ["value", "self.typespec"]:
        return False, "_Option.set no longer calls check_option_type(name, value, self.typespec)"
    checker = norm(chk[0].func)
    mut = [n for n in w.body if isinstance(n, ast.For)]
    if len(mut) != 1:
        return False, "mutation loop changed shape"
    mloop = mut[0]
    sets = [n for n in walk_in_order(mloop) if isinstance(n, ast.Call) and isinstance(n.func, ast.Attribute) and n.func.attr == "set"]
    if len(sets) != 1 or not isinstance(mloop.target, ast.Tuple):
        return False, "mutation loop changed shape"
    mk, mv = (norm(x) for x in mloop.target.elts)
    if norm(sets[0].func.value) != f"self._options[{mk}]" or [norm(a) for a in sets[0].args] != [mv]:
        return False, "mutation loop changed shape"
    # the block containing the with statement
    parent = w._parent
    blk = next(b for b in (getattr(parent, "body", []), getattr(parent, "orelse", [])) if any(s is w for s in b))
    before = blk[: next(i for i, s in enumerate(blk) if s is w)]
    for i, s in enumerate(before):
        if not (isinstance(s, ast.For) and norm(s.iter) == norm(mloop.iter) and isinstance(s.target, ast.Tuple) and len(s.target.elts) == 2):
            continue
        k, v = (norm(x) for x in s.target.elts)
        calls = [n for st in s.body for n in walk_in_order(st) if isinstance(n, ast.Call) and norm(n.func) == checker]
        top = [st for st in s.body if isinstance(st, ast.Expr) and isinstance(st.value, ast.Call) and norm(st.value.func) == checker]
        if len(calls) != 1 or len(top) != 1 or len(calls[0].args) != 3:
            continue
        if norm(calls[0].args[1]) != v or norm(calls[0].args[2]) != f"self._options[{k}].typespec":
            continue
        # nothing between the validation loop and the block may rebind the iterable / options, and the loop must not swallow the failure
        tail = before[i + 1:]
        it_name = norm(mloop.iter).split(".")[0].split("(")[0]
        if any(isinstance(x, (ast.Assign, ast.AugAssign, ast.Delete, ast.Call)) for st in tail for x in walk_in_order(st)):
            return False, "statements between the validation loop and the rollback block may change what is applied"
        if any(isinstance(x, (ast.Try, ast.Continue, ast.Break)) for st in s.body for x in walk_in_order(st)):
            return False, "the validation loop can skip or swallow a failing check"
        return True, f"for {k}, {v} in {norm(s.iter)}: {checker}({k}, {v}, self._options[{k}].typespec) before the block"
    return False, "no validation loop over the applied values precedes the rollback block"


def check(ctx):
    ctx.rule("R44.1", "exceptions raised after the first _Option.set are restored by rollback or excluded by identical pre-validation")
    ctx.rule("R44.2", "rollback: copy before body; errored.send -> restore -> changed.send -> optional re-raise; _Option.set checks before assigning")
    ctx.rule("R44.3", "serialize writes changed (or all) options and drops unknown keys; load feeds update_defer")
    fn = ctx.func(OM, "OptManager.update_known")
    opt_set = ctx.func(OM, "_Option.set")
    ctx.func(TC, "check_option_type")
    ws = _with_rollback(fn)
    ctx.require(len(ws) == 1, "update_known: expected exactly one `with self.rollback(...)` block")
    w = ws[0]

    def dynamic(fr, call):
        where = f"{fr.mod.rel}::{fr.fn._qual}"
        f = call.func
        if isinstance(f, ast.Attribute) and f.attr == "set" and norm(f.value).startswith("self._options["):
            return [(OM, "_Option.set")]
        if isinstance(f, ast.Attribute) and f.attr == "send" and norm(f.value) in ("self.changed", "self.errored"):
            if norm(f.value) == "self.changed":
                # receivers: _notify_subscribers (connected in __init__) + external listeners (contract: OptionsError)
                return [(OM, "OptManager._notify_subscribers")]
            return ("raises", (), None)
        if where == f"{OM}::OptManager._notify_subscribers" and norm(f) == "callback":
            return ("raises", ("OptionsError",), None)
        return None

    ctx.assume("listeners notified through OptManager.changed raise OptionsError only (documented contract of subscribe/changed)")
    ctx.assume("typecheck.check_option_type is deterministic in (value, typespec)")
    init = ctx.func(OM, "OptManager.__init__")
    ctx.require(any(norm(n) == "self.changed.connect(self._notify_subscribers)" for n in walk_in_order(init) if isinstance(n, ast.Call)),
                "OptManager.__init__ no longer connects _notify_subscribers to changed")
    mr = MayRaise(ctx, Config(dynamic=dynamic, bounded_recursion={f"{TC}::check_option_type": "depth follows the declared typespec, not the value"}))
    kw = fn.args.kwarg.arg if fn.args.kwarg else None
    ctx.require(kw is not None, "update_known no longer takes **kwargs")
    env = {kw: "V"}
    body_esc = mr.region(OM, "OptManager.update_known", w.body, env)
    key = mr.key_of_region(OM, "OptManager.update_known", env)
    ctx.require({"TypeError", "OptionsError"} <= {e.exc for e in body_esc}, f"modelled raisers of the rollback block vanished: {sorted({e.exc for e in body_esc})}")
    for f in mr.functions:
        ctx.functions.add(f)
    ctx.paths += mr.sites
    rb, t, copies, hs = _restoring_handlers(ctx, mr)
    # escapes that stem from the validated call inside _Option.set
    chk_stmt = [s for s in opt_set.body if isinstance(s, ast.Expr) and isinstance(s.value, ast.Call) and norm(s.value.func).endswith("check_option_type")]
    ctx.require(len(chk_stmt) == 1, "_Option.set: type check changed shape")
    mr2 = MayRaise(ctx, Config(dynamic=dynamic, bounded_recursion={f"{TC}::check_option_type": "depth follows the declared typespec, not the value"}))
    check_esc = mr2.region(OM, "_Option.set", chk_stmt, {"value": "V"})
    set_rest = mr2.region(OM, "_Option.set", [s for s in opt_set.body if s not in chk_stmt], {"value": "V"})
    pre_ok, pre_desc = _prevalidated(ctx, fn, w, opt_set)
    uncovered = {}
    for e in sorted(body_esc, key=lambda e: (e.exc, e.rel, e.qual, e.text)):
        hit = next(((h, r) for h, names, r in hs if any(mr.h.isa(e.exc, n) for n in names)), None)
        if hit is not None and hit[1]:
            continue
        from_check = any((x.exc, x.rel, x.qual, x.text) == (e.exc, e.rel, e.qual, e.text) for x in check_esc) and \
            not any((x.exc, x.rel, x.qual, x.text) == (e.exc, e.rel, e.qual, e.text) for x in set_rest)
        if from_check and pre_ok:
            continue
        why = "no handler of rollback catches it" if hit is None else "the rollback handler that catches it does not restore _options"
        if from_check:
            why += f"; not excluded by pre-validation either ({pre_desc})"
        uncovered.setdefault(e.exc, (e, why))
    for typ, (e, why) in sorted(uncovered.items()):
        ctx.fail("R44.1", (OM, "OptManager.update_known", w), f"{typ} inside the rollback block is not rolled back",
                 f"{typ} raised at {e.site()} ({e.why}): {why}; options assigned earlier in the same update stay applied and nobody is notified; "
                 "call chain: " + " -> ".join(mr.chain(key, e)), chain=mr.chain(key, e))
    if not uncovered:
        ctx.ok("R44.1", f"escape set of the rollback block {sorted({e.exc for e in body_esc})}: restored by rollback "
               f"{[n for _, ns, r in hs if r for n in ns]}" + (f"; TypeError of _Option.set excluded by pre-validation: {pre_desc}" if pre_ok else ""))
    ctx.sample({"rule": "R44.1", "escape_set": sorted({e.exc for e in body_esc}), "restoring_handlers": [ns for _, ns, r in hs if r],
                "prevalidated": pre_ok, "idiom": pre_desc})
    ctx.expect_instances("R44.1", 1)

    # ---- R44.2
    ctx.check(len(copies) == 1, "R44.2", (OM, "OptManager.rollback", rb), "old = copy.deepcopy(self._options) before the body",
              "rollback no longer snapshots the options before yielding", desc="deep copy taken before the yield")
    h_opt = [(h, r) for h, names, r in hs if "OptionsError" in names]
    ctx.require(len(h_opt) == 1, "rollback: OptionsError handler vanished")
    h = h_opt[0][0]
    seq = []
    for st in h.body:
        if isinstance(st, ast.Expr) and isinstance(st.value, ast.Call):
            seq.append("call:" + norm(st.value.func) + "(" + ",".join(f"{k.arg}={norm(k.value)}" for k in st.value.keywords) + ")")
        elif isinstance(st, ast.Assign):
            seq.append("assign:" + norm(st.targets[0]))
        elif isinstance(st, ast.If) and any(isinstance(x, ast.Raise) for x in st.body):
            seq.append("reraise-if:" + norm(st.test))
        elif isinstance(st, ast.Raise):
            seq.append("reraise")
    want_prefix = ["call:self.errored.send(exc=%s)" % (h.name or "e")]
    restore_i = next((i for i, s in enumerate(seq) if s in ("assign:self.__dict__['_options']", "assign:self._options")), -1)
    notify_i = next((i for i, s in enumerate(seq) if s == "call:self.changed.send(updated=updated)"), -1)
    err_i = next((i for i, s in enumerate(seq) if s == want_prefix[0]), -1)
    rr_i = next((i for i, s in enumerate(seq) if s.startswith("reraise")), -1)
    ok = 0 <= err_i < restore_i < notify_i and (rr_i == -1 or rr_i > notify_i) and h_opt[0][1]
    ctx.check(ok, "R44.2", (OM, "OptManager.rollback", h), "errored.send -> restore -> changed.send(updated) -> re-raise",
              f"handler sequence is {seq}: listeners would not observe the restored state (or the state is not restored)", desc=f"handler order {seq}")
    rr_ok = rr_i != -1 and (seq[rr_i] == "reraise" or seq[rr_i] == "reraise-if:reraise")
    wcall = w.items[0].context_expr
    passes = any(k.arg == "reraise" and isinstance(k.value, ast.Constant) and k.value.value is True for k in wcall.keywords)
    ctx.check(rr_ok and passes, "R44.2", (OM, "OptManager.update_known", w), "update_known asks rollback to re-raise", "a rejected update is swallowed silently",
              desc="rollback(updated, reraise=True) re-raises after restoring")
    first_assign = next((i for i, s in enumerate(opt_set.body) if isinstance(s, ast.Assign) and norm(s.targets[0]) == "self.value"), -1)
    first_check = next((i for i, s in enumerate(opt_set.body) if s in chk_stmt), -1)
    ctx.check(0 <= first_check < first_assign, "R44.2", (OM, "_Option.set", opt_set), "_Option.set checks the type before assigning",
              "a value of the wrong type is stored before (or without) being checked", desc="check_option_type precedes self.value = value")
    ctx.expect_instances("R44.2", 4)

    # ---- R44.3 (serialize / load instances come from the interpretation shared with R44.4, see _config_path)
    ser, save = ctx.func(OM, "serialize"), ctx.func(OM, "save")
    params = [a.arg for a in ser.args.posonlyargs + ser.args.args]
    ctx.require("defaults" in params and any(a.arg == "defaults" for a in save.args.args + save.args.kwonlyargs), "serialize/save no longer take `defaults`")
    pos = params.index("defaults")
    calls = [n for n in walk_in_order(save) if isinstance(n, ast.Call) and norm(n.func) == "serialize"]
    ok = bool(calls) and all((len(c.args) > pos and norm(c.args[pos]) == "defaults") or any(k.arg == "defaults" and norm(k.value) == "defaults" for k in c.keywords) for c in calls)
    ctx.check(ok, "R44.3", (OM, "save", save), "save forwards `defaults` to serialize", "save ignores its defaults flag", desc="save -> serialize(..., defaults)")

    # ---- R44.4
    ctx.rule("R44.4", "serialize hands the dumper the current value of every changed option and load hands update_defer the parsed mapping unchanged "
             "(all supported types incl. None / falsy / empty values, unknown keys deferred)")
    ctx.guard(_config_path, ctx)
    ctx.expect_instances("R44.3", 4)
    ctx.expect_instances("R44.4", 4)


# (option name, type label, default, current value): one representative per supported type x value class
_OPTIONS = [
    ("bool_off", "bool", True, False), ("bool_on", "bool", False, True),
    ("int_zero", "int", 8080, 0), ("int_neg", "int", 0, -1),
    ("str_empty", "str", "dflt", ""), ("str_null_word", "str", "", "null"), ("str_tilde", "str", "", "~"), ("str_yes_word", "str", "", "yes"),
    ("str_quotes_newline", "str", "", "a\n'b\" c: #"), ("str_unicode", "str", "", "caf\u00e9 \u4e2d"),
    ("optstr_none", "Optional[str]", "dflt", None), ("optstr_empty", "Optional[str]", None, ""), ("optstr_value", "Optional[str]", None, "v"),
    ("optint_none", "Optional[int]", 5, None), ("optint_zero", "Optional[int]", None, 0), ("optint_value", "Optional[int]", None, 7),
    ("seq_empty", "Sequence[str]", ["a"], []), ("seq_value", "Sequence[str]", [], ["a", "b"]),
    ("same_str", "str", "d", "d"), ("same_none", "Optional[str]", None, None), ("scripts", "Sequence[str]", [], ["s1.py", "sub/s2.py"]),
]


def _same(a, b):
    """type-identical equality (False != 0, [] != (), None only equals None)."""
    if type(a) is not type(b):
        return False
    if isinstance(a, (list, tuple)):
        return len(a) == len(b) and all(_same(x, y) for x, y in zip(a, b))
    return a == b


class _Dumper:
    """recording stand-in for ruamel.yaml.YAML (library trusted): remembers every document handed to dump()."""

    docs: list = []

    def __init__(self, *a, **kw):
        pass

    def dump(self, data, *a, **kw):
        _Dumper.docs.append(data)


def _config_path(ctx):
    import copy as _copy
    import pathlib as _pathlib
    import types as _types

    m = ctx.model
    ser, load = ctx.func(OM, "serialize"), ctx.func(OM, "load")
    ruamel = _types.SimpleNamespace(yaml=_types.SimpleNamespace(YAML=_Dumper))
    current = {n: cur for n, _, _, cur in _OPTIONS}
    default = {n: d for n, _, d, _ in _OPTIONS}
    label = {n: t for n, t, _, _ in _OPTIONS}
    changed = {n for n in current if not _same(current[n], default[n])}

    def interp(parsed):
        it = Interp(m, trusted_modules={"pathlib": _pathlib, "ruamel": ruamel, "copy": _copy})
        it.overrides[(OM, "parse")] = lambda text: _copy.deepcopy(parsed)
        it.overrides[(OM, "relative_path")] = lambda p, relative_to=None, **kw: _pathlib.PurePosixPath("/rebased") / str(p)
        return it

    def run(it, qual, *args, **kwargs):
        try:
            return it.call(OM, qual, *args, **kwargs)
        except Raised as r:
            raise AnalysisError(f"R44.4: {qual} raises {r.name} on the representative options ({r.msg}) - interface of the abstract OptManager outgrown")

    # ---- (a) serialize
    # the previous file: a stale value for a changed option, a key that is no option (any more), a value for an unchanged option
    previous = {"int_zero": 4711, "optstr_none": "stale", "seq_empty": ["stale"], "gone_option": 1, "same_str": "d"}
    key_errors, alien_all = [], []
    for defaults in (False, True):
        opts = DictRec("OptManager", items={n: n for n in current}, _name="opts",
                       keys=lambda: set(current), has_changed=lambda k: k in changed, default=lambda k: _copy.deepcopy(default[k]),
                       _options={n: n for n in current}, **{n: _copy.deepcopy(v) for n, v in current.items()})
        _Dumper.docs = []
        it = interp(previous)
        run(it, "serialize", opts, "<file>", "<previous text>", defaults)
        ctx.cells += len(current)
        ctx.require(len(_Dumper.docs) == 1 and isinstance(_Dumper.docs[0], dict), f"R44.4: serialize(defaults={defaults}) handed {len(_Dumper.docs)} documents to the YAML dumper (expected one mapping)")
        doc = _Dumper.docs[0]
        want = set(current) if defaults else changed
        # R44.3: WHICH options are written: all with `defaults`, else the changed ones (+ what the previous file already said about an option)
        allowed = want | (set(previous) & set(current))
        alien = sorted(k for k in doc if k not in current)
        alien_all += [k for k in alien if k not in alien_all]
        missing, extra = sorted(want - set(doc)), sorted(k for k in doc if k in current and k not in allowed)
        if missing or extra:
            key_errors.append(f"defaults={defaults}: " + "; ".join(x for x in (f"not written {missing}" if missing else "", f"written although unchanged {extra}" if extra else "") if x))
        # R44.4: WHAT is written
        lost = sorted(n for n in want if n not in doc)
        wrong = sorted(n for n in want if n in doc and not _same(doc[n], current[n]))
        why = []
        if lost:
            why.append("not written: " + ", ".join(f"{n} ({label[n]} = {current[n]!r}, default {default[n]!r})" for n in lost))
        if wrong:
            why.append("written with another value: " + ", ".join(f"{n} ({label[n]}: {doc[n]!r} instead of {current[n]!r})" for n in wrong))
        ctx.check(not why, "R44.4", (OM, "serialize", ser), f"serialize(defaults={defaults}) writes the current value of every {'option' if defaults else 'changed option'}",
                  "; ".join(why) + " - the saved file does not reproduce these non-default values when it is loaded", desc=f"serialize(defaults={defaults}): {len(want)} representative options written type-identically",
                  lost=lost, wrong=wrong)
    ctx.check(not key_errors, "R44.3", (OM, "serialize", ser), "serialize writes an option iff `defaults` or it has changed", "the set of serialised options is no longer {changed} / {all}: " + " | ".join(key_errors),
              desc="serialize: exactly the changed options (all with defaults) are written; entries of the previous file for known options are kept")
    ctx.check(not alien_all, "R44.3", (OM, "serialize", ser), "serialize drops keys that are not options", f"unknown keys of an old file survive serialisation: {alien_all}", desc="serialize: unknown keys of the previous file dropped")

    # ---- (b) load
    parsed = {n: _copy.deepcopy(current[n]) for n in current}
    parsed.update({"deferred_none": None, "deferred_false": False, "deferred_list": [], "deferred_value": "x"})  # options an addon registers later
    for cwd in (None, "/cfg"):
        got: list = []
        strict: list = []
        opts = DictRec("OptManager", items={n: n for n in current}, _name="opts", keys=lambda: set(current), _options={n: n for n in current},
                       has_changed=lambda k: False, update_defer=lambda **kw: got.append(kw), update=lambda **kw: strict.append(kw),
                       update_known=lambda **kw: strict.append(kw), **{n: _copy.deepcopy(default[n]) for n in current})
        it = interp(parsed)
        run(it, "load", opts, "<text>", cwd)
        ctx.cells += len(parsed)
        if cwd is None:
            ctx.check(bool(got) and not strict, "R44.3", (OM, "load", load), "load applies the parsed mapping through update_defer",
                      "load no longer applies the parsed mapping through update_defer: options an addon registers later are rejected (update) or silently dropped (update_known) instead of deferred",
                      desc="load feeds update_defer")
        applied: dict = {}
        for kw in got + strict:
            applied.update(kw)
        lost = sorted(k for k in parsed if k not in applied)
        wrong = sorted(k for k in parsed if k in applied and not _same(applied[k], parsed[k]) and not (k == "scripts" and cwd is not None))
        if cwd is not None and "scripts" in applied:
            sc = applied["scripts"]
            if not (isinstance(sc, list) and len(sc) == len(parsed["scripts"]) and all(isinstance(x, str) for x in sc)):
                wrong.append("scripts")
        alien = sorted(k for k in applied if k not in parsed)
        why = []
        if lost:
            why.append("never handed to update_defer: " + ", ".join(f"{k} = {parsed[k]!r}" for k in lost))
        if wrong:
            why.append("handed on with another value: " + ", ".join(f"{k} ({applied[k]!r} instead of {parsed[k]!r})" for k in wrong))
        if alien:
            why.append(f"keys the file does not contain: {alien}")
        ctx.check(not why, "R44.4", (OM, "load", load), f"load(cwd={cwd!r}) hands the parsed mapping to update_defer unchanged",
                  "; ".join(why) + " - an option saved with such a value comes back as its default after save + load", desc=f"load(cwd={cwd!r}): {len(parsed)} parsed keys reach update_defer type-identically",
                  lost=lost, wrong=wrong, alien=alien)
    ctx.bounds.append(f"R44.4: serialize/load interpreted on {len(_OPTIONS)} representative options (one per supported type x value class) + 4 deferred keys")
    ctx.trust("ruamel.yaml dumps and safe-loads bool/int/str/None/list-of-str values unchanged (R44.4 stops at the dumper / at parse)")


PRE = "            for k, v in known.items():\n                typecheck.check_option_type(k, v, self._options[k].typespec)\n"
MUTANTS = [
    # R44.1 - reverse of the F-C44 fix and variants of it
    Mutant("reverse-fix-no-prevalidation", OM, PRE, "", "R44.1"),
    Mutant("prevalidation-of-other-values", OM, PRE, "            for k, v in kwargs.items():\n                typecheck.check_option_type(k, v, self._options[k].typespec)\n", "R44.1"),
    Mutant("prevalidation-against-default-type", OM, PRE, "            for k, v in known.items():\n                typecheck.check_option_type(k, v, type(self._options[k].default))\n", "R44.1"),
    Mutant("prevalidation-swallows-failure", OM, PRE, "            for k, v in known.items():\n                try:\n                    typecheck.check_option_type(k, v, self._options[k].typespec)\n                except TypeError:\n                    continue\n", "R44.1"),
    Mutant("rollback-handler-does-not-restore", OM, "            self.__dict__[\"_options\"] = old\n            self.changed.send(updated=updated)\n", "            self.changed.send(updated=updated)\n", "R44.1"),
    Mutant("set-raises-valueerror-for-choices", OM, "        typecheck.check_option_type(self.name, value, self.typespec)\n        self.value = value\n",
           "        typecheck.check_option_type(self.name, value, self.typespec)\n        if self.choices and value not in self.choices:\n            raise ValueError(f\"invalid choice for {self.name}\")\n        self.value = value\n", "R44.1"),
    # R44.2
    Mutant("rollback-takes-shallow-copy", OM, "        old = copy.deepcopy(self._options)\n        try:\n            yield\n", "        old = copy.copy(self._options)\n        try:\n            yield\n", "R44.2"),
    Mutant("rollback-notifies-before-restoring", OM, "            self.__dict__[\"_options\"] = old\n            self.changed.send(updated=updated)\n", "            self.changed.send(updated=updated)\n            self.__dict__[\"_options\"] = old\n", "R44.2"),
    Mutant("update-known-swallows-rejection", OM, "with self.rollback(updated, reraise=True):", "with self.rollback(updated):", "R44.2"),
    Mutant("option-set-assigns-before-check", OM, "        typecheck.check_option_type(self.name, value, self.typespec)\n        self.value = value\n", "        self.value = value\n        typecheck.check_option_type(self.name, value, self.typespec)\n", "R44.2"),
    # R44.3
    Mutant("serialize-writes-everything", OM, "        if defaults or opts.has_changed(k):\n            data[k] = getattr(opts, k)", "        if True:\n            data[k] = getattr(opts, k)", "R44.3"),
    Mutant("serialize-keeps-unknown-keys", OM, "        if k not in opts._options:\n            del data[k]\n", "        pass\n", "R44.3"),
    Mutant("load-uses-strict-update", OM, "    opts.update_defer(**data)", "    opts.update(**data)", "R44.3"),
    Mutant("save-ignores-defaults", OM, "serialize(opts, f, data, defaults)", "serialize(opts, f, data)", "R44.3"),
    # R44.4 - seed C44b and the same class of edit on either side of the config path
    Mutant("load-drops-null-values", OM, "    data = parse(text)\n\n    scripts = data.get", "    data = parse(text)\n    data = {k: v for k, v in data.items() if v is not None}\n\n    scripts = data.get", "R44.4"),
    Mutant("load-drops-falsy-values", OM, "    opts.update_defer(**data)", "    opts.update_defer(**{k: v for k, v in data.items() if v})", "R44.4"),
    Mutant("load-applies-known-options-only", OM, "    opts.update_defer(**data)", "    opts.update_defer(**{k: v for k, v in data.items() if k in opts})", "R44.4"),
    Mutant("serialize-skips-none", OM, "        if defaults or opts.has_changed(k):\n            data[k] = getattr(opts, k)", "        if (defaults or opts.has_changed(k)) and getattr(opts, k) is not None:\n            data[k] = getattr(opts, k)", "R44.4"),
    Mutant("serialize-keeps-stale-file-value", OM, "            data[k] = getattr(opts, k)", "            data.setdefault(k, getattr(opts, k))", "R44.4"),
    Mutant("serialize-stringifies-values", OM, "            data[k] = getattr(opts, k)", "            data[k] = str(getattr(opts, k))", "R44.4"),
]
