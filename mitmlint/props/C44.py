"""C44 - option updates are transactional and typed; config save/load uses the same option set.

Decided (nothing of the repository is executed; ``OptManager`` and its option class are *interpreted* from their AST with pyint):
  R44.1 typed + transactional on a type error.
        (a) static, exhaustive in the exception types (E5): the escape set of the block guarded by the rollback context manager in
            ``OptManager.update_known`` (found by role: the ``with self.<@contextmanager method>(..)`` reached from update_known, also
            through extracted ``self._helper()`` methods; calls of option objects / signal receivers resolved by role).  Every escaping
            exception must either be caught by a handler around the ``yield`` of that context manager whose restoring effect is then
            *observed* by interpretation (a listener raising exactly that exception: every option back at its previous value), or stem
            from the type checker ``typecheck.check_option_type`` and be excluded by pre-validation - decided on the interpreted runs:
            every checker call made after the first write to a live option object repeats a call (same value, same typespec) that
            passed before that first write.
        (b) by interpretation over one representative option per supported type (bool, int, str, Optional[str], int | None,
            Sequence[str]): ``update_known`` with one value of the wrong type at every position (unknown key in front) raises
            TypeError and leaves every option at its previous value; nobody observes a partially applied state last.
  R44.2 transactional on a rejecting listener, by interpretation of update_known / update / attribute assignment:
        the rejection (OptionsError) reaches the caller; every option is back at its previous value (also options that an earlier
        listener assigned in a nested update, also values replaced in place - the snapshot is deep and complete); the listeners' last
        observation is the restored state; an accepted update applies every value, notifies with exactly the names of the assigned
        options and hands back the unknown keys; the option object's setter refuses a value of the wrong type without storing it.
  R44.3 ``serialize`` writes exactly the options with ``has_changed`` (or all with ``defaults``), drops keys that are not options,
        ``save`` forwards ``defaults`` (``save`` itself is interpreted on a model path: existing file / no file); ``load`` feeds
        ``update_defer`` with the parsed mapping.  (serialize / load: decided on the key sets observed when both functions are
        interpreted from their AST - same runs as R44.4 - not on their source text.)
  R44.4 (E3, pyint) the config path is value-faithful - clause "saving options to a config file and loading that file into fresh options
        reproduces every non-default value".  ``serialize`` and ``load`` are interpreted from their AST (nothing executed) over one
        representative option per (supported type x value class): bool on/off, int 0/negative, str ""/YAML-special words/quotes+newline/
        unicode, Optional[str]/Optional[int] None-with-non-None-default / falsy / plain, Sequence[str] empty / non-empty, an unchanged
        option, and keys that are not (yet) options.  ``parse`` and the YAML dumper are replaced by recording stubs (library trusted),
        the OptManager by an abstract record offering its accessor contract (keys / has_changed / attribute read / ``_options`` / ``in``):
          (a) the mapping handed to the dumper holds, for EVERY changed option, exactly its current value (same type - None stays None,
              False stays False, [] stays []), never a stale value of the previous file (which keys are written: R44.3); with
              ``defaults`` every option;
          (b) the keyword arguments ``load`` hands to ``update_defer`` are exactly the parsed mapping - every key (known or deferrable),
              every value type-identical; only ``scripts`` may be re-based, and only when ``cwd`` is given.
        A value class dropped or coerced on either side (None, falsy, empty list, unknown key) is a non-default value the next start
        silently replaces by the default.
NOT decided: YAML text round-trip of a value (ruamel trusted); listeners raising anything but OptionsError (contract of
``subscribe``/``changed``); that update_defer applies what it is handed (R44.1/R44.2 cover its transactionality); whether the ``errored``
signal is sent (not part of the property).
"""

from __future__ import annotations

import ast
import collections
import collections.abc
import copy as _copy
import functools
import itertools
import operator
import pprint
import textwrap
import types as _types
import typing

from ..core import AnalysisError
from ..core import norm
from ..model import decorators
from ..model import last_attr
from ..pyint import ClassRef
from ..pyint import DictRec
from ..pyint import Func
from ..pyint import Gen
from ..pyint import Interp
from ..pyint import NullLog
from ..pyint import Raised
from ..pyint import Rec
from ..pyint import _Break
from ..pyint import _Continue
from ..pyint import _Return
from ..selftest import Mutant
from ._helpers_H import Config
from ._helpers_H import MayRaise

PROP = "C44"
REG = {
    "strength": "partial",
    "technique": "AST interpretation of OptManager / its option class (update_known, rollback context manager, subscribers, attribute protocol) in concrete "
    "worlds with recording listeners + exception-escape sets vs. handlers of the rollback context manager (E5) + AST interpretation of "
    "serialize/load/save over representative options of every supported type",
    "claim": "every exception type that can escape the block guarded by update_known's rollback context is either observed to be rolled back or stems "
    "from the type checker and repeats a check passed before the first mutation; on a wrong-typed value (every position, every supported type) and on "
    "a rejecting listener (also after a nested update by an earlier listener) every option is back at its previous value, listeners last observe that "
    "state and the caller sees the rejection; accepted updates notify with the assigned names; serialize/load/save agree on the option set and hand "
    "every representative value (None, falsy, empty, YAML-special strings, deferred keys) on type-identically.",
    "note": "Listener contract: receivers of `changed` raise OptionsError only. check_option_type is assumed deterministic in its arguments. "
    "signals.SyncSignal is modelled (receivers called in connection order, exceptions propagate); copy.deepcopy/copy over option objects follows their __deepcopy__.",
}

OM = "mitmproxy/optmanager.py"
TC = "mitmproxy/utils/typecheck.py"
SIG = "mitmproxy/utils/signals.py"
CHECKER = "check_option_type"
_META = ("_cls", "_bases", "_impl", "_name", "_items")


# =====================================================================================================================================
# interpreter: pyint + what the options machinery needs


def _abs(f):
    f._pyint_accepts_abstract = True
    return f


class _AttrDict(dict):
    """``obj.__dict__`` of an abstract record: reads see the record's attributes, writes go to the record."""

    def __init__(self, rec, it):
        super().__init__({k: v for k, v in rec.__dict__.items() if k not in _META})
        self._rec, self._it = rec, it

    def __setitem__(self, k, v):
        super().__setitem__(k, v)
        self._it.raw_set(self._rec, k, v)

    def __delitem__(self, k):
        super().__delitem__(k)
        self._rec.__dict__.pop(k, None)

    def update(self, *a, **kw):
        for k, v in dict(*a, **kw).items():
            self[k] = v

    def pop(self, k, *d):
        if k in self:
            v = self[k]
            del self[k]
            return v
        if d:
            return d[0]
        raise KeyError(k)

    def setdefault(self, k, d=None):
        if k not in self:
            self[k] = d
        return self[k]


class _Signal:
    """model of mitmproxy.utils.signals.SyncSignal: receivers are called in connection order with the arguments of send();
    an exception of a receiver propagates to the sender (the remaining receivers are not called)."""

    _pyint_accepts_abstract = True

    def __init__(self, it):
        self.it = it
        self.receivers: list = []
        self.sent: list = []

    def connect(self, receiver):
        self.receivers.append(receiver)

    def disconnect(self, receiver):
        self.receivers = [r for r in self.receivers if r is not receiver]

    def send(self, *args, **kwargs):
        self.sent.append((args, dict(kwargs)))
        for r in list(self.receivers):
            self.it.apply(r, list(args), dict(kwargs), self.it.d)

    def __deepcopy__(self, memo):
        return self


class _CopyModel:
    """model of the stdlib ``copy`` module over abstract records (``__deepcopy__`` / ``__copy__`` of repository classes are interpreted)."""

    _pyint_accepts_abstract = True

    def __init__(self, it):
        self.it = it

    def _special(self, x, name):
        it = self.it
        if x._impl is None:
            return None
        m = it.model.method(*x._impl, name)
        if m is not None:
            return m
        for _, cc in it.model.mro(*x._impl):  # `__copy__ = __deepcopy__` at class level
            for st in cc.body:
                if isinstance(st, ast.Assign) and any(isinstance(t, ast.Name) and t.id == name for t in st.targets) and isinstance(st.value, ast.Name):
                    return it.model.method(*x._impl, st.value.id)
        return None

    def deepcopy(self, x, memo=None):
        it = self.it
        if isinstance(x, Rec):
            m = self._special(x, "__deepcopy__")
            if m is not None:
                return it.apply(Func(m[0], m[1], bound=x), [memo if memo is not None else {}], {}, it.d)
            new = _copy.copy(x)
            for k, v in list(x.__dict__.items()):
                if k not in _META:
                    object.__setattr__(new, k, self.deepcopy(v, memo))
            if isinstance(x, DictRec):
                object.__setattr__(new, "_items", self.deepcopy(x._items, memo))
            return new
        if isinstance(x, dict):
            return {self.deepcopy(k, memo): self.deepcopy(v, memo) for k, v in x.items()}
        if isinstance(x, list):
            return [self.deepcopy(v, memo) for v in x]
        if isinstance(x, tuple):
            return tuple(self.deepcopy(v, memo) for v in x)
        if isinstance(x, (set, frozenset)):
            return type(x)(self.deepcopy(v, memo) for v in x)
        if isinstance(x, (Func, ClassRef, _Signal)) or callable(x):
            return x
        try:
            return _copy.deepcopy(x)
        except Exception:  # typing objects and friends: immutable
            return x

    def copy(self, x):
        it = self.it
        if isinstance(x, Rec):
            m = self._special(x, "__copy__")
            if m is not None:
                n_params = len(m[1].args.posonlyargs + m[1].args.args)
                return it.apply(Func(m[0], m[1], bound=x), [None] * max(0, n_params - 1), {}, it.d)
        return _copy.copy(x)


class OptInterp(Interp):
    """pyint + ``with`` over ``@contextmanager`` generators (the body runs at the yield, exceptions of the body are thrown in there),
    over records with ``__enter__/__exit__`` and over native context managers; ``obj.__dict__``; class-level ``__getattr__`` /
    ``__setattr__`` / ``__contains__`` / ``__eq__`` of repository classes; ``super().__setattr__``; overrides that also apply to
    ``from module import name``; a log of record writes, instantiations and calls."""

    def __init__(self, model, trusted_modules=None, **kw):
        tm = {"typing": typing, "collections": collections, "textwrap": textwrap, "pprint": pprint, "logging": NullLog(), "warnings": NullLog(), "copy": _CopyModel(self),
              "itertools": itertools, "functools": functools, "operator": operator}
        tm.update(trusted_modules or {})
        super().__init__(model, trusted_modules=tm, max_depth=kw.pop("max_depth", 80), max_steps=kw.pop("max_steps", 3000000), **kw)
        self.d = 0
        self._cm: list = []
        self.events: list = []  # ('write', rec, attr, value) | ('new', ClassRef, rec) | ('call', Func, args, kwargs)
        self.called: set = set()
        self.extra_builtins: dict = {}  # rule-supplied models of builtins pyint does not offer (open)

    # -- bookkeeping
    def raw_set(self, rec, attr, value):
        object.__setattr__(rec, attr, value)
        self.writes.append((rec._name, "attr", attr, value))
        self.events.append(("write", rec, attr, value))

    def call_func(self, f, args, kwargs, depth):
        prev, self.d = self.d, depth
        try:
            q = getattr(f.node, "_qual", None)
            if q is not None:
                self.called.add(f"{f.mod.rel}::{q}")
                self.events.append(("call", f, list(args), dict(kwargs)))
            return super().call_func(f, args, kwargs, depth)
        finally:
            self.d = prev

    def instantiate(self, c, args, kwargs, depth, where):
        # (the record is logged before __init__ runs so that writes of the constructor are attributed to a *new* object)
        n0 = len(self.events)
        self.events.append(("new", c, None))
        rec = super().instantiate(c, args, kwargs, depth, where)
        self.events[n0] = ("new", c, rec)
        return rec

    def native_call(self, f, args, kwargs, where):
        if f is typing.cast and len(args) == 2:
            return args[1]
        return super().native_call(f, args, kwargs, where)

    # -- names
    def name(self, ident, env, mod, depth, node):
        if ident not in env and ident in mod.imports and (mod.rel, ident) not in self.overrides and "." in mod.imports[ident]:
            mpart, npart = mod.imports[ident].rsplit(".", 1)
            m = self.model.module_by_dotted(mpart)
            if m is not None and (m.rel, npart) in self.overrides:
                return self.overrides[(m.rel, npart)]
        try:
            return super().name(ident, env, mod, depth, node)
        except AnalysisError:
            if ident in self.extra_builtins:
                return self.extra_builtins[ident]
            if ident == "object":
                return object
            raise

    # -- with
    def stmt(self, st, env, mod, depth):
        if isinstance(st, ast.With):
            simple = len(st.items) == 1 and st.items[0].optional_vars is None and isinstance(st.items[0].context_expr, ast.Call) \
                and last_attr(st.items[0].context_expr.func) in ("suppress", "nullcontext")
            if not simple:
                self.tick()
                return self.with_(st, 0, env, mod, depth)
        return super().stmt(st, env, mod, depth)

    def with_(self, st, i, env, mod, depth):
        if i == len(st.items):
            return self.block(st.body, env, mod, depth)
        item = st.items[i]
        cm = self.ev(item.context_expr, env, mod, depth)

        def body(value):
            if item.optional_vars is not None:
                self.assign(item.optional_vars, value, env, mod, depth)
            self.with_(st, i + 1, env, mod, depth)

        if isinstance(cm, Gen):
            if not any(d.split(".")[-1] == "contextmanager" for d in decorators(cm.node)):
                raise AnalysisError(f"pyint: with over a plain generator ({cm.node.name} is not a @contextmanager)")
            fr = {"state": "pre", "gd": len(self._gen_targets), "body": body, "ctl": None}
            self._cm.append(fr)
            try:
                try:
                    self.block(cm.node.body, dict(cm.env), cm.f.mod, cm.depth)
                except _Return:
                    pass
            finally:
                self._cm.pop()
            if fr["state"] == "pre":
                raise Raised("RuntimeError", "generator didn't yield")
            if fr["ctl"] is not None:
                raise fr["ctl"]
            return None
        if isinstance(cm, Rec) and cm._impl is not None and self.model.method(*cm._impl, "__enter__") and self.model.method(*cm._impl, "__exit__"):
            v = self.apply(self.getattr(cm, "__enter__", st, depth), [], {}, depth)
            ex = self.getattr(cm, "__exit__", st, depth)
            try:
                body(v)
            except Raised as r:
                if not self.truthy(self.apply(ex, [("$exc", r.name), f"<exc:{r.name}>", None], {}, depth)):
                    raise
                return None
            except (_Return, _Break, _Continue):
                self.apply(ex, [None, None, None], {}, depth)
                raise
            self.apply(ex, [None, None, None], {}, depth)
            return None
        if not isinstance(cm, (Rec, Func, ClassRef, tuple)) and hasattr(cm, "__enter__") and hasattr(cm, "__exit__"):
            v = cm.__enter__()
            try:
                body(v)
            except Raised as r:
                if not cm.__exit__(Exception, r, None):
                    raise
                return None
            except (_Return, _Break, _Continue):
                cm.__exit__(None, None, None)
                raise
            cm.__exit__(None, None, None)
            return None
        raise AnalysisError(f"pyint: with-statement not modelled: {norm(st)[:80]}")

    def do_yield(self, value):
        if self._cm and len(self._gen_targets) == self._cm[-1]["gd"]:
            fr = self._cm[-1]
            if fr["state"] == "pre":
                fr["state"] = "body"
                try:
                    fr["body"](value)
                except (_Return, _Break, _Continue) as c:
                    fr["ctl"] = c
                finally:
                    fr["state"] = "post"
                return None
            if fr["state"] == "post":
                raise Raised("RuntimeError", "generator didn't stop")
        return super().do_yield(value)

    # -- attributes
    def _class_has(self, rec, attr) -> bool:
        for _, c in self.model.mro(*rec._impl):
            for st in c.body:
                if isinstance(st, (ast.FunctionDef, ast.AsyncFunctionDef)) and st.name == attr:
                    return True
                if isinstance(st, ast.Assign) and any(isinstance(t, ast.Name) and t.id == attr for t in st.targets):
                    return True
                if isinstance(st, ast.AnnAssign) and isinstance(st.target, ast.Name) and st.target.id == attr and st.value is not None:
                    return True
        return False

    def getattr(self, base, attr, node, depth):
        if isinstance(base, Rec) and base._impl is not None:
            if attr == "__dict__":
                return _AttrDict(base, self)
            if attr == "__class__":
                return ClassRef(self.model.module(base._impl[0]), self.model.cls(*base._impl))
            if attr not in base.__dict__ and not isinstance(base, DictRec) and not self._class_has(base, attr):
                ga = self.model.method(*base._impl, "__getattr__")
                if ga is not None:
                    return self.apply(Func(ga[0], ga[1], bound=base), [attr], {}, depth)
                raise Raised("AttributeError", attr)
        if isinstance(base, tuple) and base and base[0] == "$super" and attr in ("__setattr__", "__init__", "__delattr__"):
            try:
                return super().getattr(base, attr, node, depth)
            except AnalysisError:
                me = base[1]
                if attr == "__setattr__":
                    return _abs(lambda a, v: self.raw_set(me, a, v))
                if attr == "__delattr__":
                    return _abs(lambda a: me.__dict__.pop(a, None))
                return _abs(lambda *a, **k: None)
        return super().getattr(base, attr, node, depth)

    def assign(self, target, value, env, mod, depth):
        if isinstance(target, ast.Attribute):
            base = self.ev(target.value, env, mod, depth)
            if isinstance(base, Rec) and base._impl is not None and self.find_property(base, target.attr, "setter") is None:
                sa = self.model.method(*base._impl, "__setattr__")
                if sa is not None:
                    self.apply(Func(sa[0], sa[1], bound=base), [target.attr, value], {}, depth)
                else:
                    self.raw_set(base, target.attr, value)
                return None
            return super().assign(ast.Attribute(value=ast.Name(id="$o", ctx=ast.Load()), attr=target.attr, ctx=ast.Store()), value, {"$o": base}, mod, depth)
        return super().assign(target, value, env, mod, depth)

    def cmp(self, op, a, b, node):
        if isinstance(op, (ast.In, ast.NotIn)) and isinstance(b, Rec) and not isinstance(b, DictRec) and b._impl is not None:
            m = self.model.method(*b._impl, "__contains__")
            if m is not None:
                r = self.truthy(self.apply(Func(m[0], m[1], bound=b), [a], {}, self.d))
                return r if isinstance(op, ast.In) else not r
        if isinstance(op, (ast.Eq, ast.NotEq)):
            for x, y in ((a, b), (b, a)):
                if isinstance(x, Rec) and x._impl is not None:
                    m = self.model.method(*x._impl, "__eq__")
                    if m is not None:
                        r = self.truthy(self.apply(Func(m[0], m[1], bound=x), [y], {}, self.d))
                        return r if isinstance(op, ast.Eq) else not r
        return super().cmp(op, a, b, node)


# =====================================================================================================================================
# worlds: an interpreted OptManager with one option per supported type, recording listeners

# (name, typespec, default, value before the transaction, value of an accepted update, value of the wrong type)
_NOCHANGE = object()
_TX_OPTIONS = [
    ("flag", bool, False, _NOCHANGE, True, "yes"),
    ("count", int, 0, _NOCHANGE, 5, "5"),
    ("label", str, "dflt", "p", "x", 5),
    ("ostr", typing.Optional[str], None, "q", None, 7),
    ("oint", int | None, None, _NOCHANGE, 3, "3"),
    ("seqopt", collections.abc.Sequence[str], [], ["k"], ["a", "b"], [1]),
    ("aux", int, 0, _NOCHANGE, _NOCHANGE, _NOCHANGE),
]
_NAMES = [o[0] for o in _TX_OPTIONS]
_TYPE = {o[0]: o[1] for o in _TX_OPTIONS}
_PREV = {o[0]: o[3] for o in _TX_OPTIONS if o[3] is not _NOCHANGE}
_GOOD = {o[0]: o[4] for o in _TX_OPTIONS if o[4] is not _NOCHANGE}
_BAD = {o[0]: o[5] for o in _TX_OPTIONS if o[5] is not _NOCHANGE}
_REJECTED_LABEL = "rejected!"


def _same(a, b):
    """type-identical equality (False != 0, [] != (), None only equals None)."""
    if type(a) is not type(b):
        return False
    if isinstance(a, (list, tuple)):
        return len(a) == len(b) and all(_same(x, y) for x, y in zip(a, b))
    if isinstance(a, dict):
        return a.keys() == b.keys() and all(_same(a[k], b[k]) for k in a)
    return a == b


def _tname(t) -> str:
    return getattr(t, "__name__", None) if isinstance(t, type) else str(t).replace("typing.", "").replace("collections.abc.", "")


class _Listener:
    """a native listener (subscriber callback / receiver of a signal): records what it is told and what it then observes."""

    _pyint_accepts_abstract = True

    def __init__(self, world, label, react=None, dead=False):
        self.world, self.label, self.react, self.dead = world, label, react, dead
        self.seen: list = []  # (updated names | None, {option: value})

    def __call__(self, *args, **kwargs):
        updated = kwargs.get("updated")
        if updated is None:
            updated = next((a for a in args if isinstance(a, (set, frozenset))), None)
        self.seen.append((set(updated) if updated is not None else None, self.world.values(), dict(kwargs)))
        self.world.order.append(self.label)
        if self.react is not None:
            self.react(set(updated) if updated is not None else set())


class _Refused(Exception):
    """an update with values of the declared types is refused while a world is prepared"""


class _World:
    """``OptManager()`` interpreted, the representative options registered through ``add_option``, listeners registered through
    ``subscribe`` / ``changed.connect`` - only the public interface is used, values are read through attribute access."""

    def __init__(self, ctx, prev=True):
        self.ctx = ctx
        m = ctx.model
        self.it = it = OptInterp(m)
        self.signals: list = []
        self.order: list = []

        def mk_signal(*a, **k):
            s = _Signal(it)
            self.signals.append(s)
            return s

        it.overrides[(SIG, "SyncSignal")] = _abs(mk_signal)
        it.overrides[(SIG, "make_weak_ref")] = _abs(lambda f: _abs(lambda: None) if getattr(f, "dead", False) else _abs(lambda: f))
        it.overrides[(TC, "UnionType")] = _types.UnionType
        self.cref = ClassRef(m.module(OM), m.cls(OM, "OptManager"))
        self.om = self.run("OptManager()", lambda: it.instantiate(self.cref, [], {}, 0, "OptManager()"))
        n0 = len(it.events)
        for name, typespec, default, *_ in _TX_OPTIONS:
            self.run(f"add_option({name})", lambda: it.method(self.om, "add_option", name, typespec, _copy.deepcopy(default), f"help for {name}"))
        # the option class by role: what add_option instantiates (once per option)
        made = [(ev[1], ev[2]) for ev in it.events[n0:] if ev[0] == "new" and isinstance(ev[2], Rec)]
        classes = {c._key() for c, _ in made}
        if len(classes) != 1 or len(made) != len(_TX_OPTIONS):
            raise AnalysisError(f"R44: add_option creates {len(made)} objects of {sorted(classes)} for {len(_TX_OPTIONS)} options (one option object each expected)")
        self.opt_cls = made[0][0]
        if prev:
            out, _ = self.call("update", **_copy.deepcopy(_PREV))
            if out[0] != "ok":
                raise _Refused(f"update({', '.join(f'{k}={v!r}' for k, v in _PREV.items())}) on options of type {', '.join(_tname(_TYPE[k]) for k in _PREV)} (defaults "
                               f"{', '.join(repr(o[2]) for o in _TX_OPTIONS if o[0] in _PREV)}) raises {out[1]}")

    def run(self, what, thunk):
        try:
            return thunk()
        except Raised as r:
            raise AnalysisError(f"R44: {what} raises {r.name} in the interpreted world ({r.msg})")

    def signal(self, attr):
        s = self.run(f"opts.{attr}", lambda: self.it.getattr(self.om, attr, None, 0))
        if not isinstance(s, _Signal):
            raise AnalysisError(f"R44: OptManager.{attr} is not a signals.SyncSignal any more")
        return s

    def values(self) -> dict:
        out = {}
        for n in _NAMES:
            try:
                out[n] = _copy.deepcopy(self.it.getattr(self.om, n, None, 0))
            except Raised as r:
                out[n] = f"<{r.name}>"
        return out

    def subscribe(self, listener, names):
        self.run("subscribe", lambda: self.it.method(self.om, "subscribe", listener, list(names)))
        return listener

    def live_options(self) -> set:
        """ids of the option objects alive now (created so far)"""
        return {id(ev[2]) for ev in self.it.events if ev[0] == "new" and isinstance(ev[2], Rec) and ev[1] == self.opt_cls}

    def call(self, how, **kw):
        """-> (('ok', result) | ('raise', name), events of the call)"""
        it = self.it
        start = len(it.events)
        try:
            if how == "setattr":
                (k, v), = kw.items()
                it.assign(ast.Attribute(value=ast.Name(id="$o", ctx=ast.Load()), attr=k, ctx=ast.Store()), v, {"$o": self.om}, self.cref.mod, 0)
                out = ("ok", None)
            else:
                out = ("ok", it.method(self.om, how, **kw))
        except Raised as r:
            out = ("raise", r.name)
        return out, it.events[start:]


def _diff(got: dict, want: dict) -> str:
    return ", ".join(f"{k} = {got.get(k)!r} (previous value {want[k]!r})" for k in want if not _same(got.get(k), want[k]))


# =====================================================================================================================================
# static part: the guarded block, its escape set, the handlers around the yield


def _own(fn):
    todo = list(ast.iter_child_nodes(fn))
    while todo:
        n = todo.pop(0)
        if isinstance(n, (ast.FunctionDef, ast.AsyncFunctionDef, ast.ClassDef, ast.Lambda)):
            continue
        yield n
        todo[0:0] = list(ast.iter_child_nodes(n))


def _class_of(fn):
    p = getattr(fn, "_parent", None)
    return p if isinstance(p, ast.ClassDef) else None


def _guarded_blocks(ctx, fn):
    """[(holder function, With node, context-manager function)]: ``with self.<m>(..)`` statements with ``<m>`` a @contextmanager method,
    in ``fn`` or in ``self._helper()`` methods it (transitively) delegates to."""
    m = ctx.model
    cls = _class_of(fn)
    ctx.require(cls is not None, "update_known is not a method any more")
    out, seen, todo = [], set(), [fn]
    while todo:
        f = todo.pop(0)
        if id(f) in seen:
            continue
        seen.add(id(f))
        for n in _own(f):
            if isinstance(n, ast.With):
                for item in n.items:
                    ce = item.context_expr
                    if isinstance(ce, ast.Call) and isinstance(ce.func, ast.Attribute) and isinstance(ce.func.value, ast.Name) and ce.func.value.id == "self":
                        r = m.method(OM, cls._qual, ce.func.attr)
                        if r is not None and any(d.split(".")[-1] == "contextmanager" for d in decorators(r[1])):
                            out.append((f, n, r[1]))
            if isinstance(n, ast.Call) and isinstance(n.func, ast.Attribute) and isinstance(n.func.value, ast.Name) and n.func.value.id == "self" and len(seen) < 12:
                r = m.method(OM, cls._qual, n.func.attr)
                if r is not None and r[0].rel == OM and not any(d.split(".")[-1] == "contextmanager" for d in decorators(r[1])):
                    todo.append(r[1])
    return out


def _handlers_around_yield(ctx, mr, cm_fn):
    """[(handler, canonical names)] of the try statements whose *body* holds the yield of the context manager, innermost first."""
    ys = [n for n in _own(cm_fn) if isinstance(n, (ast.Yield, ast.YieldFrom))]
    ctx.require(len(ys) == 1 and isinstance(ys[0], ast.Yield), f"{cm_fn._qual}: a context manager with {len(ys)} yields is not modelled")
    mod = mr.model.module(OM)
    out = []
    child, p = ys[0], getattr(ys[0], "_parent", None)
    while p is not None and child is not cm_fn:
        if isinstance(p, ast.Try) and any(child is s for s in p.body):
            for h in p.handlers:
                out.append((h, ["BaseException"] if h.type is None else mr.handler_names(mod, h.type)))
        child, p = p, getattr(p, "_parent", None)
    return out


def check(ctx):
    ctx.rule("R44.1", "a value of the wrong type is refused before anything is assigned; every exception that can escape the rollback block is restored by rollback or excluded by identical pre-validation")
    ctx.rule("R44.2", "a rejecting listener: the caller sees the rejection, every option is back at its previous value (deep, complete snapshot), listeners last observe the restored state; "
             "accepted updates notify with the assigned names; the option setter checks before it stores")
    ctx.rule("R44.3", "serialize writes changed (or all) options and drops unknown keys; save forwards defaults; load feeds update_defer")
    ctx.rule("R44.4", "serialize hands the dumper the current value of every changed option and load hands update_defer the parsed mapping unchanged "
             "(all supported types incl. None / falsy / empty values, unknown keys deferred)")
    ctx.assume("listeners notified through OptManager.changed raise OptionsError only (documented contract of subscribe/changed)")
    ctx.assume("typecheck.check_option_type is deterministic in (value, typespec)")
    ctx.trust("signals.SyncSignal calls its receivers in connection order and lets their exceptions propagate; copy.deepcopy follows __deepcopy__")
    fn = ctx.func(OM, "OptManager.update_known")
    checker = ctx.func(TC, CHECKER)
    called: set = set()
    tx = ctx.guard(_transactions, ctx, fn, checker, called)
    if tx is not None:
        ctx.guard(_escape_coverage, ctx, fn, checker, tx, called)
    for f in sorted(called):
        ctx.functions.add(f)
    ctx.expect_instances("R44.1", 8)
    ctx.expect_instances("R44.2", 12)

    # ---- R44.3 / R44.4 (serialize / load / save are interpreted, see _config_path)
    ctx.guard(_config_path, ctx)
    ctx.expect_instances("R44.3", 4)
    ctx.expect_instances("R44.4", 4)


# =====================================================================================================================================
# R44.1 (b) / R44.2: transactions in interpreted worlds


def _checker_calls(events, checker):
    """calls of the type checker among the events: [(index, value, typespec)] (2nd and 3rd parameter)"""
    out = []
    params = [a.arg for a in checker.args.posonlyargs + checker.args.args]
    if len(params) < 3:
        raise AnalysisError(f"R44.1: {CHECKER} no longer takes (name, value, typespec)")
    for i, ev in enumerate(events):
        if ev[0] == "call" and ev[1].node is checker:
            bound = dict(zip(params, ev[2]))
            bound.update(ev[3])
            if params[1] not in bound or params[2] not in bound:
                raise AnalysisError(f"R44.1: a call of {CHECKER} without value / typespec")
            out.append((i, bound[params[1]], bound[params[2]]))
    # (the checker's recursive calls for Optional / Sequence are included: a repeated outer call repeats them as well)
    return out


def _transactions(ctx, fn, checker, called):
    try:
        return _transactions_(ctx, fn, checker, called)
    except _Refused as e:
        ctx.fail("R44.1", (OM, "OptManager.update_known", fn), "values of the declared types are accepted", f"{e} - a value of the declared type cannot be assigned (the type check compares against something else than the typespec)")
        return None


def _transactions_(ctx, fn, checker, called):
    where = (OM, "OptManager.update_known", fn)
    res = {"restores": {}, "prevalidated": None, "prevalidated_why": "", "setter": None}

    def world(**kw):
        w = _World(ctx, **kw)
        return w

    def done(w):
        called.update(w.it.called)
        ctx.cells += len(_NAMES)

    # ---- T2: an accepted update (all supported types, unknown keys in front and behind)
    w = world()
    sub = w.subscribe(_Listener(w, "subscriber(all)"), _NAMES)
    w.subscribe(_Listener(w, "dead", dead=True), ["label"])
    direct = _Listener(w, "changed-receiver")
    w.signal("changed").connect(direct)
    before = w.values()
    live = w.live_options()
    good = _copy.deepcopy(_GOOD)
    kwargs = {"zz_unknown": 1, **good, "zz_none": None}
    out, events = w.call("update_known", **kwargs)
    after = dict(before)
    after.update(_GOOD)
    problems = []
    if out[0] != "ok":
        problems.append(f"update_known({', '.join(kwargs)}) with values of the declared types raises {out[1]}")
    else:
        if not _same(w.values(), after):
            problems.append("not every value is applied: " + ", ".join(f"{k} = {w.values()[k]!r} instead of {after[k]!r}" for k in after if not _same(w.values()[k], after[k])))
        if not (isinstance(out[1], dict) and _same(out[1], {"zz_unknown": 1, "zz_none": None})):
            problems.append(f"the unknown keys are not handed back unchanged: {out[1]!r}")
        for l in (sub, direct):
            if not l.seen:
                problems.append(f"{l.label} is not notified")
            elif l.seen[-1][0] != set(_GOOD) or not _same(l.seen[-1][1], after):
                problems.append(f"{l.label} is last told {sorted(l.seen[-1][0] or [])} and observes {_diff(l.seen[-1][1], after) or 'the new values'} (expected names: {sorted(_GOOD)})")
    ctx.check(not problems, "R44.2", where, "an accepted update applies every value and notifies with the assigned names",
              "; ".join(problems), desc=f"accepted update of {len(_GOOD)} options (one per supported type) + 2 unknown keys: applied, listeners told {sorted(_GOOD)}, unknown keys returned")
    # pre-validation, observed: every checker call after the first write to a live option repeats an earlier one
    first_write = next((i for i, ev in enumerate(events) if ev[0] == "write" and id(ev[1]) in live), None)
    checks = _checker_calls(events, checker)
    if first_write is None:
        if out[0] == "ok":
            raise AnalysisError("R44.1: an accepted update writes to no existing option object (the way options are assigned is not modelled)")
        res["prevalidated"], res["prevalidated_why"] = False, f"the accepted update raises {out[1]}"
    else:
        early = [(v, t) for i, v, t in checks if i < first_write]
        late = [(v, t) for i, v, t in checks if i > first_write]
        fresh = [(v, t) for v, t in late if not any(_same(v, v2) and t == t2 for v2, t2 in early)]
        res["prevalidated"] = not fresh
        res["prevalidated_why"] = (f"{len(late)} checker calls after the first assignment, each repeating one of the {len(early)} calls passed before it" if not fresh else
                                   "checked only after the first assignment: " + ", ".join(f"{v!r} against {_tname(t)}" for v, t in fresh[:4]))
    # the setter of the option object by role: the method of the option class that is handed the new value
    setter = None
    for ev in events:
        if ev[0] == "call" and isinstance(ev[1].bound, Rec) and id(ev[1].bound) in live and any(isinstance(a, int) and not isinstance(a, bool) and a == good["count"] for a in list(ev[2]) + list(ev[3].values())):
            setter = ev[1]
            break
    done(w)

    # ---- T1: a value of the wrong type at every position (one world as long as it stays untouched)
    shared: dict = {"w": None}

    def untouched_world():
        w = shared["w"]
        if w is None or not _same(w.values(), w.pristine):
            w = shared["w"] = world()
            w.sub = w.subscribe(_Listener(w, "subscriber(all)"), _NAMES)
            w.direct = _Listener(w, "changed-receiver")
            w.signal("changed").connect(w.direct)
            w.pristine = w.values()
        del w.sub.seen[:], w.direct.seen[:]
        return w

    for pos, name in enumerate(_BAD):
        for how in ("update_known",) + (("setattr",) if pos == 1 else ()):
            problems = []
            placements = ("setattr",) if how == "setattr" else ("in place", "last") if pos < len(_BAD) - 1 else ("last",)
            for place in placements:
                w = untouched_world()
                before = w.values()
                good = _copy.deepcopy(_GOOD)
                bad = _copy.deepcopy(_BAD[name])
                if place == "setattr":
                    kwargs = {name: bad}
                elif place == "in place":
                    kwargs = {"zz_unknown": 1, **good, name: bad}
                else:  # after every other (valid) value: everything else has been assigned when a late check refuses it
                    kwargs = {"zz_unknown": 1, **{k: v for k, v in good.items() if k != name}, name: bad}
                out, events = w.call(how, **kwargs)
                n_before = len(problems)
                if out[0] == "ok":
                    problems.append(f"{name} ({_tname(_TYPE[name])}) accepts {_BAD[name]!r}: the option holds {w.values()[name]!r}")
                elif out[1] != "TypeError":
                    problems.append(f"raises {out[1]} instead of TypeError")
                if out[0] != "ok" and not _same(w.values(), before):
                    problems.append("options assigned earlier in the same update stay applied: " + _diff(w.values(), before))
                for l in (w.sub, w.direct):
                    if out[0] != "ok" and l.seen and not _same(l.seen[-1][1], before):
                        problems.append(f"{l.label} last observes a partially applied state: " + _diff(l.seen[-1][1], before))
                problems[n_before:] = [f"[{name} {place}: position {list(kwargs).index(name)} of {len(kwargs) - 1}] {x}" for x in problems[n_before:]]
                done(w)
            what = f"{how}: {_BAD[name]!r} for {name} ({_tname(_TYPE[name])}; {' / '.join(placements)})"
            ctx.check(not problems, "R44.1", where, f"a wrong-typed value for {name} is refused and nothing is assigned" + (" (attribute assignment)" if how == "setattr" else ""),
                      f"{what}: " + "; ".join(problems), desc=f"{what} -> TypeError, every option at its previous value")

    # ---- T5: the setter refuses a wrong-typed value without storing it (the live option object: the one an accepted update hands its value to)
    if setter is not None:
        qual = setter.node._qual
        bad_stored = []
        w5 = untouched_world()
        for name in _BAD:
            out, events = w5.call("update_known", **{name: _copy.deepcopy(_GOOD[name])})
            rec = next((ev[1].bound for ev in events if ev[0] == "call" and ev[1].node is setter.node and isinstance(ev[1].bound, Rec)), None)
            if out[0] != "ok" or rec is None:
                raise AnalysisError(f"R44.2: update_known({name}) does not reach {qual} in the interpreted world ({out})")
            before5 = w5.values()
            try:
                w5.it.apply(Func(setter.mod, setter.node, bound=rec), [_copy.deepcopy(_BAD[name])], {}, 0)
                bad_stored.append(f"{name} ({_tname(_TYPE[name])}) accepts {_BAD[name]!r}")
            except Raised as r:
                if r.name != "TypeError":
                    bad_stored.append(f"{name}: raises {r.name} instead of TypeError")
                elif not _same(w5.values(), before5):
                    bad_stored.append(f"{name} ({_tname(_TYPE[name])}) holds {w5.values()[name]!r} after the refused assignment")
        done(w5)
        ctx.check(not bad_stored, "R44.2", (OM, qual, setter.node), "the option setter refuses a value of the wrong type without storing it",
                  "; ".join(bad_stored) + " - an option holds a value that is not of its declared type", desc=f"{qual}: refuses a wrong-typed value for each of {len(_BAD)} types, nothing stored")
        res["setter"] = qual
    else:
        ctx.ok("R44.2", "options are assigned by update_known itself (no setter method of the option class is handed the value)")
    res["world"] = shared["w"]

    # ---- T3: a rejecting listener (through every entry point); the exception types rollback handles are tried on demand (restores())
    def reject_world(exc, nested=False):
        w = world()
        sub = w.subscribe(_Listener(w, "subscriber(all)"), _NAMES)
        if nested:
            def follow(updated, w=w):
                v = w.values()
                if "count" in updated and isinstance(v["count"], int) and v["count"] > 0 and v["aux"] != v["count"]:
                    out, _ = w.call("update", aux=v["count"])
                    if out[0] != "ok":
                        raise Raised(out[1], "nested update")
            w.subscribe(_Listener(w, "subscriber(count -> aux)", react=follow), ["count"])

        def reject(updated, w=w):
            if w.values()["label"] == _REJECTED_LABEL:
                raise Raised(exc, "listener rejects the value")
        w.subscribe(_Listener(w, "rejecting subscriber(label)", react=reject), ["label"])
        direct = _Listener(w, "changed-receiver")
        w.signal("changed").connect(direct)
        return w, sub, direct

    def rejected(how, exc="OptionsError", nested=False):
        w, sub, direct = reject_world(exc, nested)
        before = w.values()
        kwargs = {"label": _REJECTED_LABEL} if how == "setattr" else {"count": 7, "label": _REJECTED_LABEL, "seqopt": ["z"]}
        out, _ = w.call(how, **kwargs)
        done(w)
        return w, sub, direct, before, out, kwargs

    def restores(exc):
        if exc not in res["restores"]:
            w, sub, direct, before, out, kwargs = rejected("update_known", exc)
            res["restores"][exc] = (_same(w.values(), before), _diff(w.values(), before))
        return res["restores"][exc]

    res["restores_fn"] = restores
    for how in ("update_known", "update", "setattr"):
        w, sub, direct, before, out, kwargs = rejected(how)
        label = f"{how}({', '.join(kwargs)}) rejected by a subscriber"
        ctx.check(out == ("raise", "OptionsError"), "R44.2", where, f"a rejected update reaches the caller ({how})",
                  f"{label}: " + ("returns normally - the rejection is swallowed silently" if out[0] == "ok" else f"raises {out[1]} instead of OptionsError"),
                  desc=f"{label}: OptionsError reaches the caller")
        if how == "update_known":
            res["restores"]["OptionsError"] = (_same(w.values(), before), _diff(w.values(), before))
        ctx.check(_same(w.values(), before), "R44.2", where, f"a rejected update leaves every option at its previous value ({how})",
                  f"{label}: not restored: {_diff(w.values(), before)} (the snapshot is taken too late, is shallow, or is not reinstated)",
                  desc=f"{label}: every option back at its previous value (values replaced in place included)")
        last = sub.seen[-1] if sub.seen else None
        saw_attempt = any(not _same(s[1], before) for s in sub.seen)
        ok = last is not None and _same(last[1], before) and (not saw_attempt or set(kwargs) <= (last[0] or set()))
        ctx.check(ok, "R44.2", where, f"listeners last observe the restored state ({how})",
                  f"{label}: " + ("the subscriber is never notified" if last is None else f"the subscriber that saw the attempted values is last told {sorted(last[0] or [])} and then observes {_diff(last[1], before) or 'the previous values'}")
                  + " - listeners keep acting on values the options no longer hold", desc=f"{label}: the subscriber that saw the attempted values is re-notified after the restore and observes the previous values")

    # ---- T4: an earlier listener reacted with a nested (accepted) update of another option
    w, sub, direct, before, out, kwargs = rejected("update", nested=True)
    moved = any(not _same(s[1]["aux"], before["aux"]) for s in sub.seen)
    ctx.require(moved, "R44.2: the nested update of the reacting listener never became visible (world outgrown)")
    last = sub.seen[-1]
    ok = out == ("raise", "OptionsError") and _same(w.values(), before) and _same(last[1], before)
    ctx.check(ok, "R44.2", where, "a rejected update also undoes what earlier listeners assigned in reaction to it",
              f"update(count, label) rejected after an earlier subscriber reacted with update(aux=count): outcome {out}, not restored: {_diff(w.values(), before) or '-'}; last observed: {_diff(last[1], before) or 'previous values'}"
              " - an option nobody asked to change keeps a value derived from the rejected input", desc="rejected update after a nested update by an earlier listener: every option (also the one assigned by that listener) back at its previous value")
    return res


# =====================================================================================================================================
# R44.1 (a): escape set of the guarded block vs. handlers of the context manager


def _escape_coverage(ctx, fn, checker, tx, called):
    blocks = _guarded_blocks(ctx, fn)
    ctx.require(len(blocks) == 1, f"update_known: expected exactly one block guarded by a @contextmanager method of OptManager, found {len(blocks)}")
    holder, w, cm_fn = blocks[0]
    ctx.functions.add(f"{OM}::{cm_fn._qual}")
    ctx.functions.add(f"{OM}::{holder._qual}")
    # roles from an interpreted instance: signals with their in-class receivers, the option class
    base = tx["world"]
    sig_attr = {k: v for k, v in base.om.__dict__.items() if isinstance(v, _Signal)}
    changed = base.signal("changed")
    opt_qual = base.opt_cls.node._qual
    opt_methods = {st.name for st in base.opt_cls.node.body if isinstance(st, (ast.FunctionDef, ast.AsyncFunctionDef))}
    receivers = {(r.mod.rel, r.node._qual) for s in sig_attr.values() for r in s.receivers if isinstance(r, Func)}
    ctx.require(any(isinstance(r, Func) for r in changed.receivers), "OptManager.__init__ no longer connects a subscriber-notifying method to `changed`")

    def dynamic(fr, call):
        f = call.func
        if isinstance(f, ast.Attribute):
            recv = f.value
            if f.attr == "send" and isinstance(recv, ast.Attribute) and isinstance(recv.value, ast.Name) and recv.value.id == "self" and recv.attr in sig_attr:
                sig = sig_attr[recv.attr]
                targets = [(r.mod.rel, r.node._qual) for r in sig.receivers if isinstance(r, Func)]
                if targets:
                    return targets
                return ("raises", ("OptionsError",) if sig is changed else (), None)
            is_self = isinstance(recv, ast.Name) and (recv.id in ("self", "cls") or recv.id in fr.mod.imports)
            is_super = isinstance(recv, ast.Call) and isinstance(recv.func, ast.Name) and recv.func.id == "super"
            if fr.mod.rel == OM and f.attr in opt_methods and not f.attr.startswith("__") and not is_self and not is_super and not isinstance(recv, ast.Constant):
                # a method of the option class on a receiver that is not the manager itself: an option object of the table
                if f.attr in ("keys", "items", "values", "get", "update", "pop", "copy"):
                    return None
                return [(OM, f"{opt_qual}.{f.attr}")]
        if (fr.mod.rel, fr.fn._qual) in receivers and isinstance(f, ast.Name) and fr._is_local(f.id):
            # the listeners a receiver of `changed` calls (contract: OptionsError)
            return ("raises", ("OptionsError",), None)
        return None

    bounded = {f"{TC}::{CHECKER}": "depth follows the declared typespec, not the value"}
    mr = MayRaise(ctx, Config(dynamic=dynamic, bounded_recursion=bounded))
    kw = fn.args.kwarg.arg if fn.args.kwarg else None
    ctx.require(kw is not None, "update_known no longer takes **kwargs")
    env = {kw: "V"} if holder is fn else {}
    body_esc = mr.region(OM, holder._qual, w.body, env)
    key = mr.key_of_region(OM, holder._qual, env)
    types = sorted({e.exc for e in body_esc})
    ctx.require({"TypeError", "OptionsError"} <= set(types), f"modelled raisers of the rollback block vanished: {types}")
    for f in mr.functions:
        ctx.functions.add(f)
    ctx.paths += mr.sites
    hs = _handlers_around_yield(ctx, mr, cm_fn)
    where = (OM, holder._qual, w)
    uncovered, restored, excluded = {}, set(), set()
    for e in sorted(body_esc, key=lambda e: (e.exc, e.rel, e.qual, e.text)):
        hit = next((h for h, names in hs if any(mr.h.isa(e.exc, n) for n in names)), None)
        if hit is not None:
            ok, diff = tx["restores_fn"](e.exc)
            if ok:
                restored.add(e.exc)
                continue
            why = f"the handler of {cm_fn._qual} that catches it does not restore the options ({diff})"
        else:
            why = f"no handler of {cm_fn._qual} catches it"
        from_check = e.rel == TC and e.qual == checker._qual
        if from_check and tx["prevalidated"]:
            excluded.add(e.exc)
            continue
        if from_check:
            why += f"; not excluded by pre-validation either ({tx['prevalidated_why']})"
        uncovered.setdefault(e.exc, (e, why))
    for typ, (e, why) in sorted(uncovered.items()):
        ctx.fail("R44.1", where, f"{typ} inside the rollback block is not rolled back",
                 f"{typ} raised at {e.site()} ({e.why}): {why}; options assigned earlier in the same update stay applied and nobody is notified; "
                 "call chain: " + " -> ".join(mr.chain(key, e)), chain=mr.chain(key, e))
    if not uncovered:
        ctx.ok("R44.1", f"escape set of the block guarded by {cm_fn._qual} {types}: restored by the context manager {sorted(restored)}"
               + (f"; {sorted(excluded)} of {CHECKER} excluded by pre-validation: {tx['prevalidated_why']}" if excluded else ""))
    ctx.sample({"rule": "R44.1", "guarded_block_in": holder._qual, "context_manager": cm_fn._qual, "escape_set": types, "restored": sorted(restored),
                "excluded_by_prevalidation": sorted(excluded), "prevalidation": tx["prevalidated_why"], "option_setter": tx["setter"]})


# (option name, type label, default, current value): one representative per supported type x value class
_OPTIONS = [
    ("bool_off", "bool", True, False), ("bool_on", "bool", False, True),
    ("int_zero", "int", 8080, 0), ("int_neg", "int", 0, -1),
    ("str_empty", "str", "dflt", ""), ("str_null_word", "str", "", "null"), ("str_tilde", "str", "", "~"), ("str_yes_word", "str", "", "yes"),
    ("str_quotes_newline", "str", "", "a\n'b\" c: #"), ("str_unicode", "str", "", "caf\u00e9 \u4e2d"),
    ("optstr_none", "Optional[str]", "dflt", None), ("optstr_empty", "Optional[str]", None, ""), ("optstr_value", "Optional[str]", None, "v"),
    ("optint_none", "Optional[int]", 5, None), ("optint_zero", "Optional[int]", None, 0), ("optint_value", "Optional[int]", None, 7),
    ("seq_empty", "Sequence[str]", ["a"], []), ("seq_value", "Sequence[str]", [], ["a", "b"]),
    ("same_str", "str", "d", "d"), ("same_none", "Optional[str]", None, None), ("scripts", "Sequence[str]", [], ["s1.py", "sub/s2.py"]),
]


class _Dumper:
    """recording stand-in for ruamel.yaml.YAML (library trusted): remembers every document handed to dump()."""

    docs: list = []
    files: list = []

    def __init__(self, *a, **kw):
        pass

    def dump(self, data, *a, **kw):
        _Dumper.docs.append(data)
        _Dumper.files.append(a[0] if a else kw.get("stream"))


class _FakeFile:
    """an open text file of the model file system"""

    def __init__(self, path, mode, text):
        self.path, self.mode, self.text = path, mode, text

    def read(self, *a):
        return self.text

    def write(self, s):
        return len(s)

    def close(self):
        pass

    def __enter__(self):
        return self

    def __exit__(self, *a):
        return False


class _FakePath:
    """model of pathlib.Path over a one-file file system (``fs``: {'exists': bool, 'text': str, 'opened': [...]})"""

    fs: dict = {}

    def __init__(self, p, *more):
        self.p = str(p)

    def expanduser(self):
        return self

    absolute = resolve = expanduser

    def exists(self):
        return _FakePath.fs["exists"]

    is_file = exists

    def open(self, mode="r", *a, **kw):
        f = _FakeFile(self.p, mode, _FakePath.fs["text"] if "r" in mode else "")
        _FakePath.fs["opened"].append(f)
        return f

    def read_text(self, *a, **kw):
        return _FakePath.fs["text"]

    def __fspath__(self):
        return self.p

    def __str__(self):
        return self.p

    def __eq__(self, other):
        return isinstance(other, _FakePath) and other.p == self.p

    def __hash__(self):
        return hash(self.p)


def _fake_open(path, mode="r", *a, **kw):
    return _FakePath(path).open(mode)


def _config_path(ctx):
    import pathlib as _pathlib

    m = ctx.model
    ser, load = ctx.func(OM, "serialize"), ctx.func(OM, "load")
    ruamel = _types.SimpleNamespace(yaml=_types.SimpleNamespace(YAML=_Dumper))
    current = {n: cur for n, _, _, cur in _OPTIONS}
    default = {n: d for n, _, d, _ in _OPTIONS}
    label = {n: t for n, t, _, _ in _OPTIONS}
    changed = {n for n in current if not _same(current[n], default[n])}

    def interp(parsed):
        it = OptInterp(m, trusted_modules={"pathlib": _pathlib, "ruamel": ruamel, "copy": _copy})
        it.overrides[(OM, "parse")] = lambda text: _copy.deepcopy(parsed)
        it.overrides[(OM, "relative_path")] = lambda p, relative_to=None, **kw: _pathlib.PurePosixPath("/rebased") / str(p)
        return it

    def run(it, qual, *args, **kwargs):
        try:
            return it.call(OM, qual, *args, **kwargs)
        except Raised as r:
            raise AnalysisError(f"R44.4: {qual} raises {r.name} on the representative options ({r.msg}) - interface of the abstract OptManager outgrown")

    # ---- (a) serialize
    # the previous file: a stale value for a changed option, a key that is no option (any more), a value for an unchanged option
    previous = {"int_zero": 4711, "optstr_none": "stale", "seq_empty": ["stale"], "gone_option": 1, "same_str": "d"}
    key_errors, alien_all = [], []
    for defaults in (False, True):
        opts = DictRec("OptManager", items={n: n for n in current}, _name="opts",
                       keys=lambda: set(current), has_changed=lambda k: k in changed, default=lambda k: _copy.deepcopy(default[k]),
                       _options={n: n for n in current}, **{n: _copy.deepcopy(v) for n, v in current.items()})
        _Dumper.docs = []
        it = interp(previous)
        run(it, "serialize", opts, "<file>", "<previous text>", defaults)
        ctx.cells += len(current)
        ctx.require(len(_Dumper.docs) == 1 and isinstance(_Dumper.docs[0], dict), f"R44.4: serialize(defaults={defaults}) handed {len(_Dumper.docs)} documents to the YAML dumper (expected one mapping)")
        doc = _Dumper.docs[0]
        want = set(current) if defaults else changed
        # R44.3: WHICH options are written: all with `defaults`, else the changed ones (+ what the previous file already said about an option)
        allowed = want | (set(previous) & set(current))
        alien = sorted(k for k in doc if k not in current)
        alien_all += [k for k in alien if k not in alien_all]
        missing, extra = sorted(want - set(doc)), sorted(k for k in doc if k in current and k not in allowed)
        if missing or extra:
            key_errors.append(f"defaults={defaults}: " + "; ".join(x for x in (f"not written {missing}" if missing else "", f"written although unchanged {extra}" if extra else "") if x))
        # R44.4: WHAT is written
        lost = sorted(n for n in want if n not in doc)
        wrong = sorted(n for n in want if n in doc and not _same(doc[n], current[n]))
        why = []
        if lost:
            why.append("not written: " + ", ".join(f"{n} ({label[n]} = {current[n]!r}, default {default[n]!r})" for n in lost))
        if wrong:
            why.append("written with another value: " + ", ".join(f"{n} ({label[n]}: {doc[n]!r} instead of {current[n]!r})" for n in wrong))
        ctx.check(not why, "R44.4", (OM, "serialize", ser), f"serialize(defaults={defaults}) writes the current value of every {'option' if defaults else 'changed option'}",
                  "; ".join(why) + " - the saved file does not reproduce these non-default values when it is loaded", desc=f"serialize(defaults={defaults}): {len(want)} representative options written type-identically",
                  lost=lost, wrong=wrong)
    ctx.check(not key_errors, "R44.3", (OM, "serialize", ser), "serialize writes an option iff `defaults` or it has changed", "the set of serialised options is no longer {changed} / {all}: " + " | ".join(key_errors),
              desc="serialize: exactly the changed options (all with defaults) are written; entries of the previous file for known options are kept")
    ctx.check(not alien_all, "R44.3", (OM, "serialize", ser), "serialize drops keys that are not options", f"unknown keys of an old file survive serialisation: {alien_all}", desc="serialize: unknown keys of the previous file dropped")

    # ---- save: forwards `defaults` and the previous text to serialize, writes to the path it was given
    save = ctx.func(OM, "save")
    PREVIOUS_TEXT = "<previous text>"
    save_errors = []
    for exists in (True, False):
        for defaults in (False, True, None):
            opts = DictRec("OptManager", items={n: n for n in current}, _name="opts",
                           keys=lambda: set(current), has_changed=lambda k: k in changed, default=lambda k: _copy.deepcopy(default[k]),
                           _options={n: n for n in current}, **{n: _copy.deepcopy(v) for n, v in current.items()})
            _Dumper.docs, _Dumper.files = [], []
            _FakePath.fs = {"exists": exists, "text": PREVIOUS_TEXT, "opened": []}
            ospath = _types.SimpleNamespace(exists=lambda p: _FakePath.fs["exists"], isfile=lambda p: _FakePath.fs["exists"], expanduser=lambda p: p, abspath=lambda p: p)
            it = OptInterp(m, trusted_modules={"pathlib": _types.SimpleNamespace(Path=_FakePath, PurePath=_FakePath), "ruamel": ruamel, "copy": _copy,
                                               "os": _types.SimpleNamespace(path=ospath, fspath=str)})
            it.extra_builtins["open"] = _fake_open

            def parse_stub(text):
                if text == PREVIOUS_TEXT:
                    return _copy.deepcopy(previous)
                if not text:
                    return {}
                raise AnalysisError(f"R44.3: save hands serialize a text that is neither the file's content nor empty: {text!r}")

            it.overrides[(OM, "parse")] = parse_stub
            args = ["<cfg>"] + ([] if defaults is None else [defaults])
            run(it, "save", opts, *args)
            ctx.cells += len(current)
            tag = f"save(defaults={'<omitted>' if defaults is None else defaults}, file {'exists' if exists else 'missing'})"
            if len(_Dumper.docs) != 1 or not isinstance(_Dumper.docs[0], dict):
                save_errors.append(f"{tag}: {len(_Dumper.docs)} documents dumped")
                continue
            doc, f = _Dumper.docs[0], _Dumper.files[0]
            want = set(current) if defaults else changed
            allowed = want | ((set(previous) & set(current)) if exists else set())
            missing, extra = sorted(want - set(doc)), sorted(k for k in doc if k not in allowed)
            if missing:
                save_errors.append(f"{tag}: not written {missing}")
            if extra:
                save_errors.append(f"{tag}: written although {'unchanged / unknown' if not defaults else 'unknown'} {extra}")
            if not (isinstance(f, _FakeFile) and "w" in f.mode and f.path == "<cfg>"):
                save_errors.append(f"{tag}: the document is not written to the file opened for writing at the given path")
    ctx.check(not save_errors, "R44.3", (OM, "save", save), "save forwards `defaults` to serialize", "save does not write what serialize(opts, file, previous text, defaults) writes: " + " | ".join(save_errors),
              desc="save -> serialize(file opened for writing, previous text, defaults): all options with defaults, the changed ones without (existing file / no file)")

    # ---- (b) load
    parsed = {n: _copy.deepcopy(current[n]) for n in current}
    parsed.update({"deferred_none": None, "deferred_false": False, "deferred_list": [], "deferred_value": "x"})  # options an addon registers later
    for cwd in (None, "/cfg"):
        got: list = []
        strict: list = []
        opts = DictRec("OptManager", items={n: n for n in current}, _name="opts", keys=lambda: set(current), _options={n: n for n in current},
                       has_changed=lambda k: False, update_defer=lambda **kw: got.append(kw), update=lambda **kw: strict.append(kw),
                       update_known=lambda **kw: strict.append(kw), **{n: _copy.deepcopy(default[n]) for n in current})
        it = interp(parsed)
        run(it, "load", opts, "<text>", cwd)
        ctx.cells += len(parsed)
        if cwd is None:
            ctx.check(bool(got) and not strict, "R44.3", (OM, "load", load), "load applies the parsed mapping through update_defer",
                      "load no longer applies the parsed mapping through update_defer: options an addon registers later are rejected (update) or silently dropped (update_known) instead of deferred",
                      desc="load feeds update_defer")
        applied: dict = {}
        for kw in got + strict:
            applied.update(kw)
        lost = sorted(k for k in parsed if k not in applied)
        wrong = sorted(k for k in parsed if k in applied and not _same(applied[k], parsed[k]) and not (k == "scripts" and cwd is not None))
        if cwd is not None and "scripts" in applied:
            sc = applied["scripts"]
            if not (isinstance(sc, list) and len(sc) == len(parsed["scripts"]) and all(isinstance(x, str) for x in sc)):
                wrong.append("scripts")
        alien = sorted(k for k in applied if k not in parsed)
        why = []
        if lost:
            why.append("never handed to update_defer: " + ", ".join(f"{k} = {parsed[k]!r}" for k in lost))
        if wrong:
            why.append("handed on with another value: " + ", ".join(f"{k} ({applied[k]!r} instead of {parsed[k]!r})" for k in wrong))
        if alien:
            why.append(f"keys the file does not contain: {alien}")
        ctx.check(not why, "R44.4", (OM, "load", load), f"load(cwd={cwd!r}) hands the parsed mapping to update_defer unchanged",
                  "; ".join(why) + " - an option saved with such a value comes back as its default after save + load", desc=f"load(cwd={cwd!r}): {len(parsed)} parsed keys reach update_defer type-identically",
                  lost=lost, wrong=wrong, alien=alien)
    ctx.bounds.append(f"R44.4: serialize/load interpreted on {len(_OPTIONS)} representative options (one per supported type x value class) + 4 deferred keys")
    ctx.trust("ruamel.yaml dumps and safe-loads bool/int/str/None/list-of-str values unchanged (R44.4 stops at the dumper / at parse)")


PRE = "            for k, v in known.items():\n                typecheck.check_option_type(k, v, self._options[k].typespec)\n"
MUTANTS = [
    # R44.1 - reverse of the F-C44 fix and variants of it
    Mutant("reverse-fix-no-prevalidation", OM, PRE, "", "R44.1"),
    Mutant("prevalidation-of-other-values", OM, PRE, "            for k, v in kwargs.items():\n                typecheck.check_option_type(k, v, self._options[k].typespec)\n", "R44.1"),
    Mutant("prevalidation-against-default-type", OM, PRE, "            for k, v in known.items():\n                typecheck.check_option_type(k, v, type(self._options[k].default))\n", "R44.1"),
    Mutant("prevalidation-swallows-failure", OM, PRE, "            for k, v in known.items():\n                try:\n                    typecheck.check_option_type(k, v, self._options[k].typespec)\n                except TypeError:\n                    continue\n", "R44.1"),
    Mutant("prevalidation-skips-bool-options", OM, PRE, "            for k, v in known.items():\n                if self._options[k].typespec is not bool:\n                    typecheck.check_option_type(k, v, self._options[k].typespec)\n", "R44.1"),
    Mutant("rollback-handler-does-not-restore", OM, "            self.__dict__[\"_options\"] = old\n            self.changed.send(updated=updated)\n", "            self.changed.send(updated=updated)\n", "R44.1"),
    Mutant("set-raises-valueerror-for-choices", OM, "        typecheck.check_option_type(self.name, value, self.typespec)\n        self.value = value\n",
           "        typecheck.check_option_type(self.name, value, self.typespec)\n        if self.choices and value not in self.choices:\n            raise ValueError(f\"invalid choice for {self.name}\")\n        self.value = value\n", "R44.1"),
    # R44.2
    Mutant("rollback-snapshots-updated-options-only", OM,  # seed C44a: what an earlier listener assigned in a nested update is not undone
           "        old = copy.deepcopy(self._options)\n        try:\n            yield\n        except exceptions.OptionsError as e:\n            # Notify error handlers\n            self.errored.send(exc=e)\n            # Rollback\n            self.__dict__[\"_options\"] = old\n",
           "        old = {k: copy.deepcopy(self._options[k]) for k in updated if k in self._options}\n        try:\n            yield\n        except exceptions.OptionsError as e:\n            # Notify error handlers\n            self.errored.send(exc=e)\n            # Rollback\n            self._options.update(old)\n", "R44.2"),
    Mutant("update-known-notifies-with-unknown-names", OM, "                self.changed.send(updated=updated)\n        return unknown", "                self.changed.send(updated=set(kwargs))\n        return unknown", "R44.2"),
    Mutant("update-known-forgets-unknown-keys", OM, "        return unknown\n\n    def update_defer", "        return {}\n\n    def update_defer", "R44.2"),
    Mutant("rollback-takes-shallow-copy", OM, "        old = copy.deepcopy(self._options)\n        try:\n            yield\n", "        old = copy.copy(self._options)\n        try:\n            yield\n", "R44.2"),
    Mutant("rollback-notifies-before-restoring", OM, "            self.__dict__[\"_options\"] = old\n            self.changed.send(updated=updated)\n", "            self.changed.send(updated=updated)\n            self.__dict__[\"_options\"] = old\n", "R44.2"),
    Mutant("update-known-swallows-rejection", OM, "with self.rollback(updated, reraise=True):", "with self.rollback(updated):", "R44.2"),
    Mutant("option-set-assigns-before-check", OM, "        typecheck.check_option_type(self.name, value, self.typespec)\n        self.value = value\n", "        self.value = value\n        typecheck.check_option_type(self.name, value, self.typespec)\n", "R44.2"),
    # R44.3
    Mutant("serialize-writes-everything", OM, "        if defaults or opts.has_changed(k):\n            data[k] = getattr(opts, k)", "        if True:\n            data[k] = getattr(opts, k)", "R44.3"),
    Mutant("serialize-keeps-unknown-keys", OM, "        if k not in opts._options:\n            del data[k]\n", "        pass\n", "R44.3"),
    Mutant("load-uses-strict-update", OM, "    opts.update_defer(**data)", "    opts.update(**data)", "R44.3"),
    Mutant("save-ignores-defaults", OM, "serialize(opts, f, data, defaults)", "serialize(opts, f, data)", "R44.3"),
    # R44.4 - seed C44b and the same class of edit on either side of the config path
    Mutant("load-drops-null-values", OM, "    data = parse(text)\n\n    scripts = data.get", "    data = parse(text)\n    data = {k: v for k, v in data.items() if v is not None}\n\n    scripts = data.get", "R44.4"),
    Mutant("load-drops-falsy-values", OM, "    opts.update_defer(**data)", "    opts.update_defer(**{k: v for k, v in data.items() if v})", "R44.4"),
    Mutant("load-applies-known-options-only", OM, "    opts.update_defer(**data)", "    opts.update_defer(**{k: v for k, v in data.items() if k in opts})", "R44.4"),
    Mutant("serialize-skips-none", OM, "        if defaults or opts.has_changed(k):\n            data[k] = getattr(opts, k)", "        if (defaults or opts.has_changed(k)) and getattr(opts, k) is not None:\n            data[k] = getattr(opts, k)", "R44.4"),
    Mutant("serialize-keeps-stale-file-value", OM, "            data[k] = getattr(opts, k)", "            data.setdefault(k, getattr(opts, k))", "R44.4"),
    Mutant("serialize-stringifies-values", OM, "            data[k] = getattr(opts, k)", "            data[k] = str(getattr(opts, k))", "R44.4"),
]
