"""C44 - option updates are transactional and typed; config save/load uses the same option set.

Decided (structural clauses, nothing executed):
  R44.1 (E5 + path facts) in ``OptManager.update_known`` every exception that can be raised once the first ``_Option.set`` may have
        happened (anything raised inside the ``with self.rollback(...)`` block: TypeError from the type check in ``_Option.set``,
        OptionsError from listeners notified through ``changed.send``) either reaches a handler of ``rollback`` that restores
        ``_options`` - or cannot happen because the very same check (same function, same value, same typespec, same iteration
        set) was passed for every value before the block was entered (pre-validation idiom).
  R44.2 ``rollback``: the deep copy is taken before the body runs; on OptionsError: ``errored.send`` -> restore of ``_options`` ->
        ``changed.send(updated)`` -> re-raise when asked; ``_Option.set`` type-checks before it assigns.
  R44.3 ``serialize`` writes exactly the options with ``has_changed`` (or all with ``defaults``), drops keys that are not options,
        ``save`` forwards ``defaults``; ``load`` feeds ``update_defer`` with the parsed mapping.
NOT decided: YAML value round-trip; listeners raising anything but OptionsError (contract of ``subscribe``/``changed``).
"""

from __future__ import annotations

import ast

from ..core import AnalysisError
from ..core import norm
from ..model import walk_in_order
from ..paths import GenericSpec
from ..paths import traces_of
from ..selftest import Mutant
from ._helpers_H import Config
from ._helpers_H import MayRaise

PROP = "C44"
REG = {
    "strength": "partial",
    "technique": "exception-escape sets vs. restoring handlers of the rollback context manager (E5) + pre-validation idiom + ordering path facts",
    "claim": "every explicit raise / modelled raiser inside update_known's rollback block is either restored by rollback or excluded by an identical "
    "type check passed for every value before the first mutation; rollback copies before and restores/re-notifies in order; serialize/load agree "
    "on the option set.",
    "note": "Listener contract: receivers of `changed` raise OptionsError only. check_option_type is assumed deterministic in its arguments.",
}

OM = "mitmproxy/optmanager.py"
TC = "mitmproxy/utils/typecheck.py"


def _with_rollback(fn):
    ws = [n for n in walk_in_order(fn) if isinstance(n, ast.With) and len(n.items) == 1 and isinstance(n.items[0].context_expr, ast.Call)
          and norm(n.items[0].context_expr.func) == "self.rollback"]
    return ws


def _restoring_handlers(ctx, mr):
    """(handler, names, restores?) of the try around the yield of OptManager.rollback + the statement taking the copy."""
    rb = ctx.func(OM, "OptManager.rollback")
    tries = [s for s in rb.body if isinstance(s, ast.Try) and any(isinstance(x, ast.Expr) and isinstance(x.value, ast.Yield) for x in s.body)]
    ctx.require(len(tries) == 1 and len(tries[0].body) == 1, "OptManager.rollback: try/yield changed shape")
    t = tries[0]
    copies = [s for s in rb.body[: rb.body.index(t)] if isinstance(s, ast.Assign) and norm(s.value) == "copy.deepcopy(self._options)"]
    mod = mr.model.module(OM)
    hs = []
    for h in t.handlers:
        names = ["BaseException"] if h.type is None else [mr.h.canon(mod, e) for e in (h.type.elts if isinstance(h.type, ast.Tuple) else [h.type])]
        restores = False
        for st in h.body:  # top level of the handler: unconditional
            if isinstance(st, ast.Assign) and norm(st.targets[0]) in ("self.__dict__['_options']", "self._options") and copies \
                    and norm(st.value) == norm(copies[0].targets[0]):
                restores = True
        hs.append((h, names, restores))
    return rb, t, copies, hs


def _prevalidated(ctx, fn, w, opt_set):
    """Is every (k, v) the block is going to apply checked by the same function with the same value / typespec before the block?
    -> (ok, description).  Accepted idiom: a loop over the same iterable as the mutation loop, calling the checker that _Option.set
    calls, with the loop's value and ``self._options[<key>].typespec``; nothing in between rebinding the iterable or the options."""
    chk = [n for n in walk_in_order(opt_set) if isinstance(n, ast.Call) and n.func is not None and norm(n.func).endswith("check_option_type")]
    if len(chk) != 1 or [norm(a) for a in chk[0].args[1:]] != ["value", "self.typespec"]:
        return False, "_Option.set no longer calls check_option_type(name, value, self.typespec)"
    checker = norm(chk[0].func)
    mut = [n for n in w.body if isinstance(n, ast.For)]
    if len(mut) != 1:
        return False, "mutation loop changed shape"
    mloop = mut[0]
    sets = [n for n in walk_in_order(mloop) if isinstance(n, ast.Call) and isinstance(n.func, ast.Attribute) and n.func.attr == "set"]
    if len(sets) != 1 or not isinstance(mloop.target, ast.Tuple):
        return False, "mutation loop changed shape"
    mk, mv = (norm(x) for x in mloop.target.elts)
    if norm(sets[0].func.value) != f"self._options[{mk}]" or [norm(a) for a in sets[0].args] != [mv]:
        return False, "mutation loop changed shape"
    # the block containing the with statement
    parent = w._parent
    blk = next(b for b in (getattr(parent, "body", []), getattr(parent, "orelse", [])) if any(s is w for s in b))
    before = blk[: next(i for i, s in enumerate(blk) if s is w)]
    for i, s in enumerate(before):
        if not (isinstance(s, ast.For) and norm(s.iter) == norm(mloop.iter) and isinstance(s.target, ast.Tuple) and len(s.target.elts) == 2):
            continue
        k, v = (norm(x) for x in s.target.elts)
        calls = [n for st in s.body for n in walk_in_order(st) if isinstance(n, ast.Call) and norm(n.func) == checker]
        top = [st for st in s.body if isinstance(st, ast.Expr) and isinstance(st.value, ast.Call) and norm(st.value.func) == checker]
        if len(calls) != 1 or len(top) != 1 or len(calls[0].args) != 3:
            continue
        if norm(calls[0].args[1]) != v or norm(calls[0].args[2]) != f"self._options[{k}].typespec":
            continue
        # nothing between the validation loop and the block may rebind the iterable / options, and the loop must not swallow the failure
        tail = before[i + 1:]
        it_name = norm(mloop.iter).split(".")[0].split("(")[0]
        if any(isinstance(x, (ast.Assign, ast.AugAssign, ast.Delete, ast.Call)) for st in tail for x in walk_in_order(st)):
            return False, "statements between the validation loop and the rollback block may change what is applied"
        if any(isinstance(x, (ast.Try, ast.Continue, ast.Break)) for st in s.body for x in walk_in_order(st)):
            return False, "the validation loop can skip or swallow a failing check"
        return True, f"for {k}, {v} in {norm(s.iter)}: {checker}({k}, {v}, self._options[{k}].typespec) before the block"
    return False, "no validation loop over the applied values precedes the rollback block"


def check(ctx):
    ctx.rule("R44.1", "exceptions raised after the first _Option.set are restored by rollback or excluded by identical pre-validation")
    ctx.rule("R44.2", "rollback: copy before body; errored.send -> restore -> changed.send -> optional re-raise; _Option.set checks before assigning")
    ctx.rule("R44.3", "serialize writes changed (or all) options and drops unknown keys; load feeds update_defer")
    fn = ctx.func(OM, "OptManager.update_known")
    opt_set = ctx.func(OM, "_Option.set")
    ctx.func(TC, "check_option_type")
    ws = _with_rollback(fn)
    ctx.require(len(ws) == 1, "update_known: expected exactly one `with self.rollback(...)` block")
    w = ws[0]

    def dynamic(fr, call):
        where = f"{fr.mod.rel}::{fr.fn._qual}"
        f = call.func
        if isinstance(f, ast.Attribute) and f.attr == "set" and norm(f.value).startswith("self._options["):
            return [(OM, "_Option.set")]
        if isinstance(f, ast.Attribute) and f.attr == "send" and norm(f.value) in ("self.changed", "self.errored"):
            if norm(f.value) == "self.changed":
                # receivers: _notify_subscribers (connected in __init__) + external listeners (contract: OptionsError)
                return [(OM, "OptManager._notify_subscribers")]
            return ("raises", (), None)
        if where == f"{OM}::OptManager._notify_subscribers" and norm(f) == "callback":
            return ("raises", ("OptionsError",), None)
        return None

    ctx.assume("listeners notified through OptManager.changed raise OptionsError only (documented contract of subscribe/changed)")
    ctx.assume("typecheck.check_option_type is deterministic in (value, typespec)")
    init = ctx.func(OM, "OptManager.__init__")
    ctx.require(any(norm(n) == "self.changed.connect(self._notify_subscribers)" for n in walk_in_order(init) if isinstance(n, ast.Call)),
                "OptManager.__init__ no longer connects _notify_subscribers to changed")
    mr = MayRaise(ctx, Config(dynamic=dynamic, bounded_recursion={f"{TC}::check_option_type": "depth follows the declared typespec, not the value"}))
    kw = fn.args.kwarg.arg if fn.args.kwarg else None
    ctx.require(kw is not None, "update_known no longer takes **kwargs")
    env = {kw: "V"}
    body_esc = mr.region(OM, "OptManager.update_known", w.body, env)
    key = mr.key_of_region(OM, "OptManager.update_known", env)
    ctx.require({"TypeError", "OptionsError"} <= {e.exc for e in body_esc}, f"modelled raisers of the rollback block vanished: {sorted({e.exc for e in body_esc})}")
    for f in mr.functions:
        ctx.functions.add(f)
    ctx.paths += mr.sites
    rb, t, copies, hs = _restoring_handlers(ctx, mr)
    # escapes that stem from the validated call inside _Option.set
    chk_stmt = [s for s in opt_set.body if isinstance(s, ast.Expr) and isinstance(s.value, ast.Call) and norm(s.value.func).endswith("check_option_type")]
    ctx.require(len(chk_stmt) == 1, "_Option.set: type check changed shape")
    mr2 = MayRaise(ctx, Config(dynamic=dynamic, bounded_recursion={f"{TC}::check_option_type": "depth follows the declared typespec, not the value"}))
    check_esc = mr2.region(OM, "_Option.set", chk_stmt, {"value": "V"})
    set_rest = mr2.region(OM, "_Option.set", [s for s in opt_set.body if s not in chk_stmt], {"value": "V"})
    pre_ok, pre_desc = _prevalidated(ctx, fn, w, opt_set)
    uncovered = {}
    for e in sorted(body_esc, key=lambda e: (e.exc, e.rel, e.qual, e.text)):
        hit = next(((h, r) for h, names, r in hs if any(mr.h.isa(e.exc, n) for n in names)), None)
        if hit is not None and hit[1]:
            continue
        from_check = any((x.exc, x.rel, x.qual, x.text) == (e.exc, e.rel, e.qual, e.text) for x in check_esc) and \
            not any((x.exc, x.rel, x.qual, x.text) == (e.exc, e.rel, e.qual, e.text) for x in set_rest)
        if from_check and pre_ok:
            continue
        why = "no handler of rollback catches it" if hit is None else "the rollback handler that catches it does not restore _options"
        if from_check:
            why += f"; not excluded by pre-validation either ({pre_desc})"
        uncovered.setdefault(e.exc, (e, why))
    for typ, (e, why) in sorted(uncovered.items()):
        ctx.fail("R44.1", (OM, "OptManager.update_known", w), f"{typ} inside the rollback block is not rolled back",
                 f"{typ} raised at {e.site()} ({e.why}): {why}; options assigned earlier in the same update stay applied and nobody is notified; "
                 "call chain: " + " -> ".join(mr.chain(key, e)), chain=mr.chain(key, e))
    if not uncovered:
        ctx.ok("R44.1", f"escape set of the rollback block {sorted({e.exc for e in body_esc})}: restored by rollback "
               f"{[n for _, ns, r in hs if r for n in ns]}" + (f"; TypeError of _Option.set excluded by pre-validation: {pre_desc}" if pre_ok else ""))
    ctx.sample({"rule": "R44.1", "escape_set": sorted({e.exc for e in body_esc}), "restoring_handlers": [ns for _, ns, r in hs if r],
                "prevalidated": pre_ok, "idiom": pre_desc})
    ctx.expect_instances("R44.1", 1)

    # ---- R44.2
    ctx.check(len(copies) == 1, "R44.2", (OM, "OptManager.rollback", rb), "old = copy.deepcopy(self._options) before the body",
              "rollback no longer snapshots the options before yielding", desc="deep copy taken before the yield")
    h_opt = [(h, r) for h, names, r in hs if "OptionsError" in names]
    ctx.require(len(h_opt) == 1, "rollback: OptionsError handler vanished")
    h = h_opt[0][0]
    seq = []
    for st in h.body:
        if isinstance(st, ast.Expr) and isinstance(st.value, ast.Call):
            seq.append("call:" + norm(st.value.func) + "(" + ",".join(f"{k.arg}={norm(k.value)}" for k in st.value.keywords) + ")")
        elif isinstance(st, ast.Assign):
            seq.append("assign:" + norm(st.targets[0]))
        elif isinstance(st, ast.If) and any(isinstance(x, ast.Raise) for x in st.body):
            seq.append("reraise-if:" + norm(st.test))
        elif isinstance(st, ast.Raise):
            seq.append("reraise")
    want_prefix = ["call:self.errored.send(exc=%s)" % (h.name or "e")]
    restore_i = next((i for i, s in enumerate(seq) if s in ("assign:self.__dict__['_options']", "assign:self._options")), -1)
    notify_i = next((i for i, s in enumerate(seq) if s == "call:self.changed.send(updated=updated)"), -1)
    err_i = next((i for i, s in enumerate(seq) if s == want_prefix[0]), -1)
    rr_i = next((i for i, s in enumerate(seq) if s.startswith("reraise")), -1)
    ok = 0 <= err_i < restore_i < notify_i and (rr_i == -1 or rr_i > notify_i) and h_opt[0][1]
    ctx.check(ok, "R44.2", (OM, "OptManager.rollback", h), "errored.send -> restore -> changed.send(updated) -> re-raise",
              f"handler sequence is {seq}: listeners would not observe the restored state (or the state is not restored)", desc=f"handler order {seq}")
    rr_ok = rr_i != -1 and (seq[rr_i] == "reraise" or seq[rr_i] == "reraise-if:reraise")
    wcall = w.items[0].context_expr
    passes = any(k.arg == "reraise" and isinstance(k.value, ast.Constant) and k.value.value is True for k in wcall.keywords)
    ctx.check(rr_ok and passes, "R44.2", (OM, "OptManager.update_known", w), "update_known asks rollback to re-raise", "a rejected update is swallowed silently",
              desc="rollback(updated, reraise=True) re-raises after restoring")
    first_assign = next((i for i, s in enumerate(opt_set.body) if isinstance(s, ast.Assign) and norm(s.targets[0]) == "self.value"), -1)
    first_check = next((i for i, s in enumerate(opt_set.body) if s in chk_stmt), -1)
    ctx.check(0 <= first_check < first_assign, "R44.2", (OM, "_Option.set", opt_set), "_Option.set checks the type before assigning",
              "a value of the wrong type is stored before (or without) being checked", desc="check_option_type precedes self.value = value")
    ctx.expect_instances("R44.2", 4)

    # ---- R44.3
    ser, load, save = ctx.func(OM, "serialize"), ctx.func(OM, "load"), ctx.func(OM, "save")
    wr = [n for n in walk_in_order(ser) if isinstance(n, ast.For) and norm(n.iter) == "opts.keys()"]
    ok = False
    if len(wr) == 1 and len(wr[0].body) == 1 and isinstance(wr[0].body[0], ast.If):
        g = wr[0].body[0]
        k = norm(wr[0].target)
        ok = norm(g.test) == f"defaults or opts.has_changed({k})" and len(g.body) == 1 and norm(g.body[0]) == f"data[{k}] = getattr(opts, {k})" and not g.orelse
    ctx.check(ok, "R44.3", (OM, "serialize", ser), "serialize writes data[k] for `defaults or opts.has_changed(k)`", "the set of serialised options is no longer {changed} / {all}",
              desc="serialize: data[k] = getattr(opts, k) iff defaults or has_changed(k)")
    dl = [n for n in walk_in_order(ser) if isinstance(n, ast.For) and norm(n.iter) == "list(data.keys())"]
    ok = len(dl) == 1 and len(dl[0].body) == 1 and isinstance(dl[0].body[0], ast.If) and norm(dl[0].body[0].test) == f"{norm(dl[0].target)} not in opts._options" \
        and norm(dl[0].body[0].body[0]) == f"del data[{norm(dl[0].target)}]"
    ctx.check(ok, "R44.3", (OM, "serialize", ser), "serialize drops keys that are not options", "unknown keys of an old file survive serialisation", desc="serialize: unknown keys deleted")
    ok = any(norm(n) == "opts.update_defer(**data)" for n in walk_in_order(load) if isinstance(n, ast.Call)) and \
        any(norm(n) == "data = parse(text)" for n in load.body)
    ctx.check(ok, "R44.3", (OM, "load", load), "load: opts.update_defer(**parse(text))", "load no longer applies the parsed mapping through update_defer", desc="load feeds update_defer")
    ok = any(norm(n) == "serialize(opts, f, data, defaults)" for n in walk_in_order(save) if isinstance(n, ast.Call))
    ctx.check(ok, "R44.3", (OM, "save", save), "save forwards `defaults` to serialize", "save ignores its defaults flag", desc="save -> serialize(opts, f, data, defaults)")
    ctx.expect_instances("R44.3", 4)


PRE = "            for k, v in known.items():\n                typecheck.check_option_type(k, v, self._options[k].typespec)\n"
MUTANTS = [
    # R44.1 - reverse of the F-C44 fix and variants of it
    Mutant("reverse-fix-no-prevalidation", OM, PRE, "", "R44.1"),
    Mutant("prevalidation-of-other-values", OM, PRE, "            for k, v in kwargs.items():\n                typecheck.check_option_type(k, v, self._options[k].typespec)\n", "R44.1"),
    Mutant("prevalidation-against-default-type", OM, PRE, "            for k, v in known.items():\n                typecheck.check_option_type(k, v, type(self._options[k].default))\n", "R44.1"),
    Mutant("prevalidation-swallows-failure", OM, PRE, "            for k, v in known.items():\n                try:\n                    typecheck.check_option_type(k, v, self._options[k].typespec)\n                except TypeError:\n                    continue\n", "R44.1"),
    Mutant("rollback-handler-does-not-restore", OM, "            self.__dict__[\"_options\"] = old\n            self.changed.send(updated=updated)\n", "            self.changed.send(updated=updated)\n", "R44.1"),
    Mutant("set-raises-valueerror-for-choices", OM, "        typecheck.check_option_type(self.name, value, self.typespec)\n        self.value = value\n",
           "        typecheck.check_option_type(self.name, value, self.typespec)\n        if self.choices and value not in self.choices:\n            raise ValueError(f\"invalid choice for {self.name}\")\n        self.value = value\n", "R44.1"),
    # R44.2
    Mutant("rollback-takes-shallow-copy", OM, "        old = copy.deepcopy(self._options)\n        try:\n            yield\n", "        old = copy.copy(self._options)\n        try:\n            yield\n", "R44.2"),
    Mutant("rollback-notifies-before-restoring", OM, "            self.__dict__[\"_options\"] = old\n            self.changed.send(updated=updated)\n", "            self.changed.send(updated=updated)\n            self.__dict__[\"_options\"] = old\n", "R44.2"),
    Mutant("update-known-swallows-rejection", OM, "with self.rollback(updated, reraise=True):", "with self.rollback(updated):", "R44.2"),
    Mutant("option-set-assigns-before-check", OM, "        typecheck.check_option_type(self.name, value, self.typespec)\n        self.value = value\n", "        self.value = value\n        typecheck.check_option_type(self.name, value, self.typespec)\n", "R44.2"),
    # R44.3
    Mutant("serialize-writes-everything", OM, "        if defaults or opts.has_changed(k):\n            data[k] = getattr(opts, k)", "        if True:\n            data[k] = getattr(opts, k)", "R44.3"),
    Mutant("serialize-keeps-unknown-keys", OM, "        if k not in opts._options:\n            del data[k]\n", "        pass\n", "R44.3"),
    Mutant("load-uses-strict-update", OM, "    opts.update_defer(**data)", "    opts.update(**data)", "R44.3"),
    Mutant("save-ignores-defaults", OM, "serialize(opts, f, data, defaults)", "serialize(opts, f, data)", "R44.3"),
]
