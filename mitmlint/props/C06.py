"""C06 - translating between HTTP versions preserves message semantics (field tables of the converters).

Decided:
  R06.1 pseudo-header tables. format_h2_request_headers (path enumeration over authority? / h2-or-h3? / Host present?):
        emits :method, :scheme, :path exactly once each from the same-named request.data field, :authority exactly once
        from request.data.authority iff authority is set, pseudo-headers first in the result; parse_h2_request_headers
        pops exactly {:method,:scheme,:path (required), :authority (optional, default b"")}, raises on leftovers, and
        split_pseudo_headers raises on a duplicate pseudo-header; at both call sites (HTTP/2, HTTP/3) the parsed values
        reach http.Request(...) under the same-named keyword (origin table).  Response: (:status, status_code) is the
        first emitted field and parse_h2_response_headers' :status reaches http.Response(status_code=...).
  R06.2 HTTP/2|3 -> HTTP/1 conversion. Http1Client.send(RequestHeaders): for an h2/h3 request a COPY is modified
        (event.request untouched), http_version := HTTP/1.1, Host inserted from authority iff there is no Host header
        and authority is non-empty, authority cleared, several Cookie headers joined with "; "; an HTTP/1 request is
        sent unmodified.  Http1Server.send(ResponseHeaders): copy, HTTP/1.1 (a made-up reason phrase is allowed, not demanded).
  R06.3 inbound validation / HTTP/1 -> HTTP/2: Http2Connection.__init__ takes h2_conf.validate_inbound_headers from
        context.options.validate_inbound_headers before the h2 connection is created; both formatters pass HTTP/1
        header blocks through normalize_h1_headers; for an HTTP/1 request the Host header becomes :authority only when
        authority is empty, and it is popped from a copy.
  R06.4 one HTTP/2|3 message -> one HTTP/1 head: Http1Client.send(RequestHeaders) / Http1Server.send(ResponseHeaders)
        yield exactly one SendData whose bytes are assemble_request_head / assemble_response_head of the (converted)
        message, on every path.
NOT decided: what hyper-h2 / aioquic accept as header blocks (CR/LF/NUL filtering is library code controlled by the
option checked in R06.3), body and trailer bytes (relayed by C07's rules), HTTP/1 framing decisions (C01).
"""

from __future__ import annotations

import ast

from ..core import AnalysisError
from ..core import norm
from ..model import attr_chain
from ..model import eval_order
from ..model import last_attr
from ..model import walk_in_order
from ..paths import C
from ..selftest import Mutant
from ._helpers_A import ASpec
from ._helpers_A import compare_pair
from ._helpers_A import isinstance_of
from ._helpers_A import method_call_on
from ._helpers_A import params_of
from ._helpers_A import proj
from ._helpers_A import run_block
from ._helpers_A import show
from ._helpers_A import truthiness_atom

PROP = "C06"
REG = {
    "strength": "partial",
    "technique": "path enumeration over the converters with named condition atoms (field tables), origin tables across call sites, option dataflow",
    "claim": "h2/h3 pseudo-headers map one-to-one to request.data fields in both directions (no duplicates, no leftovers, same-named constructor "
    "keywords at both call sites); the HTTP/1 down-conversion works on a copy, sets HTTP/1.1, inserts Host from authority only when missing, joins "
    "Cookie headers with '; ' and emits exactly one head; inbound header validation follows the option; HTTP/1 header blocks are normalised for HTTP/2.",
    "note": "hyper-h2 / aioquic header validation and http1.assemble_* are trusted.",
}

H1 = "mitmproxy/proxy/layers/http/_http1.py"
H2 = "mitmproxy/proxy/layers/http/_http2.py"
H3 = "mitmproxy/proxy/layers/http/_http3.py"
REQ_PSEUDO = {b":method": "method", b":scheme": "scheme", b":path": "path", b":authority": "authority"}


def _bytes_const(e):
    return e.value if isinstance(e, ast.Constant) and isinstance(e.value, bytes) else None


# ---------------------------------------------------------------------------------------------------
# R06.1 / R06.3 format side


def _format_request(ctx):
    fn = ctx.func(H2, "format_h2_request_headers")
    ps = params_of(fn)
    ctx.require(len(ps) == 2, "format_h2_request_headers signature changed")
    ev = ps[1]
    w = (H2, "format_h2_request_headers", fn)
    rq = f"{ev}.request"

    def pairs(e, st, sp):
        """(name, source) for a 2-tuple literal (b':x', value)."""
        if isinstance(e, ast.Tuple) and len(e.elts) == 2 and _bytes_const(e.elts[0]) is not None:
            v = e.elts[1]
            src = sp.v(v, st)
            return (_bytes_const(e.elts[0]), src if isinstance(src, tuple) and src and src[0] == "hostpop" else (attr_chain(v) or norm(v)))
        return None

    def val(expr, st, sp):
        if isinstance(expr, ast.Call):
            f = expr.func
            if isinstance(f, ast.Attribute) and f.attr == "pop" and len(expr.args) >= 1 and isinstance(expr.args[0], ast.Constant) and str(expr.args[0].value if not isinstance(expr.args[0].value, bytes) else expr.args[0].value.decode()).lower() == "host":
                return ("hostpop", sp.v(f.value, st))
            if isinstance(f, ast.Attribute) and f.attr == "copy" and not expr.args:
                return ("copy", sp.v(f.value, st))
            if last_attr(f) == "normalize_h1_headers":
                return ("norm_h1",)
            if isinstance(f, ast.Name) and f.id == "list" and len(expr.args) == 1:
                return ("list", attr_chain(expr.args[0]) or norm(expr.args[0]))
        if isinstance(expr, ast.List):
            return ("pseudo_list",)
        return None

    def label(node, st, sp):
        out = []
        for n in eval_order(node):
            if isinstance(n, ast.List) and any(pairs(e, st, sp) for e in n.elts):
                for e in n.elts:
                    p = pairs(e, st, sp)
                    if p is None:
                        raise AnalysisError(f"unmodelled pseudo-header list element {norm(e)}")
                    out.append(("pseudo",) + p)
            elif isinstance(n, ast.Call) and isinstance(n.func, ast.Attribute) and n.func.attr in ("append", "insert") and n.args and pairs(n.args[-1], st, sp):
                if sp.v(n.func.value, st) != ("pseudo_list",) or n.func.attr != "append":
                    raise AnalysisError(f"pseudo-header added in an unmodelled way: {norm(n)}")
                out.append(("pseudo",) + pairs(n.args[-1], st, sp))
            elif isinstance(n, ast.Call) and last_attr(n.func) == "normalize_h1_headers":
                out.append(("norm_h1", norm(n.args[1]) if len(n.args) > 1 else "?"))
            elif isinstance(n, ast.Call) and last_attr(n.func) == "normalize_h2_headers":
                out.append(("norm_h2",))
        if isinstance(node, ast.Return) and node.value is not None:
            v = node.value
            if isinstance(v, ast.BinOp) and isinstance(v.op, ast.Add):
                out.append(("ret", sp.v(v.left, st), sp.v(v.right, st)))
            else:
                out.append(("ret", sp.v(v, st), None))
        return out

    def atom(expr, st, sp):
        for chain, name in ((f"{rq}.authority", "AUTH"), (f"{rq}.data.authority", "AUTH"), (f"{rq}.is_http2", "IS2"), (f"{rq}.is_http3", "IS3")):
            p = truthiness_atom(expr, chain)
            if p is not None:
                return (name, p)
        cp = compare_pair(expr, (ast.In, ast.NotIn))
        if cp and isinstance(cp[0], ast.Constant) and str(cp[0].value if not isinstance(cp[0].value, bytes) else cp[0].value.decode()).lower() == "host":
            return ("HOSTIN", isinstance(cp[2], ast.In))
        return None

    n = 0
    for AUTH in (True, False):
        for H23 in (True, False):
            for HOSTIN in (True, False):
                sc = {"AUTH": AUTH, "IS2": H23, "IS3": False, "HOSTIN": HOSTIN}
                traces, _ = run_block(fn.body, ASpec(label=label, atom=atom, scenario=sc, val=val, unroll=1), {ev: ("param", ev)})
                ctx.paths += len(traces)
                ctx.cells += 1
                ctx.require(traces, "format_h2_request_headers: no path")
                want = {(k, f"{rq}.data.{f}") for k, f in REQ_PSEUDO.items() if f != "authority"}
                host_moved = (not AUTH) and (not H23) and HOSTIN
                if AUTH:
                    want.add((b":authority", f"{rq}.data.authority"))
                cons = f"authority_set={AUTH} h2_or_h3={H23} host_header={HOSTIN}"
                for tr, how, _ in traces:
                    ps_ = [t[1:] for t in tr if t[0] == "pseudo"]
                    got = {p for p in ps_ if not (isinstance(p[1], tuple) and p[1][0] == "hostpop")}
                    hostpops = [p for p in ps_ if isinstance(p[1], tuple) and p[1][0] == "hostpop"]
                    ok = how == "return" and got == want and len(got) == len([p for p in ps_ if p not in hostpops])
                    why = f"pseudo-headers must be exactly {sorted((k.decode(), v) for k, v in want)} (each once), saw {[(k.decode(), v) for k, v in ps_]}"
                    if ok:
                        if host_moved:
                            ok = len(hostpops) == 1 and hostpops[0][0] == b":authority" and isinstance(hostpops[0][1][1], tuple) and hostpops[0][1][1][0] == "copy"
                            why = "for an HTTP/1 request without authority the Host header must become :authority, popped from a COPY of the headers (the flow's request must stay as received)"
                            rule = "R06.3"
                        else:
                            ok = not hostpops
                            why = "the Host header may only be moved into :authority for an HTTP/1 request whose authority is empty"
                            rule = "R06.3"
                    else:
                        rule = "R06.1"
                    if ok:
                        rets = [t for t in tr if t[0] == "ret"]
                        ok = len(rets) == 1 and rets[0][1] == ("pseudo_list",)
                        why, rule = "pseudo-headers must come first in the emitted header block", "R06.1"
                    if ok:
                        nh1 = [t for t in tr if t[0] == "norm_h1"]
                        ok = (not nh1) if H23 else (nh1 == [("norm_h1", "True")] and rets[0][2] == ("norm_h1",))
                        why, rule = "an HTTP/1 header block must go through normalize_h1_headers(..., is_client=True) before it is sent as HTTP/2 (and an h2/h3 block must not)", "R06.3"
                    if not ok:
                        ctx.fail(rule, w, cons, why)
                        break
                else:
                    n += 1
    ctx.ok("R06.1", f"format_h2_request_headers: {n}/8 scenario rows emit exactly the expected pseudo-headers, pseudo-headers first")
    ctx.ok("R06.3", f"format_h2_request_headers: Host -> :authority only for HTTP/1 without authority (from a copy); HTTP/1 blocks normalised ({n}/8 rows)")


def _format_response(ctx):
    fn = ctx.func(H2, "format_h2_response_headers")
    ev = params_of(fn)[1]
    w = (H2, "format_h2_response_headers", fn)
    lists = [n for n in walk_in_order(fn) if isinstance(n, ast.List) and n.elts and isinstance(n.elts[0], ast.Tuple) and len(n.elts[0].elts) == 2 and _bytes_const(n.elts[0].elts[0]) == b":status"]
    ctx.require(len(lists) == 1, "format_h2_response_headers: header list starting with :status not found")
    v = lists[0].elts[0].elts[1]
    src = None
    if isinstance(v, ast.BinOp) and isinstance(v.op, ast.Mod) and _bytes_const(v.left) == b"%d":
        src = attr_chain(v.right)
    ctx.check(src == f"{ev}.response.status_code", "R06.1", w, ":status source", f":status must be the decimal response.status_code, saw {norm(v)}", desc=f":status <- b'%d' % {ev}.response.status_code (first field)")
    rest = lists[0].elts[1:]
    ctx.check(len(rest) == 1 and isinstance(rest[0], ast.Starred) and attr_chain(rest[0].value) == f"{ev}.response.headers.fields", "R06.1", w, "response header fields",
              "the response's header fields must follow :status unchanged and complete", desc="response headers: [:status, *response.headers.fields]")
    others = [n for n in ast.walk(fn) if isinstance(n, ast.Tuple) and len(n.elts) == 2 and (_bytes_const(n.elts[0]) or b"").startswith(b":") and n is not lists[0].elts[0]]
    ctx.check(not others, "R06.1", w, "single :status", "more than one pseudo-header is emitted for a response", desc="response: exactly one pseudo-header")

    def label(node, st, sp):
        out = []
        for n in eval_order(node):
            if isinstance(n, ast.Call) and last_attr(n.func) == "normalize_h1_headers":
                out.append(("norm_h1", norm(n.args[1]) if len(n.args) > 1 else "?"))
        return out

    def atom(expr, st, sp):
        for chain, name in ((f"{ev}.response.is_http2", "IS2"), (f"{ev}.response.is_http3", "IS3")):
            p = truthiness_atom(expr, chain)
            if p is not None:
                return (name, p)
        return None

    for H23 in (True, False):
        traces, _ = run_block(fn.body, ASpec(label=label, atom=atom, scenario={"IS2": False, "IS3": H23}, unroll=1), {ev: ("param", ev)})
        ctx.paths += len(traces)
        bad = [tr for tr, how, _ in traces if [t for t in tr if t[0] == "norm_h1"] != ([] if H23 else [("norm_h1", "False")])]
        ctx.check(not bad, "R06.3", w, f"normalize_h1_headers for h2_or_h3={H23}", "an HTTP/1 response header block must go through normalize_h1_headers(..., is_client=False) before it is sent as HTTP/2 (and an h2/h3 block must not)",
                  desc=f"format_h2_response_headers h2_or_h3={H23}: {'no normalisation' if H23 else 'normalize_h1_headers(headers, False)'}")


# ---------------------------------------------------------------------------------------------------
# R06.1 parse side + call sites


def _origin_table(fn, popvar_chain="pseudo_headers"):
    """local name -> pseudo-header bytes it was popped from (through int(...) for :status); (pops, defaults)."""
    origin, defaults = {}, {}
    for n in ast.walk(fn):
        tgt = val = None
        if isinstance(n, ast.Assign) and len(n.targets) == 1:
            tgt, val = n.targets[0], n.value
        elif isinstance(n, ast.AnnAssign) and n.value is not None:
            tgt, val = n.target, n.value
        if tgt is None or not isinstance(tgt, ast.Name):
            continue
        v = val
        if isinstance(v, ast.Call) and isinstance(v.func, ast.Name) and v.func.id == "int" and len(v.args) == 1:
            v = v.args[0]
        if isinstance(v, ast.Call) and isinstance(v.func, ast.Attribute) and v.func.attr == "pop" and attr_chain(v.func.value) == popvar_chain and v.args and _bytes_const(v.args[0]) is not None:
            k = _bytes_const(v.args[0])
            origin[tgt.id] = k
            defaults[k] = v.args[1] if len(v.args) > 1 else None
    return origin, defaults


def _parse_side(ctx):
    # split_pseudo_headers: duplicate -> ValueError
    sp_fn = ctx.func(H2, "split_pseudo_headers")
    w = (H2, "split_pseudo_headers", sp_fn)
    loops = [l for l in walk_in_order(sp_fn) if isinstance(l, ast.For)]
    ctx.require(len(loops) == 1 and isinstance(loops[0].target, ast.Tuple) and len(loops[0].target.elts) == 2, "split_pseudo_headers: header loop not found")
    hname = loops[0].target.elts[0].id

    def atom(expr, st, sp):
        cp = compare_pair(expr, (ast.In, ast.NotIn))
        if cp and isinstance(cp[0], ast.Name) and cp[0].id == hname and isinstance(cp[1], ast.Name):
            return ("DUP", isinstance(cp[2], ast.In))
        if isinstance(expr, ast.Call) and isinstance(expr.func, ast.Attribute) and expr.func.attr == "startswith" and isinstance(expr.func.value, ast.Name) and expr.func.value.id == hname \
                and expr.args and _bytes_const(expr.args[0]) == b":":
            return ("PSEUDO", True)
        return None

    def label(node, st, sp):
        if isinstance(node, ast.Assign) and isinstance(node.targets[0], ast.Subscript) and isinstance(node.targets[0].slice, ast.Name) and node.targets[0].slice.id == hname:
            return [("store",)]
        return []

    traces, _ = run_block(loops[0].body, ASpec(label=label, atom=atom, scenario={"PSEUDO": True, "DUP": True}, unroll=1))
    ctx.paths += len(traces)
    ctx.check(traces and all(how == "raise:ValueError" and not tr_has(tr, "store") for tr, how, _ in traces), "R06.1", w, "duplicate pseudo-header",
              "a repeated pseudo-header (e.g. two :path) is accepted - the HTTP/1 request built from it differs from what the HTTP/2 peer and other parsers see",
              desc="split_pseudo_headers: duplicate pseudo-header -> ValueError")
    traces, _ = run_block(loops[0].body, ASpec(label=label, atom=atom, scenario={"PSEUDO": True, "DUP": False}, unroll=1))
    ctx.require(traces and all(tr_has(tr, "store") for tr, how, _ in traces if how == "return"), "split_pseudo_headers: a fresh pseudo-header is not stored (shape not modelled)")

    # parse_h2_request_headers
    pr = ctx.func(H2, "parse_h2_request_headers")
    wp = (H2, "parse_h2_request_headers", pr)
    origin, defaults = _origin_table(pr)
    ctx.check(set(defaults) == set(REQ_PSEUDO), "R06.1", wp, "popped pseudo-headers", f"the parser must take exactly {sorted(k.decode() for k in REQ_PSEUDO)} out of the pseudo-header dict, saw {sorted(k.decode() for k in defaults)}",
              desc="parse_h2_request_headers pops :method :scheme :path :authority")
    req_ok = all(defaults.get(k) is None for k in (b":method", b":scheme", b":path")) and defaults.get(b":authority") is not None and _bytes_const(defaults[b":authority"]) == b""
    ctx.check(req_ok, "R06.1", wp, "required / optional pseudo-headers", ":method, :scheme, :path must be required (no default) and :authority optional with default b\"\"",
              desc=":method/:scheme/:path required, :authority optional (b\"\")")
    _leftover(ctx, pr, wp, "request")
    rets = [n for n in ast.walk(pr) if isinstance(n, ast.Return) and isinstance(n.value, ast.Tuple)]
    ctx.require(len(rets) == 1 and all(isinstance(e, ast.Name) for e in rets[0].value.elts), "parse_h2_request_headers: single tuple return of names expected")
    ret_origin = [origin.get(e.id, "local:" + e.id) for e in rets[0].value.elts]
    for rel, qual, ver in ((H2, "Http2Server.handle_h2_event", b"HTTP/2.0"), (H3, "Http3Server.parse_headers", b"HTTP/3")):
        _call_site(ctx, rel, qual, "parse_h2_request_headers", ret_origin, "Request", {f: k for k, f in REQ_PSEUDO.items()}, ver)

    ps = ctx.func(H2, "parse_h2_response_headers")
    wps = (H2, "parse_h2_response_headers", ps)
    origin, defaults = _origin_table(ps)
    ctx.check(set(defaults) == {b":status"} and defaults[b":status"] is None, "R06.1", wps, "popped pseudo-headers", f"the response parser must take exactly :status (required), saw {sorted(defaults)}",
              desc="parse_h2_response_headers pops :status (required)")
    _leftover(ctx, ps, wps, "response")
    rets = [n for n in ast.walk(ps) if isinstance(n, ast.Return) and isinstance(n.value, ast.Tuple)]
    ctx.require(len(rets) == 1 and all(isinstance(e, ast.Name) for e in rets[0].value.elts), "parse_h2_response_headers: single tuple return of names expected")
    ret_origin = [origin.get(e.id, "local:" + e.id) for e in rets[0].value.elts]
    for rel, qual, ver in ((H2, "Http2Client.handle_h2_event", b"HTTP/2.0"), (H3, "Http3Client.parse_headers", b"HTTP/3")):
        _call_site(ctx, rel, qual, "parse_h2_response_headers", ret_origin, "Response", {"status_code": b":status"}, ver)


def tr_has(tr, kind):
    return any(t[0] == kind for t in tr)


def _leftover(ctx, fn, w, what):
    def atom(expr, st, sp):
        if isinstance(expr, ast.Name) and expr.id == "pseudo_headers":
            return ("LEFT", True)
        if isinstance(expr, ast.Call) and isinstance(expr.func, ast.Name) and expr.func.id == "len" and attr_chain(expr.args[0]) == "pseudo_headers":
            return ("LEFT", True)
        return None

    traces, _ = run_block(fn.body, ASpec(atom=atom, scenario={"LEFT": True}, unroll=1))
    ctx.paths += len(traces)
    ctx.require(traces, f"{w[1]}: no path")
    ctx.check(all(how == "raise:ValueError" for _, how, _ in traces), "R06.1", w, "unknown pseudo-headers rejected",
              f"a {what} header block with additional pseudo-headers is accepted and the extra fields silently dropped", desc=f"{w[1]}: leftover pseudo-headers -> ValueError")


def _call_site(ctx, rel, qual, parser, ret_origin, ctor, want, version):
    fn = ctx.func(rel, qual)
    w = (rel, qual, fn)
    asg = [n for n in ast.walk(fn) if isinstance(n, ast.Assign) and isinstance(n.value, ast.Call) and last_attr(n.value.func) == parser]
    ctx.require(len(asg) == 1 and isinstance(asg[0].targets[0], ast.Tuple) and len(asg[0].targets[0].elts) == len(ret_origin) and all(isinstance(e, ast.Name) for e in asg[0].targets[0].elts),
                f"{qual}: result of {parser} is not unpacked into {len(ret_origin)} names")
    local_origin = {e.id: o for e, o in zip(asg[0].targets[0].elts, ret_origin)}
    ctors = [n for n in ast.walk(fn) if isinstance(n, ast.Call) and attr_chain(n.func) == f"http.{ctor}"]
    ctx.require(len(ctors) == 1 and not ctors[0].args, f"{qual}: expected one keyword-only http.{ctor}(...) call")
    kw = {k.arg: k.value for k in ctors[0].keywords}
    for field, pseudo in want.items():
        v = kw.get(field)
        got = local_origin.get(v.id) if isinstance(v, ast.Name) else None
        ctx.check(got == pseudo, "R06.1", w, f"http.{ctor}({field}=...) origin", f"http.{ctor}'s `{field}` must be the value of the {pseudo.decode()} pseudo-header, but it is {norm(v) if v is not None else 'missing'} "
                  f"(origin {got!r})", desc=f"{qual}: {ctor}.{field} <- {pseudo.decode()}")
    hv = kw.get("http_version")
    ctx.check(hv is not None and _bytes_const(hv) == version, "R06.1", w, f"http.{ctor}(http_version=...)", f"a message received over {version.decode()} must be recorded with that version (the down-conversion to HTTP/1 keys on it)",
              desc=f"{qual}: {ctor}.http_version = {version.decode()}")
    hd = kw.get("headers")
    ctx.check(isinstance(hd, ast.Name) and str(local_origin.get(hd.id, "")).startswith("local:headers"), "R06.1", w, f"http.{ctor}(headers=...)", "the regular header fields returned by the parser must become the message's headers",
              desc=f"{qual}: {ctor}.headers <- parsed regular headers")


# ---------------------------------------------------------------------------------------------------
# R06.2 / R06.4  down-conversion in _http1.py


def _downconvert(ctx, cls, msg, hdr_event, assemble):
    fn = ctx.func(H1, f"{cls}.send")
    ev = params_of(fn)[0]
    w = (H1, f"{cls}.send", fn)
    is_req = msg == "request"

    def val(expr, st, sp):
        if isinstance(expr, ast.Call):
            f = expr.func
            if isinstance(f, ast.Attribute) and f.attr == "copy" and not expr.args:
                return ("copy", sp.v(f.value, st))
            if attr_chain(f) == f"http1.{assemble}" and len(expr.args) == 1:
                return ("head", sp.v(expr.args[0], st))
            if isinstance(f, ast.Attribute) and f.attr == "get_all" and expr.args and isinstance(expr.args[0], ast.Constant) and str(expr.args[0].value).lower() == "cookie":
                return ("cookies", sp.v(f.value.value, st) if isinstance(f.value, ast.Attribute) else None)
        if attr_chain(expr) == f"{ev}.{msg}":
            return ("orig",)
        return None

    def msgvar(e, st, sp):
        """abstract value of the object an attribute chain hangs off: request.headers -> value(request)"""
        while isinstance(e, (ast.Attribute, ast.Subscript)):
            e = e.value
            if isinstance(e, ast.Name):
                return sp.v(e, st)
            if attr_chain(e) == f"{ev}.{msg}":
                return ("orig",)
        return None

    def label(node, st, sp):
        out = []
        for n in eval_order(node):
            if isinstance(n, ast.Call):
                f = n.func
                if isinstance(f, ast.Attribute) and f.attr == "insert" and isinstance(f.value, ast.Attribute) and f.value.attr == "headers" and len(n.args) == 3:
                    out.append(("hdr_insert", msgvar(f, st, sp), norm(n.args[0]), norm(n.args[1]), attr_chain(n.args[2]) or norm(n.args[2])))
                elif isinstance(f, ast.Attribute) and f.value is not None and isinstance(f.value, ast.Attribute) and f.value.attr == "headers" and f.attr in ("pop", "clear", "set_all", "add", "update", "setdefault", "__setitem__"):
                    out.append(("hdr_other", msgvar(f, st, sp), norm(n)))
            elif isinstance(n, ast.Yield) and isinstance(n.value, ast.Call) and last_attr(n.value.func) == "SendData":
                a = n.value.args
                out.append(("send", sp.v(a[1], st) if len(a) == 2 else ("?",)))
            elif isinstance(n, ast.Yield):
                out.append(("yield", norm(n.value)[:40] if n.value is not None else ""))
        if isinstance(node, ast.Assign):
            for t in node.targets:
                if isinstance(t, ast.Attribute) and not attr_chain(t).startswith("self."):
                    out.append(("set", msgvar(t, st, sp), t.attr, norm(node.value)))
                elif isinstance(t, ast.Subscript) and isinstance(t.value, ast.Attribute) and t.value.attr == "headers":
                    v = node.value
                    joined = None
                    if isinstance(v, ast.Call) and isinstance(v.func, ast.Attribute) and v.func.attr == "join" and isinstance(v.func.value, ast.Constant) and len(v.args) == 1:
                        cv = sp.v(v.args[0], st)
                        joined = (v.func.value.value, cv[0] if isinstance(cv, tuple) else None)
                    out.append(("hdr_set", msgvar(t, st, sp), norm(t.slice), joined if joined else norm(v)))
        elif isinstance(node, ast.Delete):
            for t in node.targets:
                if isinstance(t, ast.Subscript) and isinstance(t.value, ast.Attribute) and t.value.attr == "headers":
                    out.append(("hdr_other", msgvar(t, st, sp), norm(node)))
        return out

    def atom(expr, st, sp):
        io = isinstance_of(expr)
        if io and isinstance(io[0], ast.Name) and io[0].id == ev and len(io[1]) == 1:
            return ("is:" + io[1][0], True)
        if isinstance(expr, ast.Attribute) and expr.attr in ("is_http2", "is_http3") and isinstance(expr.value, ast.Name) and sp.v(expr.value, st) in (("orig",),):
            return ("IS2" if expr.attr == "is_http2" else "IS3", True)
        if isinstance(expr, ast.Attribute) and expr.attr == "authority" and isinstance(expr.value, ast.Name) and isinstance(sp.v(expr.value, st), tuple) and sp.v(expr.value, st)[0] in ("copy", "orig"):
            return ("AUTH", True)
        cp = compare_pair(expr, (ast.In, ast.NotIn))
        if cp and isinstance(cp[0], ast.Constant) and str(cp[0].value).lower() == "host" and isinstance(cp[1], ast.Attribute) and cp[1].attr == "headers":
            return ("HOSTIN", isinstance(cp[2], ast.In))
        cp = compare_pair(expr, (ast.Gt, ast.GtE))
        if cp and isinstance(cp[0], ast.Call) and isinstance(cp[0].func, ast.Name) and cp[0].func.id == "len" and isinstance(sp.v(cp[0].args[0], st), tuple) and sp.v(cp[0].args[0], st)[0] == "cookies" \
                and isinstance(cp[1], ast.Constant) and cp[1].value == (1 if isinstance(cp[2], ast.Gt) else 2):
            return ("MULTICOOKIE", True)
        return None

    names = set()
    for n in ast.walk(fn):
        io = isinstance_of(n)
        if io and isinstance(io[0], ast.Name) and io[0].id == ev:
            names.update(io[1])
    ctx.require(hdr_event in names, f"{cls}.send no longer handles {hdr_event}")
    COPY = ("copy", ("orig",))
    n_rows = 0
    n_fail = 0
    combos = [(h23, host, auth, mc) for h23 in (True, False) for host in (True, False) for auth in (True, False) for mc in (True, False)] if is_req else [(h23, None, None, None) for h23 in (True, False)]
    for H23, HOSTIN, AUTH, MC in combos:
        sc = {"is:" + k: (k == hdr_event) for k in names}
        sc.update({"IS2": H23, "IS3": False, "SID": True})
        if is_req:
            sc.update({"HOSTIN": HOSTIN, "AUTH": AUTH, "MULTICOOKIE": MC})
        init = {"self.stream_id": ("sid",)}
        traces, _ = run_block(fn.body, ASpec(label=label, atom=atom, scenario=sc, val=val, unroll=1), {ev: ("param", ev)})
        ctx.paths += len(traces)
        ctx.cells += 1
        ctx.require(traces, f"{cls}.send: no path for {hdr_event}")
        cons = f"{hdr_event} h2_or_h3={H23}" + (f" host_header={HOSTIN} authority={AUTH} several_cookies={MC}" if is_req else "")
        for tr, how, _ in traces:
            if how != "return":
                continue
            n_rows += 1
            eff = [t for t in tr if t[0] in ("set", "hdr_insert", "hdr_set", "hdr_other", "send", "yield")]
            sends = [t for t in eff if t[0] == "send"]
            mods = [t for t in eff if t[0] in ("set", "hdr_insert", "hdr_set", "hdr_other") and not (t[0] == "set" and t[1] is None)]
            # R06.4 exactly one head, of the message that was converted
            target = COPY if (H23 and any(t[1] == COPY for t in mods)) else ("orig",)
            if [t for t in eff if t[0] == "yield"] or len(sends) != 1 or sends[0][1] != ("head", target):
                ctx.fail("R06.4", w, cons, f"exactly one SendData(http1.{assemble}(<{'converted copy' if H23 else 'message'}>)) must be emitted per {hdr_event}; saw {show(sends)} {show([t for t in eff if t[0] == 'yield'])}")
                n_fail += 1
            if not H23:
                bad = [t for t in mods if t[1] in (("orig",), COPY)]
                if bad:
                    ctx.fail("R06.2", w, cons, f"an HTTP/1 {msg} must be forwarded unmodified, saw {show(bad)}")
                    n_fail += 1
                continue
            if any(t[1] != COPY for t in mods):
                ctx.fail("R06.2", w, cons, f"the conversion must work on a copy - the flow's {msg} (event.{msg}) must stay as received; saw {show([t for t in mods if t[1] != COPY])}")
                n_fail += 1
                continue
            want = [("set", COPY, "http_version", "'HTTP/1.1'")]
            if is_req:
                if not HOSTIN and AUTH:
                    want.append(("hdr_insert", COPY, "0", "'Host'", "request.authority"))
                want.append(("set", COPY, "authority", "''"))
                if MC:
                    want.append(("hdr_set", COPY, "'Cookie'", ("; ", "cookies")))
            else:
                # a made-up reason phrase is allowed (an empty one is valid HTTP/1 too), it is not part of the message semantics
                mods = [t for t in mods if not (t[0] == "set" and t[2] == "reason")]
            got = [(t[0], t[1]) + tuple(t[2:]) for t in mods]
            got_n = [g if g[0] != "hdr_insert" else g[:4] + (g[4].split(".")[-1],) for g in got]
            want_n = [x if x[0] != "hdr_insert" else x[:4] + (x[4].split(".")[-1],) for x in want]
            if sorted(map(str, got_n)) != sorted(map(str, want_n)) or (is_req and not HOSTIN and AUTH and got_n.index(want_n[1]) > got_n.index(want_n[2])):
                ctx.fail("R06.2", w, cons, f"conversion of an h2/h3 {msg} to HTTP/1 must perform exactly {show(want_n)} (Host from authority before authority is cleared), saw {show(got_n)}")
                n_fail += 1
    if not any(f.rule == "R06.2" and f.func == f"{cls}.send" for f in ctx.findings):
        ctx.ok("R06.2", f"{cls}.send({hdr_event}): {len(combos)} scenario rows, {n_rows} paths convert on a copy exactly as specified")
    if not any(f.rule == "R06.4" and f.func == f"{cls}.send" for f in ctx.findings):
        ctx.ok("R06.4", f"{cls}.send({hdr_event}): exactly one SendData(http1.{assemble}(...)) on {n_rows} paths")


# ---------------------------------------------------------------------------------------------------
# R06.3 option dataflow


def _validation_option(ctx):
    fn = ctx.func(H2, "Http2Connection.__init__")
    w = (H2, "Http2Connection.__init__", fn)

    def label(node, st, sp):
        out = []
        if isinstance(node, ast.Assign):
            for t in node.targets:
                if attr_chain(t) == "self.h2_conf.validate_inbound_headers":
                    out.append(("opt", attr_chain(node.value) or norm(node.value)))
                if attr_chain(t) == "self.h2_conn":
                    out.append(("conn", norm(node.value)))
        return out

    traces, _ = run_block(fn.body, ASpec(label=label, unroll=1))
    ctx.paths += len(traces)
    ctx.require(traces, "Http2Connection.__init__: no path")
    bad = None
    for tr, how, _ in traces:
        toks = [t for t in tr if t[0] in ("opt", "conn")]
        if toks != [("opt", "self.context.options.validate_inbound_headers"), ("conn", "BufferedH2Connection(self.h2_conf)")]:
            bad = toks
    ctx.check(bad is None, "R06.3", w, "h2_conf.validate_inbound_headers <- option", "hyper-h2's inbound header validation must follow context.options.validate_inbound_headers (set before the h2 connection is "
              f"created from self.h2_conf); saw {show(bad) if bad else ''}", desc="Http2Connection.__init__: validate_inbound_headers <- context.options.validate_inbound_headers, then BufferedH2Connection(self.h2_conf)")
    dflt = ctx.model.cls(H2, "Http2Connection")
    pinned = [k.arg for n in ast.walk(dflt) if isinstance(n, ast.Call) and isinstance(n.func, ast.Name) and n.func.id == "dict" for k in n.keywords if k.arg == "validate_inbound_headers"]
    for sub in ("Http2Server", "Http2Client"):
        c = ctx.model.cls(H2, sub)
        pinned += [k.arg for n in ast.walk(c) if isinstance(n, ast.Call) and last_attr(n.func) == "H2Configuration" for k in n.keywords if k.arg == "validate_inbound_headers"]
    ctx.check(not pinned, "R06.3", (H2, "Http2Connection", dflt), "validate_inbound_headers not pinned", "validate_inbound_headers is pinned to a constant in the H2Configuration defaults",
              desc="H2Configuration defaults do not pin validate_inbound_headers")


def check(ctx):
    ctx.rule("R06.1", "pseudo-header <-> field tables of format_h2_*_headers / parse_h2_*_headers / http.Request|Response call sites agree; duplicates and leftovers rejected")
    ctx.rule("R06.2", "h2/h3 -> HTTP/1 conversion: copy, HTTP/1.1, Host from authority iff missing, authority cleared, Cookie joined with '; '; responses: copy + HTTP/1.1")
    ctx.rule("R06.3", "inbound header validation follows the option; HTTP/1 blocks are normalised for HTTP/2; Host -> :authority only when authority is empty")
    ctx.rule("R06.4", "exactly one HTTP/1 head (one SendData of assemble_*_head) per RequestHeaders / ResponseHeaders")
    ctx.trust("hyper-h2 / aioquic header validation, http1.assemble_request_head / assemble_response_head, h2.utilities.normalize_outbound_headers")
    _format_request(ctx)
    _format_response(ctx)
    _parse_side(ctx)
    _downconvert(ctx, "Http1Client", "request", "RequestHeaders", "assemble_request_head")
    _downconvert(ctx, "Http1Server", "response", "ResponseHeaders", "assemble_response_head")
    _validation_option(ctx)
    ctx.expect_instances("R06.1", 28)
    ctx.expect_instances("R06.2", 2)
    ctx.expect_instances("R06.3", 5)
    ctx.expect_instances("R06.4", 2)


MUTANTS = [
    # R06.1
    Mutant("format-scheme-from-url", H2, "(b\":scheme\", event.request.data.scheme),", "(b\":scheme\", event.request.data.method),", "R06.1"),
    Mutant("format-authority-always", H2, "    if event.request.authority:\n        pseudo_headers.append((b\":authority\", event.request.data.authority))\n", "    pseudo_headers.append((b\":authority\", event.request.data.authority))\n", "R06.1"),
    Mutant("format-pseudo-last", H2, "    return pseudo_headers + hdrs", "    return hdrs + pseudo_headers", "R06.1"),
    Mutant("split-accepts-duplicates", H2, "            if header in pseudo_headers:\n                raise ValueError(f\"Duplicate HTTP/2 pseudo header: {header!r}\")\n", "", "R06.1"),
    Mutant("parse-ignores-leftovers", H2, "    if pseudo_headers:\n        raise ValueError(f\"Unknown pseudo headers: {pseudo_headers}\")\n\n    if authority:", "    if authority:", "R06.1"),
    Mutant("parse-path-optional", H2, "path: bytes = pseudo_headers.pop(b\":path\")", "path: bytes = pseudo_headers.pop(b\":path\", b\"/\")", "R06.1"),
    Mutant("h2-site-swaps-scheme-method", H2, "                method=method,\n                scheme=scheme,\n                authority=authority,\n                path=path,\n                http_version=b\"HTTP/2.0\",",
           "                method=scheme,\n                scheme=method,\n                authority=authority,\n                path=path,\n                http_version=b\"HTTP/2.0\",", "R06.1"),
    Mutant("h3-site-unpack-order", H3, "            method,\n            scheme,\n            authority,\n            path,\n            headers,\n        ) = parse_h2_request_headers(event.headers)",
           "            method,\n            scheme,\n            path,\n            authority,\n            headers,\n        ) = parse_h2_request_headers(event.headers)", "R06.1"),
    Mutant("response-status-from-reason", H2, "(b\":status\", b\"%d\" % event.response.status_code),", "(b\":status\", event.response.data.reason),", "R06.1"),
    # R06.2
    Mutant("downconvert-mutates-flow-request", H1, "                request = (\n                    request.copy()\n                )  # (we could probably be a bit more efficient here.)\n", "", "R06.2"),
    Mutant("downconvert-host-overrides", H1, "                if \"Host\" not in request.headers and request.authority:", "                if request.authority:", "R06.2"),
    Mutant("downconvert-cookie-comma", H1, "request.headers[\"Cookie\"] = \"; \".join(cookie_headers)", "request.headers[\"Cookie\"] = \", \".join(cookie_headers)", "R06.2"),
    Mutant("downconvert-keeps-authority", H1, "                request.authority = \"\"\n", "", "R06.2"),
    Mutant("downconvert-keeps-h2-version", H1, "                request.http_version = \"HTTP/1.1\"\n", "", "R06.2"),
    Mutant("response-downconvert-mutates-flow", H1, "                response = response.copy()\n", "", "R06.2"),
    Mutant("response-keeps-h2-version", H1, "                response.http_version = \"HTTP/1.1\"\n", "", "R06.2"),
    # R06.3
    Mutant("h2-validation-always-off", H2, "        self.h2_conf.validate_inbound_headers = (\n            self.context.options.validate_inbound_headers\n        )\n", "        self.h2_conf.validate_inbound_headers = False\n", "R06.3"),
    Mutant("h2-validation-set-too-late", H2, "        self.h2_conf.validate_inbound_headers = (\n            self.context.options.validate_inbound_headers\n        )\n        self.h2_conn = BufferedH2Connection(self.h2_conf)\n",
           "        self.h2_conn = BufferedH2Connection(self.h2_conf)\n        self.h2_conf.validate_inbound_headers = (\n            self.context.options.validate_inbound_headers\n        )\n", "R06.3"),
    Mutant("h1-request-not-normalised", H2, "        hdrs = normalize_h1_headers(list(headers.fields), True)", "        hdrs = list(headers.fields)", "R06.3"),
    Mutant("host-overrides-authority", H2, "        if not event.request.authority and \"host\" in headers:", "        if \"host\" in headers:", "R06.3"),
    Mutant("host-popped-from-flow", H2, "            headers = headers.copy()\n            pseudo_headers.append", "            pseudo_headers.append", "R06.3"),
    # R06.4
    Mutant("two-heads", H1, "            raw = http1.assemble_request_head(request)\n            yield commands.SendData(self.conn, raw)\n", "            raw = http1.assemble_request_head(request)\n            yield commands.SendData(self.conn, raw)\n            if request is not event.request:\n                yield commands.SendData(self.conn, raw)\n", "R06.4"),
    Mutant("head-of-unconverted-request", H1, "            raw = http1.assemble_request_head(request)\n", "            raw = http1.assemble_request_head(event.request)\n", "R06.4"),
    Mutant("response-head-conditional", H1, "            raw = http1.assemble_response_head(response)\n            yield commands.SendData(self.conn, raw)\n", "            raw = http1.assemble_response_head(response)\n            if raw:\n                yield commands.SendData(self.conn, raw)\n", "R06.4"),
]
