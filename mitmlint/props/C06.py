"""C06 - translating between HTTP versions preserves message semantics (field tables of the converters).

The converters are *interpreted* (mitmlint.pyint over their ASTs, nothing from the repository is imported or run) on a finite
domain of abstract messages - HTTP version x authority set/empty x Host header present/absent x several Cookie headers x
normalize_outbound_headers - and the *results* (the emitted header block, the message handed to http1.assemble_*_head, the
state of the flow's own message afterwards, what hyper-h2's normaliser was asked to do) are compared with the message that went
in.  Local names, branch polarity, temporaries, extracted / renamed helpers, added logging and assertions do not matter: only
what comes out does.

Decided:
  R06.1 pseudo-header tables. format_h2_request_headers emits :method, :scheme, :path exactly once each with the value of the
        same-named request.data field, :authority exactly once with request.data.authority iff authority is set, pseudo-headers
        before all regular fields, regular fields complete and in order (names compared case-insensitively);
        format_h2_response_headers emits (:status, decimal status_code) first, no other pseudo-header, then the response's fields;
        parse_h2_request_headers consumes exactly {:method,:scheme,:path (required), :authority (optional, default b"")} and
        parse_h2_response_headers exactly {:status}: a missing required, an unknown or a repeated pseudo-header -> ValueError,
        the regular fields are returned complete and in order; at the call sites (HTTP/2, HTTP/3) every parsed value reaches
        http.Request(...) / http.Response(...) under the same-named field with the right http_version: the call site is
        interpreted on header blocks with sentinel pseudo-header values and the message it builds is inspected (helpers, star
        arguments, unpacking order do not matter); only when a call site cannot be interpreted in the modelled set-up the
        rule falls back to def-use from the parser's result to the constructor call inside the anchor function.
  R06.2 HTTP/2|3 -> HTTP/1 conversion. Http1Client.send(RequestHeaders): for an h2/h3 request the message whose head is sent has
        http_version HTTP/1.1, an empty authority, a Host header taken from the authority iff there was no Host header and the
        authority is non-empty, several Cookie headers joined with "; ", every other field and header unchanged (a Content-Length /
        Transfer-Encoding the request conversion ADDS to announce the body is left to R06.5) - and the flow's own request
        (event.request) is exactly as before; an HTTP/1 request is sent unmodified.
        Http1Server.send(ResponseHeaders): same with HTTP/1.1 (a made-up reason phrase is allowed, not demanded).
  R06.3 inbound validation / HTTP/1 -> HTTP/2: Http2Connection.__init__ (interpreted with the option on and off; path
        enumeration as fallback) takes h2_conf.validate_inbound_headers from context.options.validate_inbound_headers before
        the one h2 connection is created from that configuration and nothing else in _http2.py writes another value; both formatters hand an HTTP/1 header block (complete, in order) to hyper-h2's
        normalize_outbound_headers with the right client/response flags and emit its result, and never do that for an h2/h3
        block; for an HTTP/1 request the Host header becomes :authority only when authority is empty, and the flow's own
        headers are untouched by that.
  R06.4 one HTTP/2|3 message -> one HTTP/1 head: Http1Client.send(RequestHeaders) / Http1Server.send(ResponseHeaders)
        yield exactly one SendData whose bytes are assemble_request_head / assemble_response_head of the (converted)
        message (Log commands are transparent), in every scenario.
  R06.5 one HTTP/2|3 message -> exactly one HTTP/1 message on the wire (BOUNDED interpretation, not a proof for all inputs):
        Http1Client.send is interpreted over RequestHeaders, RequestData*, RequestEndOfMessage for every cell of
        {HTTP/2.0, HTTP/3, HTTP/1.1} x framing header {none, content-length, transfer-encoding: chunked} x end_stream x
        {buffered: raw_content = the body bytes (b"" included), one RequestData | streamed: raw_content None, 0-3 RequestData, one
        of them empty} x bodies of 0 / 5 / 39 / 23 bytes; http1.assemble_request_head is interpreted too, so SendData carries real
        bytes.  Those bytes are read by a small reference HTTP/1 request reader written from RFC 9112 (request line, field lines,
        Content-Length xor chunked coding, a request with neither has no body): they must be one complete request whose body is the
        concatenation of the RequestData payloads, with nothing left over (left-over bytes are what the server parses as the next
        request).  Failures are classed by what the reader saw, never by the code's shape:
          * converted request, no framing header, body not announced, raw body follows: buffered -> F-C06 (repaired in 1e0ce2d10: must
            hold), streamed -> the ONE constant finding F-C06s (cannot be repaired without editing tests that pin the streamed head);
          * an empty RequestData under chunked coding is written as the last-chunk `0 CRLF CRLF` and ends the message early (found by
            this rule, findings/F-C01c, repaired in f1f995324: must hold);
          * anything else -> a violation named after the cell.
        The response direction (Http1Server.send: a converted response without Content-Length is close-delimited, which is valid
        HTTP/1 framing for responses) is not covered by R06.5.
NOT decided: what hyper-h2 / aioquic accept as header blocks (CR/LF/NUL filtering is library code controlled by the
option checked in R06.3), trailers, bodies outside R06.5's cells (a Content-Length that disagrees with the data, CONNECT / upgrades,
HTTP/1 requests whose framing header an addon removed; byte-exact relay is C07's subject), HTTP/1 framing decisions on receipt (C01).
"""

from __future__ import annotations

import ast
import ipaddress as _ipaddress
import re as _re
import time as _time
import urllib.parse as _urllib_parse  # noqa: F401  (makes urllib.parse available on the trusted urllib module)
from collections import namedtuple
from types import SimpleNamespace

import urllib as _urllib

from ..core import AnalysisError
from ..core import norm
from ..model import attr_chain
from ..model import last_attr
from ..pyint import Gen
from ..pyint import Interp
from ..pyint import NullLog
from ..pyint import Raised
from ..pyint import Rec
from ..pyint import _Return
from ..selftest import Mutant
from ._helpers_A import ASpec
from ._helpers_A import SeqPatterns
from ._helpers_A import params_of
from ._helpers_A import run_block
from ._helpers_A import show

PROP = "C06"
REG = {
    "strength": "partial",
    "technique": "abstract interpretation of the converters' ASTs (pyint) over a finite message domain with trusted models of http.Headers / "
    "hyper-h2's normaliser; the outputs are compared with the inputs (field tables); dataflow from parser result to constructor at the call sites; option dataflow; "
    "bounded interpretation of Http1Client.send over request event sequences, the written bytes judged by an independent RFC 9112 request reader",
    "claim": "h2/h3 pseudo-headers map one-to-one to request.data fields in both directions (no duplicates, no leftovers, same-named constructor "
    "parameters at both call sites); the HTTP/1 down-conversion leaves the flow's message untouched, sets HTTP/1.1, inserts Host from authority only when "
    "missing, joins Cookie headers with '; ' and emits exactly one head; inbound header validation follows the option; HTTP/1 header blocks are normalised for HTTP/2; "
    "on a bounded domain (76 cells: version x framing header x end_stream x buffered/streamed x RequestData sequences) the bytes Http1Client.send writes for one request "
    "are exactly one correctly framed HTTP/1 message (known exception: F-C06s, a streamed body without content-length).",
    "note": "hyper-h2 / aioquic header validation, http1.assemble_* (R06.2/R06.4; interpreted in R06.5), Message.copy() and the model of http.Headers are trusted; R06.5 is a bounded "
    "interpretation judged by this module's own RFC 9112 reference reader, not a proof over all bodies / chunkings; the response direction's framing is not decided.",
}

H1 = "mitmproxy/proxy/layers/http/_http1.py"
H2 = "mitmproxy/proxy/layers/http/_http2.py"
H3 = "mitmproxy/proxy/layers/http/_http3.py"
HTTP = "mitmproxy/http.py"
HTTP1_PKG = ("mitmproxy/net/http/http1/__init__.py", "mitmproxy/net/http/http1/assemble.py")


# ---------------------------------------------------------------------------------------------------
# trusted models (plain Python; they stand in for library / data-structure code that is not the subject of C06)


def _ab(x):
    """mitmproxy's always_bytes(x, 'utf-8', 'surrogateescape') as http.Headers applies it to names and values."""
    if isinstance(x, str):
        return x.encode("utf-8", "surrogateescape")
    if isinstance(x, (bytes, bytearray)):
        return bytes(x)
    raise TypeError(f"header names and values must be str or bytes, not {type(x).__name__}")


def _nat(x):
    return x.decode("utf-8", "surrogateescape") if isinstance(x, bytes) else x


class _Headers:
    """Model of mitmproxy.http.Headers (coretypes.multidict.MultiDict with case-insensitive keys): ``fields`` is a tuple of
    (bytes, bytes); str keys / values are encoded; reads fold with ', ' and return str; set_all replaces in place."""

    def __init__(self, fields=(), **headers):
        self.fields = tuple(tuple(i) for i in fields)
        for k, v in self.fields:
            if not isinstance(k, bytes) or not isinstance(v, bytes):
                raise TypeError("Header fields must be bytes.")
        for name, value in headers.items():
            self[_ab(name).replace(b"_", b"-")] = _ab(value)

    def _find(self, key):
        k = _ab(key).lower()
        return [v for n, v in self.fields if n.lower() == k]

    def __contains__(self, key):
        return bool(self._find(key))

    def __getitem__(self, key):
        vals = self.get_all(key)
        if not vals:
            raise KeyError(key)
        return ", ".join(vals)

    def __setitem__(self, key, value):
        self.set_all(key, [value])

    def __delitem__(self, key):
        if key not in self:
            raise KeyError(key)
        k = _ab(key).lower()
        self.fields = tuple(f for f in self.fields if f[0].lower() != k)

    def __iter__(self):
        seen = set()
        for n, _ in self.fields:
            if n.lower() not in seen:
                seen.add(n.lower())
                yield _nat(n)

    def __len__(self):
        return len({n.lower() for n, _ in self.fields})

    def __eq__(self, other):
        return isinstance(other, _Headers) and self.fields == other.fields

    __hash__ = None

    def __bytes__(self):
        return (b"\r\n".join(b": ".join(f) for f in self.fields) + b"\r\n") if self.fields else b""

    def __repr__(self):
        return f"Headers{list(self.fields)!r}"

    def get(self, key, default=None):
        try:
            return self[key]
        except KeyError:
            return default

    def get_all(self, name):
        return [_nat(v) for v in self._find(name)]

    def set_all(self, name, values):
        name = _ab(name)
        values = [_ab(x) for x in values]
        out = []
        for f in self.fields:
            if f[0].lower() == name.lower():
                if values:
                    out.append((f[0], values.pop(0)))
            else:
                out.append(f)
        while values:
            out.append((name, values.pop(0)))
        self.fields = tuple(out)

    def add(self, key, value):
        self.insert(len(self.fields), key, value)

    def insert(self, index, key, value):
        self.fields = self.fields[:index] + ((_ab(key), _ab(value)),) + self.fields[index:]

    def pop(self, key, *default):
        try:
            v = self[key]
        except KeyError:
            if default:
                return default[0]
            raise
        del self[key]
        return v

    def setdefault(self, key, default=None):
        if key in self:
            return self[key]
        self[key] = default
        return default

    def update(self, other=(), **kw):
        for k, v in list(other.items()) if hasattr(other, "items") else list(other):
            self[k] = v
        for k, v in kw.items():
            self[k] = v

    def clear(self):
        self.fields = ()

    def keys(self, multi=False):
        return [k for k, _ in self.items(multi)]

    def values(self, multi=False):
        return [v for _, v in self.items(multi)]

    def items(self, multi=False):
        if multi:
            return [(_nat(k), _nat(v)) for k, v in self.fields]
        return [(k, self[k]) for k in self]

    def copy(self):
        return _Headers(self.fields)


_Flags = namedtuple("HeaderValidationFlags", "is_client is_trailer is_response_header is_push_promise")
_CONNECTION_HEADERS = frozenset([b"connection", b"proxy-connection", b"keep-alive", b"transfer-encoding", b"upgrade"])


def _h2_normalised(fields):
    """What h2.utilities.normalize_outbound_headers does to a header block, as far as C06 is concerned: names lower-cased,
    connection-specific fields dropped, values and order kept."""
    return [(n.lower(), v) for n, v in fields if n.lower() not in _CONNECTION_HEADERS]


class _H2:
    """Summary of the parts of hyper-h2 the converters call; records what the normaliser was asked to do."""

    def __init__(self):
        self.normalized = []  # [(input fields, flags)]

        def normalize_outbound_headers(headers, hdr_validation_flags=None, *a, **k):
            hs = tuple(tuple(h) for h in headers)
            self.normalized.append((hs, hdr_validation_flags))
            return iter(_h2_normalised(hs))  # an iterator, like the library (callers must materialise it)

        self.utilities = SimpleNamespace(normalize_outbound_headers=normalize_outbound_headers, HeaderValidationFlags=_Flags)


class _Done:
    """A finished call of a repository generator function: the values it yielded and its return value."""

    def __init__(self, yields, value):
        self.yields, self.value = yields, value


class _Head:
    """Result of the (trusted) http1.assemble_*_head: which message object it was given and that message's state at that moment."""

    def __init__(self, msg):
        self.msg, self.state = msg, _state(msg)


class _Sem(SeqPatterns, Interp):
    """pyint with (a) generator calls executed eagerly - side effects on shared lists / messages are kept, ``x = yield from g()``
    gets g's return value; commands are collected, ``yield`` evaluates to None -, (b) item writes and iteration on the Headers
    model, (c) pyint's null ``logging`` (module and logger objects: every logging call is a no-op)."""

    def __init__(self, model, lib=None):
        super().__init__(model, trusted_modules={"h2": lib or _H2(), "logging": NullLog(), "time": _time, "re": _re, "urllib": _urllib, "ipaddress": _ipaddress})
        self._collect: list[list] = []
        for rel in (HTTP, H1, H2, H3):
            self.overrides[(rel, "Headers")] = _Headers
        for rel in (H1,) + HTTP1_PKG:
            self.overrides[(rel, "assemble_request_head")] = _Head
            self.overrides[(rel, "assemble_response_head")] = _Head

    def call_func(self, f, args, kwargs, depth):
        res = super().call_func(f, args, kwargs, depth)
        if not isinstance(res, Gen):
            return res
        frame: list = []
        self._collect.append(frame)
        try:
            try:
                self.block(res.node.body, res.env, res.f.mod, res.depth)
                value = None
            except _Return as r:
                value = r.value
        finally:
            self._collect.pop()
        return _Done(frame, value)

    def do_yield(self, value):
        if not self._collect:
            raise AnalysisError("C06: yield outside a generator call")
        self._collect[-1].append(value)
        return None

    def ev(self, e, env, mod, depth):
        if isinstance(e, ast.YieldFrom):
            v = self.ev(e.value, env, mod, depth)
            for x in self.iterate(v, e.value):
                self.do_yield(x)
            return v.value if isinstance(v, _Done) else None
        return super().ev(e, env, mod, depth)

    def iterate(self, v, node):
        if isinstance(v, _Done):
            return list(v.yields)
        if isinstance(v, _Headers):
            return list(v)
        return super().iterate(v, node)

    def truthy(self, v):
        if isinstance(v, (_Done, _Head)):
            return True
        return super().truthy(v)

    def assign(self, target, value, env, mod, depth):
        if isinstance(target, ast.Subscript):
            base = self.ev(target.value, env, mod, depth)
            if isinstance(base, _Headers):
                key = self.ev(target.slice, env, mod, depth)
                try:
                    base[key] = value
                except (TypeError, KeyError) as ex:
                    raise Raised(type(ex).__name__)
                return
        super().assign(target, value, env, mod, depth)

    def native_call(self, f, args, kwargs, where):
        if f is _Head or getattr(f, "_abstract_ok", False):
            return f(*args, **kwargs)
        return super().native_call(f, args, kwargs, where)


# ---------------------------------------------------------------------------------------------------
# the abstract message domain

METHOD, SCHEME, PATH, AUTHORITY, HOSTV = b"POST", b"https", b"/p/a;x?q=1", b"auth.example:8443", b"host.example"
H1_VERSIONS = (b"HTTP/1.1", b"HTTP/1.0")
MUX_VERSIONS = (b"HTTP/2.0", b"HTTP/3")
STATUS = 404


def _data_of(msg):
    return {k: v for k, v in vars(msg.data).items() if not k.startswith("_")}


def _state(msg):
    """Comparable snapshot of a message: its data fields (headers / trailers as field tuples)."""
    return tuple(sorted((k, ("Headers", v.fields) if isinstance(v, _Headers) else v) for k, v in _data_of(msg).items()))


def _message(world, kind, tag, data):
    """A message record bound to the repository's http.Request / http.Response (their properties are interpreted from the
    source); ``copy()`` is the trusted deep copy of Message and registers the copy in ``world``."""
    d = Rec(kind + "Data", _bases=("MessageData",), _name=tag + ".data", **data)
    msg = Rec(kind, _bases=("Message",), _impl=(HTTP, kind), _name=tag, data=d)

    def copy():
        dd = _data_of(msg)
        for k, v in dd.items():
            if isinstance(v, _Headers):
                dd[k] = v.copy()
        return _message(world, kind, f"copy#{len(world)} of {tag}", dd)

    copy._abstract_ok = True
    object.__setattr__(msg, "copy", copy)
    world.append(msg)
    return msg


def _request(world, version, authority, fields):
    return _message(world, "Request", "event.request", dict(host="h.example", port=8443, method=METHOD, scheme=SCHEME, authority=authority, path=PATH, http_version=version,
                                                              headers=_Headers(fields), content=None, trailers=None, timestamp_start=1.0, timestamp_end=None))


def _response(world, version, fields):
    return _message(world, "Response", "event.response", dict(http_version=version, status_code=STATUS, reason=b"" if version in MUX_VERSIONS else b"Not Found", headers=_Headers(fields),
                                                                content=None, trailers=None, timestamp_start=1.0, timestamp_end=None))


def _context(normalize=False):
    return Rec("Context", options=Rec("Options", normalize_outbound_headers=normalize, validate_inbound_headers=True, http2=True, http3=True))


def _fmt(fields):
    return "[" + ", ".join(f"{_nat(_ab(n))}: {_nat(_ab(v))}" if isinstance(n, (str, bytes)) and isinstance(v, (str, bytes)) else repr((n, v)) for n, v in fields) + "]"


def _header_block(value):
    """The header list a formatter returned, or None when it is not a list of (name, value) pairs."""
    if isinstance(value, _Done):
        value = value.value
    if not isinstance(value, (list, tuple)):
        return None
    out = []
    for item in value:
        if not (isinstance(item, (tuple, list)) and len(item) == 2 and all(isinstance(x, (str, bytes)) for x in item)):
            return None
        out.append((_ab(item[0]), _ab(item[1])))
    return out


def _ci(fields):
    return [(n.lower(), v) for n, v in fields]


# ---------------------------------------------------------------------------------------------------
# R06.1 / R06.3 format side


def _format_request(ctx):
    fn = ctx.func(H2, "format_h2_request_headers")
    ctx.require(len(params_of(fn)) == 2, "format_h2_request_headers signature changed")
    w = (H2, "format_h2_request_headers", fn)
    rows = ok_rows = 0
    failed = set()
    for version in H1_VERSIONS[:1] + MUX_VERSIONS:
        h1 = version in H1_VERSIONS
        for auth in (AUTHORITY, b""):
            for hostin in (True, False):
                for opt in (False, True):
                    fields = ([(b"Host", HOSTV)] if hostin else []) + [(b"X-Custom", b"V1"), (b"cookie", b"a=1"), (b"Cookie", b"b=2")] + ([(b"Connection", b"keep-alive")] if h1 else [])
                    lib, world = _H2(), []
                    it = _Sem(ctx.model, lib)
                    req = _request(world, version, auth, fields)
                    before = _state(req)
                    ev = Rec("RequestHeaders", _bases=("HttpEvent", "Event"), stream_id=1, request=req, end_stream=False, replay_flow=None)
                    rows += 1
                    ctx.cells += 1
                    cons = f"{version.decode()} authority_set={bool(auth)} host_header={hostin} normalize_outbound_headers={opt}"

                    def fail(rule, why):
                        failed.add(rule)
                        ctx.fail(rule, w, cons, why)

                    try:
                        block = _header_block(it.call(H2, "format_h2_request_headers", _context(opt), ev))
                    except Raised as r:
                        fail("R06.1", f"formatting this request raises {r.name}")
                        continue
                    if block is None:
                        fail("R06.1", "the formatter does not return a list of (name, value) header fields")
                        continue
                    k = 0
                    while k < len(block) and block[k][0].startswith(b":"):
                        k += 1
                    allpseudo = [f for f in block if f[0].startswith(b":")]
                    regular = [f for f in block if not f[0].startswith(b":")]
                    from_host = [f for f in allpseudo if f == (b":authority", HOSTV)]
                    base = sorted(f for f in allpseudo if f != (b":authority", HOSTV))
                    want = sorted([(b":method", METHOD), (b":scheme", SCHEME), (b":path", PATH)] + ([(b":authority", auth)] if auth else []))
                    moved = h1 and not auth and hostin
                    if base != want:
                        fail("R06.1", f"pseudo-headers must be exactly {_fmt(want)} (each once, taken from the same-named request.data field), saw {_fmt(allpseudo)}")
                    elif len(allpseudo) != k:
                        fail("R06.1", f"pseudo-headers must come first in the emitted header block, saw {_fmt(block)}")
                    elif len(from_host) != (1 if moved else 0):
                        fail("R06.3", "for an HTTP/1 request without authority the Host header must become :authority (exactly once)" if moved else
                             f"the Host header may only be moved into :authority for an HTTP/1 request whose authority is empty, saw {_fmt(allpseudo)}")
                    elif _state(req) != before:
                        fail("R06.3", f"formatting must not modify the flow's request (Host has to be popped from a COPY of the headers); its headers are now {_fmt(req.data.headers.fields)}")
                    else:
                        src = [f for f in fields if not (moved and f[0].lower() == b"host")]
                        if h1:
                            calls = lib.normalized
                            flags = calls[0][1] if calls else None
                            if len(calls) != 1 or not (isinstance(flags, _Flags) and flags.is_client is True and flags.is_response_header is False):
                                fail("R06.3", f"an HTTP/1 header block must go through hyper-h2's normalize_outbound_headers exactly once with client / request flags before it is sent as HTTP/2; saw {len(calls)} call(s), flags {flags}")
                            elif _h2_normalised(f for f in calls[0][0] if not f[0].startswith(b":")) != _h2_normalised(src):
                                fail("R06.3", f"the header block given to the normaliser must be the request's fields {_fmt(src)}, saw {_fmt(calls[0][0])}")
                            elif regular != _h2_normalised(src):
                                fail("R06.3", f"the normalised header block must be what is emitted: expected {_fmt(_h2_normalised(src))}, saw {_fmt(regular)}")
                            else:
                                ok_rows += 1
                        elif lib.normalized:
                            fail("R06.3", "an HTTP/2 / HTTP/3 header block must not be passed through the HTTP/1 normalisation")
                        elif _ci(regular) != _ci(src):
                            fail("R06.1", f"the request's header fields must be emitted complete and in order: expected {_fmt(src)}, saw {_fmt(regular)}")
                        else:
                            ok_rows += 1
    if "R06.1" not in failed:
        ctx.ok("R06.1", f"format_h2_request_headers: {ok_rows}/{rows} scenario rows emit exactly the expected pseudo-headers, pseudo-headers first, fields complete")
    if "R06.3" not in failed:
        ctx.ok("R06.3", f"format_h2_request_headers: Host -> :authority only for HTTP/1 without authority (flow's headers untouched); HTTP/1 blocks normalised ({ok_rows}/{rows} rows)")


def _format_response(ctx):
    fn = ctx.func(H2, "format_h2_response_headers")
    ctx.require(len(params_of(fn)) == 2, "format_h2_response_headers signature changed")
    w = (H2, "format_h2_response_headers", fn)
    rows = 0
    failed = set()
    for version in H1_VERSIONS[:1] + MUX_VERSIONS:
        h1 = version in H1_VERSIONS
        for opt in (False, True):
            fields = [(b"Content-Type", b"text/x"), (b"X-Resp", b"1"), (b"Set-Cookie", b"a=1"), (b"set-cookie", b"b=2")] + ([(b"Connection", b"close")] if h1 else [])
            lib, world = _H2(), []
            it = _Sem(ctx.model, lib)
            resp = _response(world, version, fields)
            before = _state(resp)
            ev = Rec("ResponseHeaders", _bases=("HttpEvent", "Event"), stream_id=1, response=resp, end_stream=False)
            rows += 1
            ctx.cells += 1
            cons = f"{version.decode()} normalize_outbound_headers={opt}"

            def fail(rule, why):
                failed.add(rule)
                ctx.fail(rule, w, cons, why)

            try:
                block = _header_block(it.call(H2, "format_h2_response_headers", _context(opt), ev))
            except Raised as r:
                fail("R06.1", f"formatting this response raises {r.name}")
                continue
            if block is None:
                fail("R06.1", "the formatter does not return a list of (name, value) header fields")
                continue
            pseudo = [f for f in block if f[0].startswith(b":")]
            regular = [f for f in block if not f[0].startswith(b":")]
            if not block or block[0] != (b":status", b"%d" % STATUS):
                fail("R06.1", f":status must be the first emitted field and carry the decimal response.status_code, saw {_fmt(block[:2])}")
            elif len(pseudo) != 1:
                fail("R06.1", f"more than one pseudo-header is emitted for a response: {_fmt(pseudo)}")
            elif _state(resp) != before:
                fail("R06.3", "formatting must not modify the flow's response")
            elif h1:
                calls = lib.normalized
                flags = calls[0][1] if calls else None
                if len(calls) != 1 or not (isinstance(flags, _Flags) and flags.is_client is False and flags.is_response_header is True):
                    fail("R06.3", f"an HTTP/1 response header block must go through hyper-h2's normalize_outbound_headers exactly once with server / response flags before it is sent as HTTP/2; saw {len(calls)} call(s), flags {flags}")
                elif _h2_normalised(f for f in calls[0][0] if not f[0].startswith(b":")) != _h2_normalised(fields):
                    fail("R06.3", f"the header block given to the normaliser must be the response's fields {_fmt(fields)}, saw {_fmt(calls[0][0])}")
                elif regular != _h2_normalised(fields):
                    fail("R06.3", f"the normalised header block must be what is emitted: expected {_fmt(_h2_normalised(fields))}, saw {_fmt(regular)}")
            elif lib.normalized:
                fail("R06.3", "an HTTP/2 / HTTP/3 header block must not be passed through the HTTP/1 normalisation")
            elif _ci(regular) != _ci(fields):
                fail("R06.1", f"the response's header fields must follow :status unchanged and complete: expected {_fmt(fields)}, saw {_fmt(regular)}")
    if "R06.1" not in failed:
        ctx.ok("R06.1", f"format_h2_response_headers: {rows} rows: [:status <- status_code, *response.headers.fields], exactly one pseudo-header")
    if "R06.3" not in failed:
        ctx.ok("R06.3", f"format_h2_response_headers: HTTP/1 blocks go through normalize_outbound_headers(server flags), h2/h3 blocks do not ({rows} rows)")


# ---------------------------------------------------------------------------------------------------
# R06.1 parse side + call sites

REGULAR = [(b"x-h", b"1"), (b"cookie", b"a=1"), (b"cookie", b"b=2"), (b"accept", b"*/*")]
REQ_PSEUDO = [(b":method", METHOD), (b":scheme", SCHEME), (b":path", PATH), (b":authority", AUTHORITY)]
REQ_FIELD = {b":method": "method", b":scheme": "scheme", b":path": "path", b":authority": "authority"}


def _run_parser(ctx, qual, block):
    it = _Sem(ctx.model)
    try:
        return "ok", it.call(H2, qual, list(block))
    except Raised as r:
        return "raise", r.name


def _roles(result, sentinels):
    """position -> what it carries, for the tuple a parser returned: a pseudo-header name, 'headers' or None."""
    if not isinstance(result, (tuple, list)):
        return None
    out = []
    for v in result:
        role = None
        if isinstance(v, _Headers):
            role = "headers" if list(v.fields) == REGULAR else "headers?"
        else:
            for name, val in sentinels:
                if type(v) is type(val) and v == val:
                    role = name
        out.append(role)
    return out


def _parse_side(ctx):
    for qual, pseudo, required, what in (("parse_h2_request_headers", REQ_PSEUDO, (b":method", b":scheme", b":path"), "request"),
                                         ("parse_h2_response_headers", [(b":status", b"%d" % STATUS)], (b":status",), "response")):
        fn = ctx.func(H2, qual)
        ctx.func(H2, "split_pseudo_headers")
        w = (H2, qual, fn)
        sentinels = pseudo if what == "request" else [(b":status", STATUS)]
        # well-formed blocks (two orders of the pseudo-headers)
        roles = None
        good = True
        for order in (pseudo, list(reversed(pseudo))):
            how, res = _run_parser(ctx, qual, order + REGULAR)
            ctx.cells += 1
            r = _roles(res, sentinels) if how == "ok" else None
            if r is None or sorted((x for x in r if x), key=repr) != sorted([n for n, _ in pseudo] + ["headers"], key=repr) or (roles is not None and r != roles):
                good = False
                ctx.fail("R06.1", w, "popped pseudo-headers", f"a well-formed {what} header block {_fmt(order + REGULAR)} must be parsed into each of {[n.decode() for n, _ in pseudo]} exactly once plus the "
                         f"regular fields complete and in order; saw {('raises ' + res) if how == 'raise' else r}")
                break
            roles = r
        if not good:
            continue
        ctx.ok("R06.1", f"{qual} takes {' '.join(n.decode() for n, _ in pseudo)} out of the block and returns the regular fields complete")
        # required / optional
        bad = []
        for name, _ in pseudo:
            how, res = _run_parser(ctx, qual, [f for f in pseudo if f[0] != name] + REGULAR)
            ctx.cells += 1
            if name in required:
                if (how, res) != ("raise", "ValueError"):
                    bad.append(f"without {name.decode()}: {'accepted' if how == 'ok' else 'raises ' + res} (must raise ValueError)")
            else:
                got = res[roles.index(name)] if how == "ok" and isinstance(res, (tuple, list)) and len(res) == len(roles) else None
                if how != "ok" or got != b"":
                    bad.append(f"without {name.decode()}: {'raises ' + str(res) if how != 'ok' else 'yields ' + repr(got)} (must be accepted with the value b\"\")")
        ctx.check(not bad, "R06.1", w, "required / optional pseudo-headers", f"{', '.join(n.decode() for n in required)} must be required" + (" and :authority optional with default b\"\"" if what == "request" else "") + ": " + "; ".join(bad),
                  desc=f"{qual}: {'/'.join(n.decode() for n in required)} required" + (", :authority optional (b\"\")" if what == "request" else ""))
        # leftovers
        how, res = _run_parser(ctx, qual, pseudo + [(b":unknown", b"x")] + REGULAR)
        ctx.cells += 1
        ctx.check((how, res) == ("raise", "ValueError"), "R06.1", w, "unknown pseudo-headers rejected",
                  f"a {what} header block with additional pseudo-headers is {'accepted and the extra fields silently dropped' if how == 'ok' else 'answered with ' + str(res) + ' instead of ValueError'}",
                  desc=f"{qual}: leftover pseudo-headers -> ValueError")
        # duplicates
        bad = []
        for name, val in pseudo:
            for dup in (val, b"other"):
                for at_end in (True, False):
                    block = (pseudo + [(name, dup)]) if at_end else ([(name, dup)] + pseudo)
                    how, res = _run_parser(ctx, qual, block + REGULAR)
                    ctx.cells += 1
                    if (how, res) != ("raise", "ValueError"):
                        bad.append(f"{_fmt(block)}: {'accepted' if how == 'ok' else 'raises ' + str(res)}")
        ctx.check(not bad, "R06.1", w, "duplicate pseudo-header",
                  "a repeated pseudo-header (e.g. two :path) is accepted - the HTTP/1 request built from it differs from what the HTTP/2 peer and other parsers see: " + "; ".join(bad[:2]),
                  desc=f"{qual}: duplicate pseudo-header -> ValueError")
        if what == "request":
            for rel, cq, ver in ((H2, "Http2Server.handle_h2_event", b"HTTP/2.0"), (H3, "Http3Server.parse_headers", b"HTTP/3")):
                _call_site(ctx, rel, cq, fn, roles, "Request", {f: k for k, f in REQ_FIELD.items()}, ver)
        else:
            for rel, cq, ver in ((H2, "Http2Client.handle_h2_event", b"HTTP/2.0"), (H3, "Http3Client.parse_headers", b"HTTP/3")):
                _call_site(ctx, rel, cq, fn, roles, "Response", {"status_code": b":status"}, ver)


class _Flow:
    """Def-use view of one function: where does the value of an expression come from?  The definition that reaches a use is the
    textually last binding of the name before the use that is not in an alternative branch (other if/elif/else arm, other match
    case, an except handler); it is followed only when it is executed whenever the use is (its branch path is a prefix of the
    use's path; try bodies and with blocks are transparent) - anything else is 'unknown'."""

    def __init__(self, model, mod, fn, parser):
        self.model, self.mod, self.fn, self.parser = model, mod, fn, parser
        self.binds: dict[str, list] = {}  # name -> [(kind, value, index, statement)]
        self._scan(fn)

    def _bind(self, target, value, stmt):
        if isinstance(target, ast.Name):
            self.binds.setdefault(target.id, []).append(("whole", value, None, stmt))
        elif isinstance(target, (ast.Tuple, ast.List)):
            for i, e in enumerate(target.elts):
                if isinstance(e, ast.Name) and not any(isinstance(x, ast.Starred) for x in target.elts):
                    self.binds.setdefault(e.id, []).append(("elt", value, i, stmt))
                else:
                    self._opaque(e, stmt)

    def _opaque(self, target, stmt):
        for n in ast.walk(target):
            if isinstance(n, ast.Name):
                self.binds.setdefault(n.id, []).append(("opaque", None, None, stmt))

    def _scan(self, node):
        for ch in ast.iter_child_nodes(node):
            if isinstance(ch, (ast.FunctionDef, ast.AsyncFunctionDef, ast.Lambda, ast.ClassDef)):
                continue
            if isinstance(ch, ast.Assign):
                for t in ch.targets:
                    self._bind(t, ch.value, ch)
            elif isinstance(ch, ast.AnnAssign) and ch.value is not None:
                self._bind(ch.target, ch.value, ch)
            elif isinstance(ch, ast.NamedExpr):
                self._bind(ch.target, ch.value, ch)
            elif isinstance(ch, ast.AugAssign):
                self._opaque(ch.target, ch)
            elif isinstance(ch, (ast.For, ast.AsyncFor, ast.comprehension)):
                self._opaque(ch.target, ch.target)
            elif isinstance(ch, (ast.With, ast.AsyncWith)):
                for it in ch.items:
                    if it.optional_vars is not None:
                        self._opaque(it.optional_vars, it.optional_vars)
            elif isinstance(ch, ast.ExceptHandler) and ch.name:
                self.binds.setdefault(ch.name, []).append(("opaque", None, None, ch))
            elif isinstance(ch, (ast.MatchAs, ast.MatchStar)) and ch.name:
                self.binds.setdefault(ch.name, []).append(("opaque", None, None, ch))
            self._scan(ch)

    def _path(self, node):
        """[(compound statement, arm)] from the function down to ``node``: the branches that must be taken to get there."""
        out = []
        child, p = node, getattr(node, "_parent", None)
        while p is not None and child is not self.fn:
            arm = None
            if isinstance(p, ast.If):
                arm = "body" if any(child is x for x in p.body) else "orelse" if any(child is x for x in p.orelse) else None
            elif isinstance(p, (ast.For, ast.AsyncFor, ast.While)):
                arm = "body" if any(child is x for x in p.body) else "orelse" if any(child is x for x in p.orelse) else None
            elif isinstance(p, ast.ExceptHandler):
                arm = "handler"
                out.append((id(p), arm))
                arm = None
            elif isinstance(p, ast.match_case):
                out.append((id(getattr(p, "_parent", p)), f"case{id(p)}"))
            elif isinstance(p, ast.IfExp):
                arm = "body" if child is p.body else "orelse" if child is p.orelse else None
            if arm is not None:
                out.append((id(p), arm))
            child, p = p, getattr(p, "_parent", None)
        return out[::-1]

    def reaching(self, name_node):
        """The binding of a name that reaches this use, or None when that cannot be told."""
        bs = self.binds.get(name_node.id, [])
        if not bs:
            return None
        upath = self._path(name_node)
        udict = dict(upath)
        upos = (name_node.lineno, name_node.col_offset)
        cands = []
        for b in bs:
            st = b[3]
            bpath = self._path(st)
            if any(c in udict and udict[c] != arm for c, arm in bpath):
                continue  # in an alternative branch
            end = (getattr(st, "end_lineno", st.lineno), getattr(st, "end_col_offset", 0))
            if end > upos:
                loops = {id(x) for x in self._ancestors(name_node) if isinstance(x, (ast.For, ast.AsyncFor, ast.While))}
                if any(id(x) in loops for x in self._ancestors(st)):
                    return None  # a later binding in the same loop reaches the use on the next iteration
                continue
            cands.append((end, b, bpath))
        if not cands:
            return None
        end, b, bpath = max(cands, key=lambda c: c[0])
        if bpath != upath[: len(bpath)]:
            return None  # conditional binding: does not dominate the use
        return b

    def _ancestors(self, node):
        p = getattr(node, "_parent", None)
        while p is not None and p is not self.fn:
            yield p
            p = getattr(p, "_parent", None)

    def is_parser_call(self, e):
        if not isinstance(e, ast.Call):
            return False
        r = self.model.resolve_name(self.mod, e.func)
        return (r is not None and r[1] is self.parser) or (r is None and last_attr(e.func) == self.parser.name)

    def origin(self, e, depth=0):
        """('result', None) the parser's whole result | ('result', i) its i-th element | None."""
        if depth > 8:
            return None
        if isinstance(e, (ast.Await, ast.YieldFrom)):
            e = e.value
        if self.is_parser_call(e):
            return ("result", None)
        if isinstance(e, ast.Name):
            b = self.reaching(e)
            if b is None or b[0] == "opaque":
                return None
            o = self.origin(b[1], depth + 1)
            if b[0] == "whole":
                return o
            return ("result", b[2]) if o == ("result", None) else None
        if isinstance(e, ast.Subscript) and isinstance(e.slice, ast.Constant) and isinstance(e.slice.value, int) and e.slice.value >= 0:
            return ("result", e.slice.value) if self.origin(e.value, depth + 1) == ("result", None) else None
        return None

    def const(self, e, depth=0):
        """Constant value of an expression through local temporaries and module constants, else AnalysisError."""
        if isinstance(e, ast.Constant):
            return e.value
        if isinstance(e, ast.Name) and depth < 8:
            if e.id in self.binds:
                b = self.reaching(e)
                if b is not None and b[0] == "whole":
                    return self.const(b[1], depth + 1)
            else:
                vals = self.mod.assigns(e.id)
                if len(vals) == 1:
                    return self.const(vals[0], depth + 1)
        raise AnalysisError(f"{self.fn.name}: value of {norm(e)} is not a constant the rule can follow")


class _H2Event:
    """An event object of hyper-h2 (h2.events.RequestReceived / ResponseReceived) as far as the call sites read it."""

    def __init__(self, **kw):
        self.__dict__.update(kw)


class _RequestReceived(_H2Event):
    pass


class _ResponseReceived(_H2Event):
    pass


_SITE_SENTINELS = (
    {b":method": METHOD, b":scheme": SCHEME, b":path": PATH, b":authority": AUTHORITY, b":status": STATUS},
    {b":method": b"PATCH", b":scheme": b"http", b":path": b"/other?x=2", b":authority": b"second.example:81", b":status": 418},
)


def _site_message(ctx, rel, qual, ctor, sent):
    """The http.Request / http.Response the call site ``rel::qual`` builds from a well-formed header block carrying the sentinel
    pseudo-header values ``sent``, found by *interpreting* the call site (helper calls, temporaries, unpacking order and the way the
    constructor is reached do not matter) - or None when the call site cannot be interpreted in the modelled set-up."""
    cls_name, meth = qual.rsplit(".", 1)
    names = (b":method", b":scheme", b":path", b":authority") if ctor == "Request" else (b":status",)
    block = [(n, sent[n] if isinstance(sent[n], bytes) else b"%d" % sent[n]) for n in names] + list(REGULAR)
    lib = _H2()
    lib.events = SimpleNamespace(RequestReceived=_RequestReceived, ResponseReceived=_ResponseReceived)
    it = _Sem(ctx.model, lib)
    try:
        mod = ctx.model.module(rel)
        streams = {}
        if rel == H2 and ctor == "Response":  # a response is only accepted on a stream whose request headers were sent
            streams[1] = it.getattr(it.name("StreamState", {}, mod, 0, None), "EXPECTING_HEADERS", None, 0)
        me = Rec(cls_name, _bases=tuple(c.name for _, c in ctx.model.mro(rel, cls_name)[1:]), _impl=(rel, cls_name), context=_context(), conn=Rec("Connection", state=3),
                 streams=streams, our_stream_id={}, their_stream_id={})
        if rel == H2:
            event = (_RequestReceived if ctor == "Request" else _ResponseReceived)(stream_id=1, headers=block, stream_ended=None, priority_updated=None)
        else:
            event = Rec("HeadersReceived", _bases=("H3Event",), stream_id=1, headers=block, stream_ended=False, push_id=None)
        res = it.method(me, meth, event)
    except (AnalysisError, Raised, RecursionError):
        return None
    found = []

    def walk(v, depth):
        if isinstance(v, Rec):
            if v.isa(ctor) and isinstance(getattr(v, "data", None), Rec):
                found.append(v)
            elif depth < 6:
                for k, x in vars(v).items():
                    if not k.startswith("_"):
                        walk(x, depth + 1)
        elif isinstance(v, (list, tuple)) and depth < 6:
            for x in v:
                walk(x, depth + 1)

    walk([res.yields, res.value] if isinstance(res, _Done) else res, 0)
    return found[0] if len(found) == 1 else None


def _call_site(ctx, rel, qual, parser, roles, ctor, want, version):
    fn = ctx.func(rel, qual)
    mod = ctx.model.module(rel)
    w = (rel, qual, fn)
    # decided by interpretation where the call site can be interpreted (twice, with different sentinel values) ...
    msgs = [(sent, _site_message(ctx, rel, qual, ctor, sent)) for sent in _SITE_SENTINELS]
    if all(m is not None for _, m in msgs):
        ctx.cells += len(msgs)
        for field, pseudo in want.items():
            got = [getattr(m.data, field, None) for _, m in msgs]
            ctx.check(all(type(g) is type(sent[pseudo]) and g == sent[pseudo] for g, (sent, _) in zip(got, msgs)), "R06.1", w, f"http.{ctor}({field}=...) origin",
                      f"http.{ctor}'s `{field}` must be the value of the {pseudo.decode()} pseudo-header, but a header block with {pseudo.decode()}: {msgs[0][0][pseudo]!r} yields {field} = {got[0]!r}",
                      desc=f"{qual}: {ctor}.{field} <- {pseudo.decode()}")
        hv = [getattr(m.data, "http_version", None) for _, m in msgs]
        ctx.check(all(v in (version, version.decode()) for v in hv), "R06.1", w, f"http.{ctor}(http_version=...)", f"a message received over {version.decode()} must be recorded with that version (the down-conversion to HTTP/1 keys on it), saw {hv[0]!r}",
                  desc=f"{qual}: {ctor}.http_version = {version.decode()}")
        hd = [getattr(m.data, "headers", None) for _, m in msgs]
        ctx.check(all(isinstance(h, _Headers) and list(h.fields) == REGULAR for h in hd), "R06.1", w, f"http.{ctor}(headers=...)", "the regular header fields returned by the parser must become the message's headers",
                  desc=f"{qual}: {ctor}.headers <- parsed regular headers")
        return
    # ... else by def-use from the parser's result to the constructor call inside the anchor function
    ctx.note(f"{qual}: call site not interpretable in the modelled set-up, decided by def-use")
    flow = _Flow(ctx.model, mod, fn, parser)
    ctx.require(sum(1 for n in ast.walk(fn) if flow.is_parser_call(n)) == 1, f"{qual}: expected exactly one call of {parser.name}")
    ctors = []
    for n in ast.walk(fn):
        if isinstance(n, ast.Call) and last_attr(n.func) == ctor:
            r = ctx.model.resolve_name(mod, n.func)
            if r is not None and r[0].rel == HTTP and isinstance(r[1], ast.ClassDef):
                ctors.append(n)
    ctx.require(len(ctors) == 1, f"{qual}: expected exactly one http.{ctor}(...) call, found {len(ctors)}")
    init = ctx.model.method(HTTP, ctor, "__init__")
    ctx.require(init is not None, f"http.{ctor}.__init__ vanished")
    pnames = [a.arg for a in init[1].args.posonlyargs + init[1].args.args][1:]
    ctx.require(not any(isinstance(a, ast.Starred) for a in ctors[0].args) and all(k.arg for k in ctors[0].keywords) and len(ctors[0].args) <= len(pnames),
                f"{qual}: http.{ctor}(...) is called with * / ** arguments (shape not modelled)")
    kw = dict(zip(pnames, ctors[0].args))
    kw.update({k.arg: k.value for k in ctors[0].keywords})

    def role_of(v):
        o = flow.origin(v) if v is not None else None
        if o is None or o[1] is None or o[1] >= len(roles):
            return None
        return roles[o[1]]

    for field, pseudo in want.items():
        v = kw.get(field)
        got = role_of(v)
        ctx.check(got == pseudo, "R06.1", w, f"http.{ctor}({field}=...) origin", f"http.{ctor}'s `{field}` must be the value of the {pseudo.decode()} pseudo-header, but it is {norm(v) if v is not None else 'missing'} "
                  f"(origin {got!r})", desc=f"{qual}: {ctor}.{field} <- {pseudo.decode()}")
    hv = kw.get("http_version")
    ctx.check(hv is not None and flow.const(hv) in (version, version.decode()), "R06.1", w, f"http.{ctor}(http_version=...)", f"a message received over {version.decode()} must be recorded with that version (the down-conversion to HTTP/1 keys on it)",
              desc=f"{qual}: {ctor}.http_version = {version.decode()}")
    hd = kw.get("headers")
    ctx.check(role_of(hd) == "headers", "R06.1", w, f"http.{ctor}(headers=...)", "the regular header fields returned by the parser must become the message's headers",
              desc=f"{qual}: {ctor}.headers <- parsed regular headers")


# ---------------------------------------------------------------------------------------------------
# R06.2 / R06.4  down-conversion in _http1.py


_FRAMING_FIELDS = (b"content-length", b"transfer-encoding")


def _split_fields(fields):
    host = [v for n, v in fields if n.lower() == b"host"]
    cookie = [v for n, v in fields if n.lower() == b"cookie"]
    other = [f for f in fields if f[0].lower() not in (b"host", b"cookie")]
    return host, cookie, other


def _downconvert(ctx, cls, msg, hdr_event, assemble):
    fn = ctx.func(H1, f"{cls}.send")
    w = (H1, f"{cls}.send", fn)
    is_req = msg == "request"
    versions = H1_VERSIONS + MUX_VERSIONS
    combos = [(v, host, auth, mc) for v in versions for host in (True, False) for auth in (True, False) for mc in (1, 2, 3)] if is_req else [(v, None, None, None) for v in versions]
    failed = set()
    n_rows = 0
    for version, hostin, auth, mc in combos:
        mux = version in MUX_VERSIONS
        world = []
        it = _Sem(ctx.model)
        if is_req:
            fields = ([(b"Host", HOSTV)] if hostin else []) + [(b"X-Custom", b"V1"), (b"cookie", b"a=1"), (b"Accept", b"*/*")] + [(b"Cookie", b"b=2"), (b"cookie", b"c=3")][: mc - 1]
            orig = _request(world, version, AUTHORITY if auth else b"", fields)
            me = Rec(cls, _bases=("Http1Connection", "HttpConnection", "Layer"), _impl=(H1, cls), conn=Rec("Server", state=3), stream_id=None, request=None, response=None,
                     request_done=False, response_done=False, context=_context(), debug=None)
        else:
            fields = [(b"Content-Type", b"text/x"), (b"Set-Cookie", b"a=1"), (b"set-cookie", b"b=2")]
            orig = _response(world, version, fields)
            me = Rec(cls, _bases=("Http1Connection", "HttpConnection", "Layer"), _impl=(H1, cls), conn=Rec("Client", state=3), stream_id=1, request=_request([], b"HTTP/1.1", b"", [(b"Host", HOSTV)]),
                     response=None, request_done=True, response_done=False, context=_context(), debug=None)
        before = _state(orig)
        ev = Rec(hdr_event, _bases=("HttpEvent", "Event"), stream_id=1, end_stream=False, replay_flow=None, **{msg: orig})
        ctx.cells += 1
        n_rows += 1
        cons = f"{hdr_event} {version.decode()}" + (f" host_header={hostin} authority={auth} cookie_headers={mc}" if is_req else "")

        def fail(rule, why):
            failed.add(rule)
            ctx.fail(rule, w, cons, why)

        try:
            res = it.method(me, "send", ev)
        except Raised as r:
            fail("R06.4", f"no HTTP/1 head is emitted: send() raises {r.name}")
            continue
        cmds = list(res.yields) if isinstance(res, _Done) else None
        ctx.require(cmds is not None, f"{cls}.send is not a command generator any more")
        sends = [c for c in cmds if isinstance(c, Rec) and c.isa("SendData")]
        other = [c for c in cmds if not (isinstance(c, Rec) and (c.isa("SendData") or c.isa("Log")))]
        heads = [c.data for c in sends if isinstance(getattr(c, "data", None), _Head)]
        # R06.4 exactly one head, of the message that was converted
        if other or len(sends) != 1 or len(heads) != 1:
            fail("R06.4", f"exactly one SendData(http1.{assemble}(<{'converted copy' if mux else 'message'}>)) must be emitted per {hdr_event}; saw {len(sends)} SendData ({len(heads)} of them a message head) and {[c._cls if isinstance(c, Rec) else c for c in other]}")
            continue
        head = heads[0]
        if getattr(sends[0], "connection", me.conn) is not me.conn:
            fail("R06.4", "the head is not sent to this connection's peer")
        changed = [m for m in world if m is not orig and _state(m) != before]
        if head.msg is orig and changed:
            fail("R06.4", f"the head of the unconverted {msg} (event.{msg}) is sent although a converted copy was made")
            continue
        # R06.2 the flow's message stays as received
        if _state(orig) != before:
            now = dict(_state(orig))
            diff = sorted(k for k, v in before if now.get(k) != v)
            fail("R06.2", f"the conversion must work on a copy - the flow's {msg} (event.{msg}) must stay as received; changed: {diff}")
            continue
        sent = dict(head.state)
        was = dict(before)
        if not mux:
            if head.state != before:
                fail("R06.2", f"an HTTP/1 {msg} must be forwarded unmodified, changed: {sorted(k for k in was if sent.get(k) != was[k])}")
            continue
        want = dict(was)
        want["http_version"] = b"HTTP/1.1"
        probs = []
        if is_req:
            want["authority"] = b""
        else:
            sent["reason"] = want["reason"] = None  # a made-up reason phrase is allowed (an empty one is valid HTTP/1 too), it is not part of the message semantics
        for k in sorted(want):
            if k != "headers" and sent.get(k) != want[k]:
                probs.append(f"{k} is {sent.get(k)!r}, expected {want[k]!r}")
        got_fields = list(sent["headers"][1]) if isinstance(sent.get("headers"), tuple) else None
        if got_fields is None:
            probs.append("the headers are no Headers object any more")
        else:
            ghost, gcookie, gother = _split_fields(got_fields)
            host, cookie, other_f = _split_fields(fields)
            if is_req:
                # a framing header the conversion ADDS (HTTP/2 and HTTP/3 delimit bodies themselves, HTTP/1 needs Content-Length or
                # chunked coding) is no change of the message's end-to-end fields; whether it frames the body correctly is R06.5's subject
                gother = [f for f in gother if f[0].lower() not in _FRAMING_FIELDS or any(n.lower() == f[0].lower() for n, _ in fields)]
            if gother != other_f:
                probs.append(f"header fields other than Host / Cookie must be kept complete and in order: expected {_fmt(other_f)}, saw {_fmt(gother)}")
            if is_req:
                whost = host if host else ([AUTHORITY] if auth else [])
                if ghost != whost:
                    probs.append(f"Host must be {[_nat(x) for x in whost]} (inserted from the authority iff there is no Host header and the authority is non-empty, before the authority is cleared), saw {[_nat(x) for x in ghost]}")
                wcookie = [b"; ".join(cookie)] if len(cookie) > 1 else cookie
                if gcookie != wcookie:
                    probs.append(f"several Cookie headers must be joined with '; ' into one (HTTP/1 allows only one): expected {[_nat(x) for x in wcookie]}, saw {[_nat(x) for x in gcookie]}")
            elif (ghost, gcookie) != (host, cookie):
                probs.append("Host / Cookie fields of a response must stay as they are")
        if probs:
            fail("R06.2", f"conversion of an h2/h3 {msg} to HTTP/1: " + "; ".join(probs))
    if "R06.2" not in failed:
        ctx.ok("R06.2", f"{cls}.send({hdr_event}): {n_rows} scenario rows: h2/h3 messages are converted on a copy exactly as specified, HTTP/1 messages pass unmodified")
    if "R06.4" not in failed:
        ctx.ok("R06.4", f"{cls}.send({hdr_event}): exactly one SendData(http1.{assemble}(...)) in {n_rows} scenario rows")


# ---------------------------------------------------------------------------------------------------
# R06.5  one request -> exactly one correctly framed HTTP/1 message on the wire (bounded interpretation of Http1Client.send)

_TOKEN = _re.compile(rb"[!#$%&'*+\-.^_`|~0-9A-Za-z]+\Z")
_CTL = (b"\r", b"\n", b"\x00")


class _Framing(Exception):
    """Why a byte string is not one complete, unambiguous HTTP/1 request (reference reader's verdict)."""


def _ref_field_line(line):
    """RFC 9112 section 5: field-line = field-name ":" OWS field-value OWS (no obs-fold, no bare CR / LF / NUL)."""
    name, sep, value = line.partition(b":")
    if not sep or not _TOKEN.match(name) or any(c in value for c in _CTL):
        raise _Framing(f"malformed field line {line[:40]!r}")
    return name.lower(), value.strip(b" \t")


def _ref_dechunk(data):
    """RFC 9112 section 7.1: chunked-body = *chunk last-chunk trailer-section CRLF; -> (decoded body, bytes after the message)."""
    body, pos = bytearray(), 0
    while True:
        eol = data.find(b"\r\n", pos)
        if eol < 0:
            raise _Framing("chunked coding: the chunk-size line is incomplete (the server keeps waiting, bytes of a later request would be taken for it)")
        size_s = data[pos:eol].partition(b";")[0].strip(b" \t")
        if not _re.fullmatch(rb"[0-9A-Fa-f]+", size_s):
            raise _Framing(f"chunked coding: {data[pos:eol][:24]!r} is no chunk-size line")
        size, pos = int(size_s, 16), eol + 2
        if size == 0:
            while True:  # trailer-section, then the empty line
                eol = data.find(b"\r\n", pos)
                if eol < 0:
                    raise _Framing("chunked coding: the last chunk is not terminated by an empty line")
                if eol == pos:
                    return bytes(body), data[pos + 2:]
                _ref_field_line(data[pos:eol])
                pos = eol + 2
        if len(data) < pos + size + 2:
            raise _Framing(f"chunked coding: a chunk of {size} bytes is announced but only {max(0, len(data) - pos)} bytes follow")
        body += data[pos:pos + size]
        if data[pos + size:pos + size + 2] != b"\r\n":
            raise _Framing("chunked coding: chunk data is not followed by CRLF")
        pos += size + 2


def _ref_read_request(wire):
    """Reference reader for the first HTTP/1 request in ``wire``, written from RFC 9112 (2.1 message format, 3 request line,
    5 field syntax, 6.1-6.3 message body length of a REQUEST, 7.1 chunked coding) - independent of mitmproxy's own reader.
    -> (fields, 'chunked' | 'content-length' | 'none', body, bytes after the message); _Framing when there is no complete,
    unambiguously delimited request."""
    end = wire.find(b"\r\n\r\n")
    if end < 0:
        raise _Framing("no complete message head (no empty line)")
    lines, rest = wire[:end].split(b"\r\n"), wire[end + 4:]
    parts = lines[0].split(b" ")
    if len(parts) != 3 or not _TOKEN.match(parts[0]) or not parts[1] or parts[2] not in (b"HTTP/1.1", b"HTTP/1.0"):
        raise _Framing(f"{lines[0][:60]!r} is no HTTP/1 request line")
    fields = [_ref_field_line(ln) for ln in lines[1:]]
    te = [v for n, v in fields if n == b"transfer-encoding"]
    cl = [v for n, v in fields if n == b"content-length"]
    if te:
        if cl:
            raise _Framing("both Transfer-Encoding and Content-Length are sent (RFC 9112 6.1/6.3: the two hops may disagree about the length - request smuggling)")
        codings = [c.strip(b" \t").lower() for v in te for c in v.split(b",")]
        if codings[-1] != b"chunked" or codings.count(b"chunked") != 1:
            raise _Framing("the final transfer coding of a request is not chunked: its length cannot be determined (RFC 9112 6.3 rule 4)")
        body, rest = _ref_dechunk(rest)
        return fields, "chunked", body, rest
    if cl:
        values = {x.strip(b" \t") for v in cl for x in v.split(b",")}
        if len(values) != 1 or not _re.fullmatch(rb"[0-9]+", next(iter(values))):
            raise _Framing(f"invalid / conflicting Content-Length {sorted(values)!r}")
        n = int(next(iter(values)))
        if len(rest) < n:
            raise _Framing(f"Content-Length announces {n} body bytes but only {len(rest)} are written (the server takes the start of the next request for the rest)")
        return fields, "content-length", rest[:n], rest[n:]
    return fields, "none", b"", rest  # RFC 9112 6.3 rule 6: a request without either header has no body


class _WireSem(_Sem):
    """_Sem, but http1.assemble_request_head is interpreted from its source too (bytes(headers) comes from the Headers model),
    so that what Http1Client.send hands to SendData are the real bytes."""

    def __init__(self, model, lib=None):
        super().__init__(model, lib)
        for rel in (H1,) + HTTP1_PKG:
            self.overrides.pop((rel, "assemble_request_head"), None)


SMUGGLE = b"GET /admin HTTP/1.1\r\nHost: internal\r\n\r\n"  # 39 bytes: chunk-size 27 in hex
F_C06S = "streamed HTTP/2 or HTTP/3 request body without content-length is written to an HTTP/1 server without framing"
F_C06 = "buffered HTTP/2 or HTTP/3 request body without content-length is written to an HTTP/1 server without framing"
F_C06E = "an empty RequestData under chunked transfer coding is written as the last-chunk and ends the HTTP/1 message early"
R065_MAX_CELL_FINDINGS = 4


def _wire_cells():
    """(version, framing header, end_stream, buffered?, RequestData payloads) - the bounded domain of R06.5."""
    for version in MUX_VERSIONS + H1_VERSIONS[:1]:
        for framing in ("none", "content-length", "chunked"):
            for buffered in (True, False):
                yield version, framing, True, buffered, ()
            if version in H1_VERSIONS and framing == "none":
                # an HTTP/1 request without Content-Length / Transfer-Encoding HAS no body (RFC 9112 6.3): Http1Server announces it with
                # end_stream=True and never delivers RequestData; the only other feasible cell is "no data at all"
                yield version, framing, False, True, ()
                yield version, framing, False, False, ()
                continue
            for body in (b"", b"hello", SMUGGLE):
                yield version, framing, False, True, ((body,) if body else ())  # HttpStream sends the buffered body as one RequestData
            for chunks in ((), (b"hello",), (SMUGGLE,), (b"ab", b"", b"cde" * 7)):
                yield version, framing, False, False, chunks


def _wire_of(ctx, version, framing, end_stream, buffered, chunks):
    """Interpret Http1Client.send over RequestHeaders, RequestData*, RequestEndOfMessage; -> bytes written to the server connection."""
    body = b"".join(chunks)
    mux = version in MUX_VERSIONS
    fields = [(b"X-Custom", b"V1")]
    if framing == "content-length":
        fields.append((b"content-length" if mux else b"Content-Length", b"%d" % len(body)))
    elif framing == "chunked":
        fields.append((b"transfer-encoding" if mux else b"Transfer-Encoding", b"chunked"))
    world = []
    it = _WireSem(ctx.model)
    req = _request(world, version, AUTHORITY if mux else b"", ([] if mux else [(b"Host", HOSTV)]) + fields)
    object.__setattr__(req.data, "content", body if buffered else None)
    me = Rec("Http1Client", _bases=("Http1Connection", "HttpConnection", "Layer"), _impl=(H1, "Http1Client"), conn=Rec("Server", state=3), stream_id=None, request=None, response=None,
             request_done=False, response_done=False, context=_context(), debug=None)
    events = [Rec("RequestHeaders", _bases=("HttpEvent", "Event"), stream_id=1, end_stream=end_stream, replay_flow=None, request=req)]
    events += [Rec("RequestData", _bases=("HttpEvent", "Event"), stream_id=1, data=c) for c in chunks]
    events.append(Rec("RequestEndOfMessage", _bases=("HttpEvent", "Event"), stream_id=1))
    wire = bytearray()
    for ev in events:
        res = it.method(me, "send", ev)  # Raised propagates to the caller
        ctx.require(isinstance(res, _Done), "Http1Client.send is not a command generator any more")
        for c in res.yields:
            if isinstance(c, Rec) and c.isa("SendData"):
                data = getattr(c, "data", None)
                if getattr(c, "connection", None) is not me.conn:
                    raise _Framing("bytes of the request are sent to another connection than this client's server")
                if not isinstance(data, (bytes, bytearray)):
                    raise AnalysisError(f"Http1Client.send: SendData carries {type(data).__name__}, not bytes, in the modelled set-up")
                wire += data
    return bytes(wire)


def _one_message(ctx):
    fn = ctx.func(H1, "Http1Client.send")
    for rel in HTTP1_PKG[1:]:
        if ctx.model.has(rel, "assemble_request_head"):
            ctx.func(rel, "assemble_request_head")
    w = (H1, "Http1Client.send", fn)
    n = held = 0
    known, repaired, early_end, other = [], [], [], []
    for version, framing, end_stream, buffered, chunks in _wire_cells():
        n += 1
        ctx.cells += 1
        body = b"".join(chunks)
        mux = version in MUX_VERSIONS
        cell = (f"{version.decode()} request, {'no framing' if framing == 'none' else framing} header, end_stream={end_stream}, {'buffered' if buffered else 'streamed'} body, "
                f"RequestData x{len(chunks)} ({len(body)} bytes)")
        why = None
        unframed = ended_by_empty_chunk = False
        try:
            wire = _wire_of(ctx, version, framing, end_stream, buffered, chunks)
            fields, kind, got, rest = _ref_read_request(wire)
            if rest:
                unframed = kind == "none" and rest == body
                ended_by_empty_chunk = kind == "chunked" and framing == "chunked" and b"" in chunks and got == b"".join(chunks[:chunks.index(b"")])
                why = (f"the head announces {'no body' if kind == 'none' else 'a ' + kind + ' body of ' + str(len(got)) + ' bytes'}, yet {len(rest)} more bytes follow the message: "
                       f"an HTTP/1 server parses {rest[:24]!r}... as the next request")
            elif got != body:
                why = f"the body the server reads ({len(got)} bytes, {got[:16]!r}...) is not the body that was received ({len(body)} bytes)"
        except Raised as r:
            why = f"send() raises {r.name}: no complete HTTP/1 message is written"
        except _Framing as e:
            why = str(e)
        if why is None:
            held += 1
            if len(chunks) > 1 or (mux and framing == "none" and buffered and body == b"hello"):
                ctx.sample({"rule": "R06.5", "cell": cell, "wire": wire.decode("latin-1")})
            continue
        if unframed and mux and framing == "none" and not end_stream:
            (repaired if buffered else known).append((cell, why))
        elif ended_by_empty_chunk:
            early_end.append((cell, why))
        else:
            other.append((cell, why))
    if known:
        ctx.fail("R06.5", w, F_C06S, f"{len(known)} of {n} cells, e.g. [{known[0][0]}]: {known[0][1]} (the converted head carries neither Content-Length nor Transfer-Encoding: chunked "
                 "although RequestHeaders.end_stream is False; cannot be repaired without editing tests that pin the head bytes of a streamed request)")
    if repaired:
        ctx.fail("R06.5", w, F_C06, f"{len(repaired)} of {n} cells, e.g. [{repaired[0][0]}]: {repaired[0][1]} (the length of the buffered body, request.raw_content, must be announced in the converted head)")
    if early_end:
        ctx.fail("R06.5", w, F_C06E, f"{len(early_end)} of {n} cells, e.g. [{early_end[0][0]}]: {early_end[0][1]} (the chunk-encoded form of empty data is `0 CRLF CRLF`, which is never falsy: "
                 "empty data must write nothing; reachable with an empty HTTP/2 DATA frame or a stream callable returning b\"\")")
    for cell, why in other[:R065_MAX_CELL_FINDINGS]:
        ctx.fail("R06.5", w, cell, why + (f" (+{len(other) - R065_MAX_CELL_FINDINGS} more cells)" if len(other) > R065_MAX_CELL_FINDINGS else ""))
    if held:
        ctx.ok("R06.5", f"Http1Client.send: {held}/{n} cells (h2 / h3 / HTTP/1.1 x no | content-length | chunked header x end_stream x buffered | streamed x RequestData sequences): the bytes written "
               "form exactly one HTTP/1 request for an independent RFC 9112 reader, body as received, nothing left over")


# ---------------------------------------------------------------------------------------------------
# R06.3 option dataflow

OPT = "validate_inbound_headers"


def _expanded_chain(e, fn, depth=0) -> str:
    """Dotted text of an attribute chain with single-assignment local aliases of its root expanded (``o = self.context.options`` ...
    ``o.x`` -> ``self.context.options.x``); '' when ``e`` is no attribute chain."""
    ch = attr_chain(e) or ""
    if not ch or fn is None or depth > 3:
        return ch
    root, _, rest = ch.partition(".")
    binds = [n for n in ast.walk(fn) if isinstance(n, (ast.Assign, ast.AnnAssign, ast.NamedExpr)) and getattr(n, "value", None) is not None
             and any(isinstance(t, ast.Name) and t.id == root for t in (n.targets if isinstance(n, ast.Assign) else [n.target]))]
    stores = [n for n in ast.walk(fn) if isinstance(n, ast.Name) and n.id == root and isinstance(n.ctx, ast.Store)]
    if len(binds) == 1 and len(stores) == 1:
        base = _expanded_chain(binds[0].value, fn, depth + 1)
        if base:
            return base + ("." + rest if rest else "")
    return ch


def _init_by_interpretation(ctx):
    """[(option value, [(created from self.h2_conf?, conf.validate_inbound_headers at creation)...], value when __init__ returns)] for
    Http2Connection.__init__ interpreted with the option on and off, or None when __init__ cannot be interpreted in this set-up."""
    import collections as _collections

    out = []
    for opt in (True, False):
        it = _Sem(ctx.model)
        it.trusted.setdefault("collections", _collections)
        conf = Rec("H2Configuration", _name="self.h2_conf", logger=None, **{OPT: "<not set>"})
        created = []

        def make(c=None, *a, **k):
            created.append((c is conf, getattr(c, OPT, None) if isinstance(c, Rec) else None))
            return Rec("BufferedH2Connection", config=c)

        make._abstract_ok = True
        it.overrides[(H2, "BufferedH2Connection")] = make
        context = _context()
        object.__setattr__(context.options, OPT, opt)
        for k, v in (("client", Rec("Client", peername=("client", 1), state=3)), ("server", Rec("Server", peername=("server", 1), state=3)), ("layers", [])):
            object.__setattr__(context, k, v)
        me = Rec("Http2Connection", _bases=tuple(c.name for _, c in ctx.model.mro(H2, "Http2Connection")[1:]), _impl=(H2, "Http2Connection"), h2_conf=conf)
        try:
            it.method(me, "__init__", context, context.client)
        except (AnalysisError, Raised, RecursionError):
            return None
        out.append((opt, created, getattr(conf, OPT, None)))
    return out


def _validation_option(ctx):
    fn = ctx.func(H2, "Http2Connection.__init__")
    w = (H2, "Http2Connection.__init__", fn)
    ps = params_of(fn)
    ctx.require(len(ps) >= 1, "Http2Connection.__init__ signature changed")
    ctxparam = ps[0]

    def canon(e, st, sp):
        """dotted text of an attribute chain with local aliases expanded; the context parameter and self.context (Layer.__init__ stores it) are both 'CTX'."""
        parts = []
        while isinstance(e, ast.Attribute):
            parts.append(e.attr)
            e = e.value
        if not isinstance(e, ast.Name):
            return None
        root = e.id
        v = sp.v(e, st) if root != "self" else None
        if isinstance(v, tuple) and len(v) == 2 and v[0] in ("r", "param", "canon"):
            root = v[1]
        text = ".".join([root] + parts[::-1])
        for pre in ("self.context", ctxparam):
            if text == pre or text.startswith(pre + "."):
                text = "CTX" + text[len(pre):]
                break
        return text

    def val(expr, st, sp):
        if isinstance(expr, ast.Attribute):
            c = canon(expr, st, sp)
            return ("canon", c) if c else None
        return None

    def label(node, st, sp):
        out = []
        tgts = []
        if isinstance(node, ast.Assign):
            tgts = [(t, node.value) for t in node.targets]
        elif isinstance(node, ast.AnnAssign) and node.value is not None:
            tgts = [(node.target, node.value)]
        for t, v in tgts:
            c = canon(t, st, sp) if isinstance(t, ast.Attribute) else None
            if c == f"self.h2_conf.{OPT}":
                out.append(("opt", canon(v, st, sp) or norm(v)))
            elif c == "self.h2_conn":
                args = [canon(a, st, sp) for a in v.args] + [canon(k.value, st, sp) for k in v.keywords] if isinstance(v, ast.Call) else []
                out.append(("conn", "from self.h2_conf" if "self.h2_conf" in args else norm(v)))
        for n in ast.walk(node):
            if isinstance(n, ast.Call) and isinstance(n.func, ast.Name) and n.func.id == "setattr" and len(n.args) == 3 and isinstance(n.args[1], ast.Constant) and n.args[1].value == OPT:
                out.append(("opt", canon(n.args[2], st, sp) or norm(n.args[2])))
        return out

    observed = _init_by_interpretation(ctx)
    if observed is not None:
        # decided by interpreting __init__ for both values of the option: one h2 connection, created from self.h2_conf, which carries the
        # option's value at that moment and when __init__ returns (helpers, aliases, setattr ... do not matter)
        ctx.cells += len(observed)
        bad = None
        for opt, created, final in observed:
            if len(created) != 1 or created[0] != (True, opt) or final is not opt:
                bad = [("option", opt), ("h2 connections created (from self.h2_conf?, validate_inbound_headers at that moment)", created), ("validate_inbound_headers when __init__ returns", final)]
    else:
        ctx.note("Http2Connection.__init__ not interpretable in the modelled set-up, decided by path enumeration")

        def resolver(call):
            f = call.func
            if isinstance(f, ast.Attribute) and isinstance(f.value, ast.Name) and f.value.id == "self":
                r = ctx.model.method(H2, "Http2Connection", f.attr)
                return r[1] if r is not None and r[0].rel == H2 else None
            return None

        traces, _ = run_block(fn.body, ASpec(label=label, val=val, resolver=resolver, unroll=1), {p: ("param", p) for p in ps})
        ctx.paths += len(traces)
        ctx.require(traces, "Http2Connection.__init__: no path")
        bad = None
        for tr, how, _ in traces:
            if how != "return":
                continue
            toks = [t for t in tr if t[0] in ("opt", "conn")]
            conns = [i for i, t in enumerate(toks) if t[0] == "conn"]
            opts = [i for i, t in enumerate(toks) if t[0] == "opt"]
            if len(conns) != 1 or toks[conns[0]][1] != "from self.h2_conf" or not opts or min(opts) > conns[0] or any(toks[i][1] != f"CTX.options.{OPT}" for i in opts):
                bad = toks
    ctx.check(bad is None, "R06.3", w, "h2_conf.validate_inbound_headers <- option", "hyper-h2's inbound header validation must follow context.options.validate_inbound_headers (set before the h2 connection is "
              f"created from self.h2_conf); saw {show(bad) if bad else ''}", desc="Http2Connection.__init__: validate_inbound_headers <- context.options.validate_inbound_headers, then the h2 connection is created from self.h2_conf")
    # nothing else may decide the setting: every other write / constructor keyword in _http2.py carries the option's value too
    # (a class-level default that __init__ overwrites is harmless: the h2 connection is created after the write checked above)
    mod = ctx.model.module(H2)
    stray = []
    for n in ast.walk(mod.tree):
        if isinstance(n, (ast.Assign, ast.AnnAssign, ast.AugAssign)) and getattr(n, "value", None) is not None:
            for t in (n.targets if isinstance(n, ast.Assign) else [n.target]):
                if isinstance(t, ast.Attribute) and t.attr == OPT:
                    f = t
                    while f is not None and not isinstance(f, (ast.FunctionDef, ast.AsyncFunctionDef)):
                        f = getattr(f, "_parent", None)
                    if f is fn:
                        continue
                    if not _expanded_chain(n.value, f).endswith(f"options.{OPT}"):
                        stray.append(norm(n))
    ctx.check(not stray, "R06.3", (H2, "Http2Connection", ctx.model.cls(H2, "Http2Connection")), "validate_inbound_headers not pinned", f"validate_inbound_headers is set to something else than the option: {stray}",
              desc="no other write to validate_inbound_headers in _http2.py")


def check(ctx):
    ctx.rule("R06.1", "pseudo-header <-> field tables of format_h2_*_headers / parse_h2_*_headers / http.Request|Response call sites agree; duplicates and leftovers rejected")
    ctx.rule("R06.2", "h2/h3 -> HTTP/1 conversion: copy, HTTP/1.1, Host from authority iff missing, authority cleared, Cookie joined with '; '; responses: copy + HTTP/1.1")
    ctx.rule("R06.3", "inbound header validation follows the option; HTTP/1 blocks are normalised for HTTP/2; Host -> :authority only when authority is empty")
    ctx.rule("R06.4", "exactly one HTTP/1 head (one SendData of assemble_*_head) per RequestHeaders / ResponseHeaders")
    ctx.rule("R06.5", "the bytes Http1Client.send writes for one request (head, data, end of message) are exactly one HTTP/1 message for an RFC 9112 reader: "
             "a body is announced by Content-Length or chunked coding, nothing is left over for the server to parse as a second request (bounded interpretation)")
    ctx.trust("hyper-h2 / aioquic header validation, http1.assemble_request_head / assemble_response_head, h2.utilities.normalize_outbound_headers (modelled: lower-cases names, drops connection-specific fields)")
    ctx.trust("model of mitmproxy.http.Headers (case-insensitive multi-dict over (bytes, bytes) fields) and Message.copy() (independent deep copy); http.Request / http.Response properties are interpreted from their source")
    ctx.bounds.append("converters interpreted on a finite message domain: versions HTTP/1.0 1.1 2.0 3 x authority set/empty x Host present/absent x one/several Cookie headers x normalize_outbound_headers")
    ctx.bounds.append("R06.5 is a bounded interpretation: versions HTTP/2.0 3 1.1 x framing header none | content-length | transfer-encoding: chunked x end_stream x buffered (raw_content bytes, one RequestData) | "
                      "streamed (raw_content None, 0-3 RequestData incl. an empty one) x bodies of 0 / 5 / 40 / 26 bytes; an HTTP/1 request without framing header is only modelled without body; "
                      "no trailers, no Content-Length that disagrees with the data, no CONNECT / upgrade")
    ctx.trust("R06.5: the reference HTTP/1 request reader in this module (written from RFC 9112 sections 2-7) defines what an HTTP/1 server sees; http1.assemble_request_head is interpreted from its source")
    _format_request(ctx)
    _format_response(ctx)
    _parse_side(ctx)
    _downconvert(ctx, "Http1Client", "request", "RequestHeaders", "assemble_request_head")
    _downconvert(ctx, "Http1Server", "response", "ResponseHeaders", "assemble_response_head")
    _validation_option(ctx)
    _one_message(ctx)
    # fail closed per rule: a rule without a finding (the known finding F-C06s apart) must have matched what was confirmed by hand
    failed = {f.rule for f in ctx.findings if f.construct != F_C06S}
    for rule, count in (("R06.1", 28), ("R06.2", 2), ("R06.3", 4), ("R06.4", 2), ("R06.5", 1)):
        if rule not in failed:
            ctx.expect_instances(rule, count)


MUTANTS = [
    # R06.1
    Mutant("format-scheme-from-url", H2, "(b\":scheme\", event.request.data.scheme),", "(b\":scheme\", event.request.data.method),", "R06.1"),
    Mutant("format-authority-always", H2, "    if event.request.authority:\n        pseudo_headers.append((b\":authority\", event.request.data.authority))\n", "    pseudo_headers.append((b\":authority\", event.request.data.authority))\n", "R06.1"),
    Mutant("format-pseudo-last", H2, "    return pseudo_headers + hdrs", "    return hdrs + pseudo_headers", "R06.1"),
    Mutant("format-h2-fields-dropped", H2, "        hdrs = list(event.request.headers.fields)\n", "        hdrs = list(event.request.headers.fields)[1:]\n", "R06.1"),
    Mutant("split-accepts-duplicates", H2, "            if header in pseudo_headers:\n                raise ValueError(f\"Duplicate HTTP/2 pseudo header: {header!r}\")\n", "", "R06.1"),
    Mutant("parse-ignores-leftovers", H2, "    if pseudo_headers:\n        raise ValueError(f\"Unknown pseudo headers: {pseudo_headers}\")\n\n    if authority:", "    if authority:", "R06.1"),
    Mutant("parse-response-ignores-leftovers", H2, "    if pseudo_headers:\n        raise ValueError(f\"Unknown pseudo headers: {pseudo_headers}\")\n\n    return status_code, headers", "    return status_code, headers", "R06.1"),
    Mutant("parse-path-optional", H2, "path: bytes = pseudo_headers.pop(b\":path\")", "path: bytes = pseudo_headers.pop(b\":path\", b\"/\")", "R06.1"),
    Mutant("split-loses-first-regular-field", H2, "    headers = http.Headers(h2_headers[i:])", "    headers = http.Headers(h2_headers[i + 1 :])", "R06.1"),
    Mutant("h2-site-swaps-scheme-method", H2, "                method=method,\n                scheme=scheme,\n                authority=authority,\n                path=path,\n                http_version=b\"HTTP/2.0\",",
           "                method=scheme,\n                scheme=method,\n                authority=authority,\n                path=path,\n                http_version=b\"HTTP/2.0\",", "R06.1"),
    Mutant("h3-site-unpack-order", H3, "            method,\n            scheme,\n            authority,\n            path,\n            headers,\n        ) = parse_h2_request_headers(event.headers)",
           "            method,\n            scheme,\n            path,\n            authority,\n            headers,\n        ) = parse_h2_request_headers(event.headers)", "R06.1"),
    Mutant("h3-site-wrong-version", H3, "            path=path,\n            http_version=b\"HTTP/3\",", "            path=path,\n            http_version=b\"HTTP/2.0\",", "R06.1"),
    Mutant("response-status-from-reason", H2, "(b\":status\", b\"%d\" % event.response.status_code),", "(b\":status\", event.response.data.reason),", "R06.1"),
    Mutant("response-fields-dropped", H2, "        (b\":status\", b\"%d\" % event.response.status_code),\n        *event.response.headers.fields,\n", "        (b\":status\", b\"%d\" % event.response.status_code),\n", "R06.1"),
    # R06.2
    Mutant("downconvert-mutates-flow-request", H1, "                request = (\n                    request.copy()\n                )  # (we could probably be a bit more efficient here.)\n", "", "R06.2"),
    Mutant("downconvert-host-overrides", H1, "                if \"Host\" not in request.headers and request.authority:", "                if request.authority:", "R06.2"),
    Mutant("downconvert-cookie-comma", H1, "request.headers[\"Cookie\"] = \"; \".join(cookie_headers)", "request.headers[\"Cookie\"] = \", \".join(cookie_headers)", "R06.2"),
    Mutant("downconvert-cookies-not-joined", H1, "                if len(cookie_headers) > 1:", "                if len(cookie_headers) > 2:", "R06.2"),
    Mutant("downconvert-keeps-authority", H1, "                request.authority = \"\"\n", "", "R06.2"),
    Mutant("downconvert-host-after-clearing", H1, "                if \"Host\" not in request.headers and request.authority:\n                    request.headers.insert(0, \"Host\", request.authority)\n                request.authority = \"\"\n",
           "                authority, request.authority = request.authority, \"\"\n                if \"Host\" not in request.headers and request.authority:\n                    request.headers.insert(0, \"Host\", authority)\n", "R06.2"),
    Mutant("downconvert-keeps-h2-version", H1, "                request.http_version = \"HTTP/1.1\"\n", "", "R06.2"),
    Mutant("response-downconvert-mutates-flow", H1, "                response = response.copy()\n", "", "R06.2"),
    Mutant("response-keeps-h2-version", H1, "                response.http_version = \"HTTP/1.1\"\n", "", "R06.2"),
    # R06.3
    Mutant("h2-validation-always-off", H2, "        self.h2_conf.validate_inbound_headers = (\n            self.context.options.validate_inbound_headers\n        )\n", "        self.h2_conf.validate_inbound_headers = False\n", "R06.3"),
    Mutant("h2-validation-set-too-late", H2, "        self.h2_conf.validate_inbound_headers = (\n            self.context.options.validate_inbound_headers\n        )\n        self.h2_conn = BufferedH2Connection(self.h2_conf)\n",
           "        self.h2_conn = BufferedH2Connection(self.h2_conf)\n        self.h2_conf.validate_inbound_headers = (\n            self.context.options.validate_inbound_headers\n        )\n", "R06.3"),
    Mutant("h2-validation-overridden-for-clients", H2, "    def __init__(self, context: Context):\n        super().__init__(context, context.client)\n", "    def __init__(self, context: Context):\n        super().__init__(context, context.client)\n        self.h2_conf.validate_inbound_headers = False\n", "R06.3"),
    Mutant("h1-request-not-normalised", H2, "        hdrs = normalize_h1_headers(list(headers.fields), True)", "        hdrs = list(headers.fields)", "R06.3"),
    Mutant("h1-request-normalised-as-server", H2, "        hdrs = normalize_h1_headers(list(headers.fields), True)", "        hdrs = normalize_h1_headers(list(headers.fields), False)", "R06.3"),
    Mutant("h1-response-not-normalised", H2, "        headers = normalize_h1_headers(headers, False)\n", "        pass\n", "R06.3"),
    Mutant("h2-response-normalised-as-h1", H2, "    if event.response.is_http2 or event.response.is_http3:\n        if context.options.normalize_outbound_headers:\n            yield from normalize_h2_headers(headers)\n    else:\n        headers = normalize_h1_headers(headers, False)\n",
           "    if event.response.is_http2:\n        if context.options.normalize_outbound_headers:\n            yield from normalize_h2_headers(headers)\n    else:\n        headers = normalize_h1_headers(headers, False)\n", "R06.3"),
    Mutant("host-overrides-authority", H2, "        if not event.request.authority and \"host\" in headers:", "        if \"host\" in headers:", "R06.3"),
    Mutant("host-popped-from-flow", H2, "            headers = headers.copy()\n            pseudo_headers.append", "            pseudo_headers.append", "R06.3"),
    # R06.5
    Mutant("buffered-body-length-not-announced", H1, "                if (\n                    not event.end_stream\n                    and request.raw_content is not None\n                    and \"content-length\" not in request.headers\n"
           "                    and \"transfer-encoding\" not in request.headers\n                ):\n                    # HTTP/2 and HTTP/3 delimit the body themselves, HTTP/1 needs to announce its length.\n"
           "                    # Without it the server would take the body bytes for the next request.\n                    request.headers[\"content-length\"] = str(len(request.raw_content))\n", "", "R06.5"),  # F-C06: the fix 1e0ce2d10 reverted
    Mutant("buffered-body-length-off-by-one", H1, "request.headers[\"content-length\"] = str(len(request.raw_content))", "request.headers[\"content-length\"] = str(len(request.raw_content) + 1)", "R06.5"),
    Mutant("content-length-added-next-to-chunked", H1, "                    and \"content-length\" not in request.headers\n                    and \"transfer-encoding\" not in request.headers\n", "                    and \"content-length\" not in request.headers\n", "R06.5"),
    Mutant("request-chunk-without-chunk-header", H1, "            assert self.request\n            # an empty chunk would be the last-chunk and end the body early.\n            if (\n                event.data\n                and \"chunked\"\n                in self.request.headers.get(\"transfer-encoding\", \"\").lower()\n            ):\n                raw = b\"%x\\r\\n%s\\r\\n\" % (len(event.data), event.data)\n",
           "            assert self.request\n            # an empty chunk would be the last-chunk and end the body early.\n            if (\n                event.data\n                and \"chunked\"\n                in self.request.headers.get(\"transfer-encoding\", \"\").lower()\n            ):\n                raw = b\"%s\\r\\n\" % event.data\n", "R06.5"),
    Mutant("request-chunk-size-decimal", H1, "            assert self.request\n            # an empty chunk would be the last-chunk and end the body early.\n            if (\n                event.data\n                and \"chunked\"\n                in self.request.headers.get(\"transfer-encoding\", \"\").lower()\n            ):\n                raw = b\"%x\\r\\n%s\\r\\n\" % (len(event.data), event.data)\n",
           "            assert self.request\n            # an empty chunk would be the last-chunk and end the body early.\n            if (\n                event.data\n                and \"chunked\"\n                in self.request.headers.get(\"transfer-encoding\", \"\").lower()\n            ):\n                raw = b\"%d\\r\\n%s\\r\\n\" % (len(event.data), event.data)\n", "R06.5"),
    Mutant("request-empty-data-written-as-last-chunk", H1, "            if (\n                event.data\n                and \"chunked\"\n                in self.request.headers.get(\"transfer-encoding\", \"\").lower()\n            ):\n",
           "            if \"chunked\" in self.request.headers.get(\"transfer-encoding\", \"\").lower():\n", "R06.5"),  # F-C01c: the fix f1f995324 reverted (request direction)
    Mutant("request-last-chunk-dropped", H1, "            assert self.request\n            if \"chunked\" in self.request.headers.get(\"transfer-encoding\", \"\").lower():\n                yield commands.SendData(self.conn, b\"0\\r\\n\\r\\n\")\n            elif",
           "            assert self.request\n            if False:\n                pass\n            elif", "R06.5"),
    Mutant("length-taken-of-a-streamed-body", H1, "                    and request.raw_content is not None\n", "", "R06.5"),
    # R06.4
    Mutant("two-heads", H1, "            raw = http1.assemble_request_head(request)\n            yield commands.SendData(self.conn, raw)\n", "            raw = http1.assemble_request_head(request)\n            yield commands.SendData(self.conn, raw)\n            if request is not event.request:\n                yield commands.SendData(self.conn, raw)\n", "R06.4"),
    Mutant("head-of-unconverted-request", H1, "            raw = http1.assemble_request_head(request)\n", "            raw = http1.assemble_request_head(event.request)\n", "R06.4"),
    Mutant("response-head-only-for-h1", H1, "            raw = http1.assemble_response_head(response)\n            yield commands.SendData(self.conn, raw)\n", "            raw = http1.assemble_response_head(response)\n            if response is event.response:\n                yield commands.SendData(self.conn, raw)\n", "R06.4"),
]
