"""C50 - content views always render safely; the DNS view re-encodes faithfully.

Decided from the source of contentviews/__init__.py, _registry.py, _view_raw.py, _view_dns.py, utils/strutils.py and dns.py:
  R50.1 safe rendering (all paths of prettify_message, exception edges out of every ``.prettify(`` call included): the object that is
        returned is either the constant "Content is missing." result or was passed through
        ``X.text = escape_control_characters(X.text)`` after its last construction / text assignment; the selected view's prettify
        runs only inside ``try ... except Exception``; the only unprotected prettify is RawContentview's, a total decode
        (errors="backslashreplace"/"replace"/"ignore"); registry.get_view guards every render_priority call with a non-raising
        ``except Exception`` and the explicit-name lookup with ``except KeyError``; the translation table used by
        escape_control_characters - interpreted from its AST (pyint, shared with C49 R49.2) on every C0 / DEL / C1 code point alone and
        embedded and on every combination of character classes, so that fast paths / pre-checks around the table are analysed, and, when it
        is still `return text.translate(<table>)`, with its table evaluated from the module-level statements - maps every C0, DEL and C1 control character except
        tab / LF / CR to a printable character.
  R50.2 DNS view field coverage: every dataclass field of DNSMessage, Question and ResourceRecord (timestamp excepted) is written by
        to_json from ``self.<field>`` and read back by from_json from the same key with the matching to_str/from_str codec; the keys the
        DNS view deletes before display are not keys from_json needs.  *Reports the known defect F-C50: ``reserved`` is not written and
        from_json hard-codes reserved=0.*
NOT decided: that each individual view terminates / returns str; YAML round-trip; the rdata codecs of ResourceRecord.
"""

from __future__ import annotations

import ast

from ..core import AnalysisError
from ..core import norm
from ..model import attr_chain
from ..model import call_name
from ..model import eval_order
from ..model import last_attr
from ..model import stmts_of
from ..model import walk_in_order
from ..paths import Engine
from ..paths import GenericSpec
from ..paths import State
from ..paths import traces_of
from ..selftest import Mutant
from ._helpers_F import class_members
from ._helpers_F import kwarg
from ._helpers_F import own_nodes
from ._helpers_F import params_of

PROP = "C50"
REG = {
    "strength": "partial",
    "technique": "path enumeration with exception edges (post-dominance of the escape), handler-coverage checks, static evaluation of the "
    "control-character translation table, field-coverage agreement between dataclass fields, to_json and from_json",
    "claim": "prettify_message returns only text that went through escape_control_characters (whose table covers C0, DEL and C1 except tab/LF/CR) "
    "or a constant; view code runs under `except Exception` with a total raw fallback; get_view cannot raise because of a view; the DNS "
    "JSON shape carries every DNSMessage / Question / ResourceRecord field except `reserved` (known finding F-C50).",
    "note": "Individual views are covered only through the `except Exception` wrapper. Trusted: str.translate, bytes.decode error handlers, ruamel.yaml.",
}

CV = "mitmproxy/contentviews/__init__.py"
REGF = "mitmproxy/contentviews/_registry.py"
RAW = "mitmproxy/contentviews/_view_raw.py"
DNSV = "mitmproxy/contentviews/_view_dns.py"
STR = "mitmproxy/utils/strutils.py"
DNS = "mitmproxy/dns.py"
RESULT = "ContentviewResult"


# ---------------------------------------------------------------------------------------------------
# R50.1


def catches_everything(h: ast.ExceptHandler) -> bool:
    if h.type is None:
        return True
    names = [last_attr(e) for e in (h.type.elts if isinstance(h.type, ast.Tuple) else [h.type])]
    return "Exception" in names or "BaseException" in names


def protecting_try(node, fn):
    """innermost Try of ``fn`` whose *body* contains ``node`` and that has a catch-all handler; None otherwise"""
    cur = node
    while cur is not fn:
        par = cur._parent
        if isinstance(par, ast.Try) and cur in par.body and any(catches_everything(h) for h in par.handlers):
            return par
        cur = par
    return None


class PrettifySpec(GenericSpec):
    def __init__(self):
        super().__init__(record_conds=False)

    @staticmethod
    def kind(call):
        t = kwarg(call, "text")
        if t is None and call.args:
            t = call.args[0]
        if isinstance(t, ast.Constant) and isinstance(t.value, str) and all(ch.isprintable() or ch in "\t\n\r" for ch in t.value):
            return "const"
        return "dynamic"

    def events(self, node, st):
        out = []
        if isinstance(node, (ast.Assign, ast.AnnAssign)) and getattr(node, "value", None) is not None:
            tgts = node.targets if isinstance(node, ast.Assign) else [node.target]
            v = node.value
            for t in tgts:
                if isinstance(t, ast.Name) and isinstance(v, ast.Call) and last_attr(v.func) == RESULT:
                    out.append(("construct", t.id, self.kind(v)))
                elif isinstance(t, ast.Name) and any(isinstance(c, ast.Call) and last_attr(c.func) == RESULT for c in ast.walk(v)):
                    raise AnalysisError(f"prettify_message: {RESULT} built inside a larger expression ({norm(node)}), not modelled")
                elif isinstance(t, ast.Attribute) and t.attr == "text" and isinstance(t.value, ast.Name):
                    esc = isinstance(v, ast.Call) and last_attr(v.func) == "escape_control_characters" and v.args and norm(v.args[0]) == norm(t)
                    if esc:
                        ks = kwarg(v, "keep_spacing") or (v.args[1] if len(v.args) > 1 else None)
                        if ks is not None and not (isinstance(ks, ast.Constant) and ks.value is True):
                            raise AnalysisError(f"prettify_message: {norm(v)}: keep_spacing is not the default (not modelled)")
                    out.append(("escape" if esc else "settext", t.value.id))
                elif isinstance(t, ast.Name):
                    out.append(("rebind", t.id))
        elif isinstance(node, ast.Return):
            v = node.value
            if isinstance(v, ast.Call) and last_attr(v.func) == RESULT:
                out.append(("construct", "<direct>", self.kind(v)))
                out.append(("return", "<direct>"))
            elif isinstance(v, ast.Name):
                out.append(("return", v.id))
            else:
                raise AnalysisError(f"prettify_message: return value not modelled: {norm(node)}")
        return out

    def raises_into(self, stmt, handler_names, st):
        if any(isinstance(c, ast.Call) and isinstance(c.func, ast.Attribute) and c.func.attr == "prettify" for c in ast.walk(stmt)):
            return ["Exception"]
        return []


def check_prettify_message(ctx):
    fn = ctx.func(CV, "prettify_message")
    W = (CV, "prettify_message", fn)
    # the selected view's prettify is protected, everything else must be the total raw view
    views = [n.targets[0].id for n in own_nodes(fn) if isinstance(n, ast.Assign) and isinstance(n.value, ast.Call) and last_attr(n.value.func) == "get_view" and isinstance(n.targets[0], ast.Name)]
    ctx.require(len(views) == 1, "prettify_message: `view = registry.get_view(...)` not found")
    calls = [c for c in own_nodes(fn) if isinstance(c, ast.Call) and isinstance(c.func, ast.Attribute) and c.func.attr == "prettify"]
    ctx.require(any(attr_chain(c.func.value) == views[0] for c in calls), "prettify_message never calls view.prettify")
    for c in calls:
        recv = attr_chain(c.func.value)
        if recv == views[0]:
            ctx.check(protecting_try(c, fn) is not None, "R50.1", W, f"{norm(c.func)}(...) outside try/except Exception", "an exception raised by a content view escapes prettify_message",
                      desc=f"{views[0]}.prettify(...) runs inside try ... except Exception")
        else:
            imp = ctx.model.module(CV).imports.get(recv, "")
            ctx.require(imp.endswith("_view_raw.raw"), f"prettify_message: unprotected {norm(c.func)}() on something other than the raw view (not modelled)")
            inst = ctx.model.module(RAW).assigns("raw")
            ctx.require(len(inst) == 1 and isinstance(inst[0], ast.Call) and call_name(inst[0]) == "RawContentview", f"{RAW}: raw is not RawContentview()")
            rp = ctx.func(RAW, "RawContentview.prettify")
            body = stmts_of(rp)
            ctx.require(len(body) == 1 and isinstance(body[0], ast.Return) and isinstance(body[0].value, ast.Call) and last_attr(body[0].value.func) == "decode"
                        and attr_chain(body[0].value.func.value) == params_of(rp)[1], f"RawContentview.prettify is no longer `return data.decode(...)`: {norm(rp)}")
            d = body[0].value
            err = kwarg(d, "errors") or (d.args[1] if len(d.args) > 1 else None)
            enc = kwarg(d, "encoding") or (d.args[0] if d.args else None)
            total = isinstance(err, ast.Constant) and err.value in ("backslashreplace", "replace", "ignore") and (enc is None or (isinstance(enc, ast.Constant) and str(enc.value).lower().replace("-", "") in ("utf8", "latin1", "ascii")))
            ctx.check(total, "R50.1", (RAW, "RawContentview.prettify", rp), norm(body[0]), "the fallback view itself raises on undecodable bytes, outside any handler",
                      desc=f"fallback {recv}.prettify is total: {norm(body[0])}")
    trs, eng = traces_of(fn, PrettifySpec())
    ctx.paths += len(trs)
    rets = [(tr, how) for tr, how, _ in trs if how == "return"]
    ctx.require(ctx.findings or len(rets) >= 3, f"prettify_message: only {len(rets)} returning paths found (exception edges not recognised?)")
    bad = None
    n_esc = 0
    for tr, how in rets:
        r = [e for e in tr if e[0] == "return"][-1][1]
        if r == "<direct>":
            c = [e for e in tr if e[0] == "construct" and e[1] == "<direct>"][-1]
            if c[2] != "const":
                bad = bad or ("a freshly built result with non-constant text is returned without escaping", tr)
            continue
        idx = [i for i, e in enumerate(tr) if e[0] in ("construct", "rebind") and e[1] == r]
        if not idx or tr[idx[-1]][0] == "rebind":
            raise AnalysisError(f"prettify_message: origin of the returned `{r}` not modelled on path {list(tr)}")
        last = idx[-1]
        esc = [i for i, e in enumerate(tr) if e == ("escape", r) and i > last]
        dirty = [i for i, e in enumerate(tr) if e == ("settext", r) and (not esc or i > esc[-1])]
        if tr[last][2] == "const" and not dirty:
            continue
        if not esc or dirty:
            bad = bad or (f"`{r}` is returned although its text did not pass through escape_control_characters after it was last set", tr)
        else:
            n_esc += 1
    ctx.check(not bad, "R50.1", W, f"prettify_message: {bad[0] if bad else ''}", f"{bad[0] if bad else ''} (path {list(bad[1]) if bad else ''}): control characters reach the UI / terminal",
              desc=f"prettify_message: every returned non-constant result is escaped after its last text assignment ({len(rets)} returning paths, {n_esc} escaped)")


def check_get_view(ctx):
    fn = ctx.func(REGF, "ContentviewRegistry.get_view")
    W = (REGF, "ContentviewRegistry.get_view", fn)
    rps = [c for c in own_nodes(fn) if isinstance(c, ast.Call) and isinstance(c.func, ast.Attribute) and c.func.attr == "render_priority"]
    ctx.require(rps, "get_view never calls render_priority")
    ok = True
    for c in rps:
        t = protecting_try(c, fn)
        ok = ok and t is not None and not any(isinstance(x, ast.Raise) for h in t.handlers if catches_everything(h) for x in ast.walk(h))
    ctx.check(ok, "R50.1", W, "render_priority(...) not under a non-raising `except Exception`", "a broken view makes automatic view selection raise for every message",
              desc="get_view: render_priority guarded by a non-raising except Exception")
    looks = [s for s in own_nodes(fn) if isinstance(s, ast.Subscript) and attr_chain(s.value) in ("self", "self._by_name") and isinstance(s.ctx, ast.Load)]
    ok = bool(looks)
    for s in looks:
        cur, prot = s, False
        while cur is not fn:
            par = cur._parent
            if isinstance(par, ast.Try) and cur in par.body:
                for h in par.handlers:
                    names = [last_attr(e) for e in (h.type.elts if isinstance(h.type, ast.Tuple) else [h.type])] if h.type is not None else ["BaseException"]
                    if set(names) & {"KeyError", "LookupError", "Exception", "BaseException"} and not any(isinstance(x, ast.Raise) for x in ast.walk(h)):
                        prot = True
            cur = par
        ok = ok and prot
    ctx.check(ok, "R50.1", W, "explicit view lookup not under a non-raising `except KeyError`", "an unknown view name raises instead of falling back to the best match",
              desc="get_view: unknown explicit view name falls back to automatic selection")


def eval_table_program(ctx):
    """Evaluate the module-level statements of strutils.py that build the _control_char_trans* tables. -> {name: dict}"""
    tree = ctx.model.module(STR).tree
    env: dict[str, dict] = {}

    def small(e, loc):
        if isinstance(e, ast.Constant):
            return e.value
        if isinstance(e, ast.Name) and e.id in loc:
            return loc[e.id]
        if isinstance(e, ast.Call) and call_name(e) == "ord" and len(e.args) == 1:
            return ord(small(e.args[0], loc))
        if isinstance(e, ast.BinOp) and isinstance(e.op, ast.Add):
            return small(e.left, loc) + small(e.right, loc)
        raise AnalysisError(f"{STR}: table expression not modelled: {norm(e)}")

    def dictcomp(e):
        ok = isinstance(e, ast.DictComp) and len(e.generators) == 1 and not e.generators[0].ifs and isinstance(e.generators[0].target, ast.Name) \
            and isinstance(e.generators[0].iter, ast.Call) and call_name(e.generators[0].iter) == "range"
        if not ok:
            raise AnalysisError(f"{STR}: table expression not modelled: {norm(e)}")
        var = e.generators[0].target.id
        rng = range(*[small(a, {}) for a in e.generators[0].iter.args])
        return {small(e.key, {var: x}): small(e.value, {var: x}) for x in rng}

    def mentions(st):
        return any(isinstance(n, ast.Name) and n.id.startswith("_control_char_trans") for n in ast.walk(st))

    for st in tree.body:
        if not mentions(st) or isinstance(st, (ast.FunctionDef, ast.AsyncFunctionDef, ast.ClassDef)):
            continue
        if isinstance(st, ast.Assign) and len(st.targets) == 1:
            t, v = st.targets[0], st.value
            if isinstance(t, ast.Name):
                if isinstance(v, ast.DictComp):
                    env[t.id] = dictcomp(v)
                elif isinstance(v, ast.Call) and isinstance(v.func, ast.Attribute) and v.func.attr == "copy" and attr_chain(v.func.value) in env:
                    env[t.id] = dict(env[attr_chain(v.func.value)])
                elif isinstance(v, ast.Call) and call_name(v) == "str.maketrans" and len(v.args) == 1 and attr_chain(v.args[0]) in env:
                    env[t.id] = dict(env[attr_chain(v.args[0])])
                elif isinstance(v, ast.Dict) and not v.keys:
                    env[t.id] = {}
                else:
                    raise AnalysisError(f"{STR}: table statement not modelled: {norm(st)}")
                continue
            if isinstance(t, ast.Subscript) and attr_chain(t.value) in env:
                env[attr_chain(t.value)][small(t.slice, {})] = small(v, {})
                continue
        if isinstance(st, ast.Expr) and isinstance(st.value, ast.Call) and isinstance(st.value.func, ast.Attribute) and st.value.func.attr == "update" \
                and attr_chain(st.value.func.value) in env and len(st.value.args) == 1:
            env[attr_chain(st.value.func.value)].update(dictcomp(st.value.args[0]))
            continue
        if isinstance(st, ast.For) and isinstance(st.target, ast.Name) and isinstance(st.iter, (ast.Tuple, ast.List)) and len(st.body) == 1 and isinstance(st.body[0], ast.Delete):
            for item in st.iter.elts:
                for t in st.body[0].targets:
                    ok = isinstance(t, ast.Subscript) and attr_chain(t.value) in env
                    if not ok:
                        raise AnalysisError(f"{STR}: table statement not modelled: {norm(st)}")
                    env[attr_chain(t.value)].pop(small(t.slice, {st.target.id: small(item, {})}), None)
            continue
        if isinstance(st, ast.Delete) and all(isinstance(t, ast.Subscript) and attr_chain(t.value) in env for t in st.targets):
            for t in st.targets:
                env[attr_chain(t.value)].pop(small(t.slice, {}), None)
            continue
        raise AnalysisError(f"{STR}: table statement not modelled: {norm(st)}")
    return env


def check_escape_semantics(ctx):
    """escape_control_characters interpreted from its AST (pyint, shared with C49 R49.2) on representatives of every combination of character
    classes - decides the sanitiser whatever it does around ``str.translate`` (fast paths, pre-checks, helpers)."""
    from ._helpers_G import control_character_domain
    from ._helpers_G import interpret_sanitiser

    fn = ctx.func(STR, "escape_control_characters")
    W = (STR, "escape_control_characters", fn)
    ks = params_of(fn)[1] if len(params_of(fn)) > 1 else None
    ctx.require(ks is not None and fn.args.defaults and isinstance(fn.args.defaults[-1], ast.Constant) and fn.args.defaults[-1].value is True,
                "escape_control_characters: keep_spacing (default True) parameter not found")
    res, _ = interpret_sanitiser(ctx.model, STR, "escape_control_characters", keep_kw=ks)
    leaked, example = res[True]  # prettify_message calls it with the default
    n_in = len(control_character_domain())
    ctx.cells += n_in
    groups = "/".join(g for g, hit in (("C0", any(c < 32 for c in leaked)), ("DEL", 127 in leaked), ("C1", any(128 <= c < 160 for c in leaked))) if hit)
    ctx.check(not leaked, "R50.1", W, f"escape_control_characters lets {groups} control characters through",
              f"escape_control_characters(keep_spacing=True) passes {len(leaked)} control code points through for some inputs, e.g. {example[0][:24]!r} -> {example[1][:24]!r}" if leaked else "",
              desc=f"escape_control_characters interpreted on {n_in} inputs (every C0 / DEL / C1 code point alone and embedded, every combination of classes): output free of control characters except TAB, LF, CR")


def check_escape_table(ctx):
    fn = ctx.func(STR, "escape_control_characters")
    W = (STR, "escape_control_characters", fn)
    env = eval_table_program(ctx)
    rets = [n for n in own_nodes(fn) if isinstance(n, ast.Return)]
    ok = len(rets) == 1 and isinstance(rets[0].value, ast.Call) and last_attr(rets[0].value.func) == "translate" and attr_chain(rets[0].value.func.value) == params_of(fn)[0] \
        and len(rets[0].value.args) == 1 and isinstance(rets[0].value.args[0], ast.Name)
    ctx.require(ok, f"escape_control_characters is no longer `return text.translate(<table>)`")
    tv = rets[0].value.args[0].id
    sel = [n.value for n in own_nodes(fn) if isinstance(n, ast.Assign) and isinstance(n.targets[0], ast.Name) and n.targets[0].id == tv]
    ks = params_of(fn)[1] if len(params_of(fn)) > 1 else None
    ctx.require(len(sel) == 1 and isinstance(sel[0], ast.IfExp) and attr_chain(sel[0].test) == ks and fn.args.defaults and isinstance(fn.args.defaults[-1], ast.Constant)
                and fn.args.defaults[-1].value is True, "escape_control_characters: table selection by keep_spacing (default True) not modelled")
    name = attr_chain(sel[0].body)
    ctx.require(name in env, f"escape_control_characters: table {name} not found among the module-level tables")
    table = env[name]
    must = [cp for cp in list(range(0, 32)) + [127] + list(range(128, 160)) if cp not in (9, 10, 13)]
    missing = [cp for cp in must if cp not in table]
    unsafe = [cp for cp in must if cp in table and not (isinstance(table[cp], int) and chr(table[cp]).isprintable())]
    ctx.cells += len(must)

    def fmt(cps):
        groups = []
        if any(c < 32 for c in cps):
            groups.append("C0")
        if 127 in cps:
            groups.append("DEL")
        if any(128 <= c < 160 for c in cps):
            groups.append("C1")
        return "/".join(groups)

    ctx.check(not missing and not unsafe, "R50.1", W, f"{name} leaves {fmt(missing + unsafe)} control characters untouched",
              f"escape_control_characters(keep_spacing=True) passes {len(missing + unsafe)} control code points through (e.g. U+{(missing + unsafe)[0]:04X})" if missing or unsafe else "",
              desc=f"{name}: all {len(must)} C0 / DEL / C1 code points except TAB, LF, CR are replaced by a printable character")
    ctx.note(f"{name}: code points kept among TAB / LF / CR: {[cp for cp in (9, 10, 13) if cp not in table]}")


# ---------------------------------------------------------------------------------------------------
# R50.2


def dataclass_fields(ctx, cls_name):
    cls = ctx.model.cls(DNS, cls_name)
    ctx.require(any(norm(d).startswith("dataclass") for d in cls.decorator_list), f"{cls_name} is not a dataclass any more")
    out = []
    for st in cls.body:
        if isinstance(st, ast.AnnAssign) and isinstance(st.target, ast.Name) and "ClassVar" not in norm(st.annotation):
            out.append(st.target.id)
    return out


def json_writes(ctx, cls_name):
    """key -> value node of the dict literal that to_json returns (directly or through a local)"""
    fn = ctx.func(DNS, f"{cls_name}.to_json")
    dicts = [n for n in own_nodes(fn) if isinstance(n, ast.Dict)]
    ctx.require(len(dicts) == 1 and all(isinstance(k, ast.Constant) for k in dicts[0].keys), f"{cls_name}.to_json: dict literal not modelled")
    out = {k.value: v for k, v in zip(dicts[0].keys, dicts[0].values)}
    for n in own_nodes(fn):
        if isinstance(n, ast.Assign) and isinstance(n.targets[0], ast.Subscript) and isinstance(n.targets[0].slice, ast.Constant):
            out[n.targets[0].slice.value] = n.value
    return fn, out


def json_reads(ctx, cls_name):
    """field -> value node of the cls(...) call in from_json ; plus all keys read from the data parameter"""
    fn = ctx.func(DNS, f"{cls_name}.from_json")
    ps = params_of(fn)
    ctor = [c for c in own_nodes(fn) if isinstance(c, ast.Call) and isinstance(c.func, ast.Name) and c.func.id == ps[0]]
    ctx.require(len(ctor) == 1 and not ctor[0].args and all(k.arg for k in ctor[0].keywords), f"{cls_name}.from_json: constructor call not modelled")
    fields = {k.arg: k.value for k in ctor[0].keywords}
    required, optional = set(), set()
    for n in own_nodes(fn):
        if isinstance(n, ast.Subscript) and isinstance(n.value, ast.Name) and n.value.id == ps[1] and isinstance(n.slice, ast.Constant):
            required.add(n.slice.value)
        elif isinstance(n, ast.Call) and attr_chain(n.func) == f"{ps[1]}.get" and n.args and isinstance(n.args[0], ast.Constant):
            optional.add(n.args[0].value)
        elif isinstance(n, ast.Assign) and isinstance(n.targets[0], ast.Attribute) and isinstance(n.targets[0].value, ast.Name):
            fields.setdefault("+" + n.targets[0].attr, n.value)
    return fn, ps[1], fields, required, optional


def keys_read(expr, data):
    return {n.slice.value for n in ast.walk(expr) if isinstance(n, ast.Subscript) and isinstance(n.value, ast.Name) and n.value.id == data and isinstance(n.slice, ast.Constant)}


def codec(expr, suffix):
    """module of an enclosing <m>.to_str / <m>.from_str call, or element-wise <Cls>.to_json / from_json"""
    for n in ast.walk(expr):
        if isinstance(n, ast.Call) and isinstance(n.func, ast.Attribute) and n.func.attr == suffix:
            return attr_chain(n.func.value)
    return None


def check_fields(ctx, cls_name, skip=(), lenient=()):
    fields = [f for f in dataclass_fields(ctx, cls_name) if f not in skip]
    wfn, writes = json_writes(ctx, cls_name)
    rfn, data, reads, required, optional = json_reads(ctx, cls_name)
    for f in fields:
        wkeys = [k for k, v in writes.items() if any(attr_chain(n) == f"self.{f}" for n in ast.walk(v) if isinstance(n, ast.Attribute))
                 and not any(isinstance(c, ast.Call) and attr_chain(c.func).endswith("http_equiv_status_code") for c in ast.walk(v))]
        rv = reads.get(f)
        where = (DNS, f"{cls_name}.from_json", rfn)
        if f in lenient:
            ok = f in required or any(f in keys_read(v, data) for v in reads.values())
            ctx.check(ok and any(("self._" + f + "_json") in norm(v) or f"self.{f}" in norm(v) for v in writes.values()), "R50.2", where, f"{cls_name}.{f} not carried through to_json / from_json",
                      f"record {f} is lost in the DNS view round-trip", desc=f"{cls_name}.{f}: written as '{f}', rebuilt from data['{f}'] (rdata codec not analysed)")
            continue
        rkeys = keys_read(rv, data) if rv is not None else set()
        if not wkeys or not rkeys:
            how = []
            if not wkeys:
                how.append("to_json does not write it")
            if rv is None:
                how.append("from_json does not set it")
            elif not rkeys:
                how.append(f"from_json sets {f}={norm(rv)}")
            ctx.fail("R50.2", where, f"{cls_name} field '{f}' is not carried through to_json/from_json ({'; '.join(how)})",
                     f"re-encoding an unedited DNS view rendering changes the {f} field of the message")
            continue
        common = set(wkeys) & rkeys
        if not common:
            ctx.fail("R50.2", where, f"{cls_name} field '{f}' is written as {sorted(wkeys)} but read from {sorted(rkeys)}", f"the {f} field is rebuilt from a different JSON key")
            continue
        k = sorted(common)[0]
        wc, rc = codec(writes[k], "to_str"), codec(rv, "from_str")
        wj, rj = codec(writes[k], "to_json") is not None, codec(rv, "from_json")
        ok = wc == rc and (wj == (rj is not None))
        ctx.check(ok, "R50.2", where, f"{cls_name} field '{f}': written with {wc or ('to_json' if wj else 'identity')}, read with {rc or (rj and rj + '.from_json') or 'identity'}",
                  f"the {f} field is encoded and decoded with different codecs", desc=f"{cls_name}.{f} <-> '{k}'" + (f" via {wc}.to_str/from_str" if wc else " via to_json/from_json" if wj else ""))
    return required, optional


def check_dns_view(ctx, required):
    fn = ctx.func(DNSV, "DNSContentview.prettify")
    deleted = set()
    for n in own_nodes(fn):
        if isinstance(n, ast.Delete):
            for t in n.targets:
                if isinstance(t, ast.Subscript) and isinstance(t.slice, ast.Constant):
                    deleted.add(t.slice.value)
                else:
                    raise AnalysisError(f"DNSContentview.prettify: {norm(n)} not modelled")
        elif isinstance(n, ast.Call) and isinstance(n.func, ast.Attribute) and n.func.attr in ("pop", "popitem", "clear") and isinstance(n.func.value, ast.Name):
            if n.func.attr != "pop" or not n.args or not isinstance(n.args[0], ast.Constant):
                raise AnalysisError(f"DNSContentview.prettify: {norm(n)} not modelled")
            deleted.add(n.args[0].value)
    lost = sorted(deleted & required)
    ctx.check(not lost, "R50.2", (DNSV, "DNSContentview.prettify", fn), f"DNS view removes {lost} from the rendering", "DNSMessage.from_json needs these keys: re-encoding the unedited rendering raises KeyError",
              desc=f"DNS view hides {sorted(deleted)}; none of them is needed by from_json")
    src = [c for c in own_nodes(fn) if isinstance(c, ast.Call) and norm(c.func).endswith(".to_json")]
    ctx.require(len(src) == 1 and norm(src[0].func.value).startswith("DNSMessage.unpack("), "DNSContentview.prettify no longer renders DNSMessage.unpack(data).to_json()")
    re_fn = ctx.func(DNSV, "DNSContentview.reencode")
    ctx.require(any(isinstance(c, ast.Call) and call_name(c) == "DNSMessage.from_json" for c in own_nodes(re_fn)), "DNSContentview.reencode no longer uses DNSMessage.from_json")


def check(ctx):
    ctx.rule("R50.1", "prettify_message returns only escaped or constant text, runs view code under except Exception with a total raw fallback; get_view is "
             "exception-safe; the escape table covers C0, DEL, C1 except TAB/LF/CR")
    ctx.rule("R50.2", "every DNSMessage / Question / ResourceRecord field is written by to_json and read back by from_json with matching codecs; the DNS view "
             "hides no key from_json needs")
    check_prettify_message(ctx)
    check_get_view(ctx)
    check_escape_semantics(ctx)
    try:
        check_escape_table(ctx)
    except AnalysisError as e:
        ctx.note(f"R50.1 structural reading of the escape table not available ({e}); the interpreted sanitiser is the decision")
    required, _ = check_fields(ctx, "DNSMessage", skip=("timestamp",))
    check_fields(ctx, "Question")
    check_fields(ctx, "ResourceRecord", lenient=("data",))
    check_dns_view(ctx, required)
    ctx.assume("timestamp is capture metadata, not part of the DNS message (the DNS view hides it)")
    ctx.trust("str.translate / str.maketrans; bytes.decode with a non-strict error handler never raises")
    others = [f for f in ctx.findings if "'reserved'" not in f.construct]
    if not others:
        ctx.expect_instances("R50.1", 6)
        ctx.expect_instances("R50.2", 12 + 3 + 5 + 1)


MUTANTS = [
    Mutant("escape-dropped", CV, "    ret.text = strutils.escape_control_characters(ret.text)\n", "", "R50.1"),
    Mutant("error-path-returns-unescaped", CV, "                description=enc,\n            )\n\n    ret.text", "                description=enc,\n            )\n            return ret\n\n    ret.text", "R50.1"),
    Mutant("text-extended-after-escape", CV, "    ret.text = strutils.escape_control_characters(ret.text)\n    return ret", "    ret.text = strutils.escape_control_characters(ret.text)\n    ret.text = ret.text + enc\n    return ret", "R50.1"),
    Mutant("view-errors-only-valueerror", CV, "    except Exception as e:\n        logger.debug(f\"Contentview", "    except ValueError as e:\n        logger.debug(f\"Contentview", "R50.1"),
    Mutant("raw-view-strict-decode", RAW, "return data.decode(\"utf-8\", \"backslashreplace\")", "return data.decode(\"utf-8\")", "R50.1"),
    Mutant("render-priority-unguarded", REGF, "            except Exception:\n                logger.exception(f\"Error in {view.name}.render_priority\")", "            except AssertionError:\n                logger.exception(f\"Error in {view.name}.render_priority\")", "R50.1"),
    Mutant("unknown-view-name-raises", REGF, "            except KeyError:\n                logger.warning(", "            except KeyError:\n                raise\n                logger.warning(", "R50.1"),
    Mutant("revert-fix-c1-controls-pass", STR, "_control_char_trans.update({x: ord(\".\") for x in range(128, 160)})  # C1 controls\n", "", "R50.1"),
    Mutant("fast-path-regex-without-c1", STR, "    trans = _control_char_trans_newline if keep_spacing else _control_char_trans\n    return text.translate(trans)",
           "    if not re.search(r\"[\\x00-\\x1f\\x7f]\", text):\n        return text\n    trans = _control_char_trans_newline if keep_spacing else _control_char_trans\n    return text.translate(trans)", "R50.1"),
    Mutant("fast-path-short-text-unchanged", STR, "    trans = _control_char_trans_newline if keep_spacing else _control_char_trans\n    return text.translate(trans)",
           "    if len(text) < 2:\n        return text\n    trans = _control_char_trans_newline if keep_spacing else _control_char_trans\n    return text.translate(trans)", "R50.1"),
    Mutant("del-passes", STR, "_control_char_trans[127] = ord(\".\")  # 0x2421\n", "", "R50.1"),
    Mutant("truncation-not-written", DNS, "            \"truncation\": self.truncation,\n", "", "R50.2"),
    Mutant("recursion-desired-hardcoded", DNS, "            recursion_desired=data[\"recursion_desired\"],", "            recursion_desired=False,", "R50.2"),
    Mutant("op-code-decoded-with-wrong-table", DNS, "op_code=op_codes.from_str(data[\"op_code\"]),", "op_code=response_codes.from_str(data[\"op_code\"]),", "R50.2"),
    Mutant("authorities-read-from-answers", DNS, "ResourceRecord.from_json(x) for x in data[\"authorities\"]", "ResourceRecord.from_json(x) for x in data[\"answers\"]", "R50.2"),
    Mutant("rr-ttl-dropped", DNS, "            ttl=data[\"ttl\"],", "            ttl=cls.DEFAULT_TTL,", "R50.2"),
    Mutant("question-class-not-written", DNS, "            \"type\": types.to_str(self.type),\n            \"class\": classes.to_str(self.class_),\n        }\n\n    @classmethod\n    def from_json(cls, data: dict[str, str]) -> Self:",
           "            \"type\": types.to_str(self.type),\n        }\n\n    @classmethod\n    def from_json(cls, data: dict[str, str]) -> Self:", "R50.2"),
    Mutant("dns-view-hides-id", DNSV, "        message.pop(\"timestamp\", None)", "        message.pop(\"timestamp\", None)\n        message.pop(\"id\", None)", "R50.2"),
]
