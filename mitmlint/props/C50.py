"""C50 - content views always render safely; the DNS view re-encodes faithfully (decided by interpretation).

How: ``prettify_message``, ``ContentviewRegistry.get_view``, ``RawContentview``, ``strutils.escape_control_characters`` and the DNS view with
``DNSMessage / Question / ResourceRecord .to_json / .from_json`` are *interpreted from their AST* (``XInterp`` = pyint; nothing of the
repository is imported or run) in concrete worlds and the observable results compared with what the property says - so renamed locals, inverted
branches, ``match``, extracted helpers, temporaries, added logging / assertions / annotations are interpreted like the original.

  R50.1 safe rendering.  World: a registry (the repository's class) holding the repository's raw view, a view whose ``prettify`` returns text
        with every C0 / DEL / C1 control character, views whose ``prettify`` raises (21 built-in exception classes from ValueError to MemoryError and
        a plain Exception - with hostile message text and traceback text), views whose
        ``render_priority`` raises / returns a non-number; messages without content, with text, with control characters, with undecodable
        bytes, an HTTP message with a hostile content-encoding; the view chosen automatically, explicitly, by an unknown name.
        Decided for every world: ``prettify_message`` returns (no exception escapes) an object whose ``text`` is a str without control characters
        other than TAB / LF / CR; ``get_view`` returns a registered view whenever one view has a working ``render_priority``.
        In addition the sanitiser itself: ``escape_control_characters`` interpreted (shared with C49 R49.2) on every C0 / DEL / C1 code point
        alone and embedded and on every combination of character classes; and - when it still is ``return text.translate(<table>)`` - the
        table evaluated structurally from the module-level statements.
  R50.2 DNS view round trip.  For messages covering both values of every flag, known and unknown op / response codes, types and classes,
        TTL 0, several distinct records per section and A / AAAA / CNAME / TXT / opaque record data: ``X.from_json(X.to_json())`` gives back
        every dataclass field of DNSMessage, Question and ResourceRecord (``timestamp`` excepted), and so does the DNS view's
        ``reencode(prettify(data))`` with ``DNSMessage.unpack`` yielding the message and the YAML codec being the identity (trusted).
        *Reports the known defect F-C50: ``reserved`` is not written and from_json hard-codes reserved=0.*
NOT decided: that each individual view terminates / returns str (they are covered through the ``except Exception`` wrapper only); the YAML
round trip; control characters inside DNS names (the escaped rendering is not what reencode receives unedited); malformed record data.
"""

from __future__ import annotations

import ast

from ..core import AnalysisError
from ..core import norm
from ..model import attr_chain
from ..model import call_name
from ..model import last_attr
from ..pyint import ClassRef
from ..pyint import DictRec
from ..pyint import Raised
from ..pyint import Rec
from ..selftest import Mutant
from ._helpers_F import own_nodes
from ._helpers_F import params_of
from ._helpers_xi import abstract_ok
from ._helpers_xi import ExcStr
from ._helpers_xi import RaiseOnRead
from ._helpers_xi import Stub
from ._helpers_xi import trusted_stdlib
from ._helpers_xi import XInterp

PROP = "C50"
REG = {
    "strength": "partial",
    "technique": "interpretation of prettify_message / get_view / the raw view / escape_control_characters and of the DNS view with to_json / from_json "
    "(AST interpreter, helpers followed) in concrete worlds: hostile view output, raising views, undecodable bytes, DNS messages covering every field",
    "claim": "in every world prettify_message returns text free of control characters except TAB/LF/CR and no view exception escapes it or get_view; "
    "escape_control_characters covers C0, DEL and C1; the DNS view's prettify -> reencode gives back every DNSMessage / Question / ResourceRecord "
    "field except `reserved` (known finding F-C50).",
    "note": "Bounded: finite families of worlds. Individual views are covered only through the `except Exception` wrapper. Trusted: str.translate, "
    "bytes.decode error handlers, the YAML codec (modelled as the identity), sys.exc_info / traceback (modelled as hostile text).",
}

CV = "mitmproxy/contentviews/__init__.py"
REGF = "mitmproxy/contentviews/_registry.py"
RAW = "mitmproxy/contentviews/_view_raw.py"
DNSV = "mitmproxy/contentviews/_view_dns.py"
API = "mitmproxy/contentviews/_api.py"
STR = "mitmproxy/utils/strutils.py"
DNS = "mitmproxy/dns.py"
LAYER = "mitmproxy/proxy/layers/dns.py"
CTXF = "mitmproxy/ctx.py"

CONTROL = frozenset(range(0, 32)) | {127} | frozenset(range(128, 160))
ALLOWED = frozenset({9, 10, 13})
HOSTILE = "".join(chr(c) for c in sorted(CONTROL))
HOSTILE_TEXT = "head \x1b[2J\x00 " + HOSTILE + " tail\ttab\nline\r\n\x9b31m"
EXCEPTIONS = ("ValueError", "KeyError", "Exception", "IndexError", "TypeError", "AssertionError", "UnicodeDecodeError", "RuntimeError", "NotImplementedError", "OSError", "ZeroDivisionError",
              "AttributeError", "LookupError", "ArithmeticError", "RecursionError", "StopIteration", "UnicodeEncodeError", "EOFError", "OverflowError", "ImportError", "MemoryError")
PRIMARY = 3  # the first exceptions are crossed with every body and traceback shape, the others with one


def leaked(text: str) -> list:
    return sorted({ord(c) for c in text if ord(c) in CONTROL and ord(c) not in ALLOWED})


def classes_of(cps) -> str:
    return "/".join(g for g, hit in (("C0", any(c < 32 for c in cps)), ("DEL", 127 in cps), ("C1", any(128 <= c < 160 for c in cps))) if hit)


# ---------------------------------------------------------------------------------------------------
# the world of R50.1


class TbObj(Stub):
    """a traceback object: a chain of frames named after the functions they run"""

    _what = "traceback object"

    def __init__(self, names):
        object.__setattr__(self, "_names", list(names))

    @property
    def tb_next(self):
        return TbObj(self._names[1:]) if len(self._names) > 1 else None

    @property
    def tb_lineno(self):
        return 1

    def __eq__(self, other):
        return isinstance(other, TbObj) and other._names == self._names

    def __ne__(self, other):
        return not self.__eq__(other)

    __hash__ = None


class SysStub(Stub):
    _what = "sys"

    def __init__(self, world):
        object.__setattr__(self, "_w", world)

    def exc_info(self):
        r = self._w.it.handled()
        if r is None:
            return (None, None, None)
        return (f"<class {r.name}>", ExcStr(r.name, r.msg or self._w.it.exc_text(r.name)), TbObj(self._w.frames))

    def exception(self):
        r = self._w.it.handled()
        return None if r is None else ExcStr(r.name, r.msg or self._w.it.exc_text(r.name))


class TracebackStub(Stub):
    """traceback: every formatting function yields hostile text (file names, source lines and exception messages are data)"""

    _what = "traceback"

    def __init__(self, world):
        object.__setattr__(self, "_w", world)

    def _lines(self, tb=True):
        r = self._w.it.handled()
        name = r.name if r is not None else "Exception"
        out = ["Traceback (most recent call last):\n", '  File "/tmp/\x1b]0;evil\x07.py", line 1, in prettify\n    x = "\x9b2J"\n'] if tb else []
        return out + [f"{name}: could not parse \x1b[31m\x00\x7f\x85 {HOSTILE}\n"]

    def format_exception(self, *a, **k):
        return self._lines()

    def format_exception_only(self, *a, **k):
        return self._lines(tb=False)

    def format_exc(self, *a, **k):
        return "".join(self._lines())

    def format_tb(self, *a, **k):
        return self._lines()[:-1]

    def extract_tb(self, tb, limit=None):
        return [("/tmp/f.py", 1, n, "line") for n in (tb._names if isinstance(tb, TbObj) else [])]

    def print_exc(self, *a, **k):
        return None

    print_exception = print_exc


class World:
    """one interpreter per world family: registry of the repository's class, stub views, the repository's raw view"""

    def __init__(self, model):
        self.model = model
        t = trusted_stdlib()
        t["sys"] = SysStub(self)
        t["traceback"] = TracebackStub(self)
        t["warnings"] = _Warnings()
        self.it = XInterp(model, trusted_modules=t)
        self.it.exc_text = lambda name: f"bad input \x1b[0m\x00\x9d {HOSTILE}"
        self.it.exc_traceback = lambda: TbObj(self.frames)
        self.it.overrides[(CTXF, "options")] = Rec("Options", _name="ctx.options", protobuf_definitions=None)
        self.frames = ["prettify_message", "prettify"]
        self.raw = None

    def raw_view(self):
        """the repository's fallback view: the object bound to the name ``raw`` that contentviews/__init__.py imports"""
        if self.raw is None:
            mod = self.model.module(CV)
            names = [n for n, tgt in mod.imports.items() if tgt.endswith("_view_raw.raw")]
            if not names:
                raise AnalysisError(f"{CV}: the raw fallback view is no longer imported from _view_raw")
            self.raw = self.it.module_global(CV, names[0])
            if not (isinstance(self.raw, Rec) and self.raw._impl is not None):
                raise AnalysisError(f"{RAW}: `raw` does not evaluate to an instance of a repository class: {self.raw!r}")
        return self.raw

    def view(self, name, text=None, exc=None, prio=1.0, prio_exc=None):
        def prettify(data, metadata):
            if exc:
                raise Raised(exc, f"cannot prettify \x1b[1m\x00\x8f {HOSTILE}")
            return text

        def render_priority(data, metadata):
            if prio_exc:
                raise Raised(prio_exc, "priority failed")
            return prio

        return Rec("Contentview", _name=f"view {name}", name=name, syntax_highlight="none", prettify=abstract_ok(prettify), render_priority=abstract_ok(render_priority))

    def registry(self, views):
        cls = self.registry_class()
        return Rec(cls[1], _impl=cls, _name="registry", _by_name={v.name.lower() if not isinstance(v, Rec) or "name" in v.__dict__ else "raw": v for v in views})

    def registry_class(self):
        """the class of the module-level ``registry`` of contentviews/__init__.py"""
        mod = self.model.module(CV)
        vals = mod.assigns("registry")
        if vals and isinstance(vals[-1], ast.Call):
            r = self.model.resolve_name(mod, vals[-1].func)
            if r is not None and isinstance(r[1], ast.ClassDef):
                return (r[0].rel, getattr(r[1], "_qual", r[1].name))
        raise AnalysisError(f"{CV}: `registry = <RegistryClass>()` not found")


class _Warnings(Stub):
    _what = "warnings"

    def warn(self, *a, **k):
        return None


def tcp_message(content):
    return Rec("TCPMessage", _name="message", content=content, from_client=True, timestamp=0.0)


def http_message(content, raw_content, encoding):
    return Rec("Response", _bases=("Message",), _name="message", content=content, raw_content=raw_content, headers=DictRec("Headers", {"content-encoding": encoding, "content-type": "text/plain"}, case_insensitive=True),
               status_code=200, http_version="HTTP/1.1", trailers=None, timestamp_start=0.0)


def undecodable_http_message(raw_content):
    return Rec("Response", _bases=("Message",), _name="message", content=RaiseOnRead("ValueError", "cannot decode"), raw_content=raw_content,
               headers=DictRec("Headers", {"content-encoding": "gz\x1bip"}, case_insensitive=True), status_code=200, http_version="HTTP/1.1", trailers=None, timestamp_start=0.0)


DATA = [b"plain text", b"ctl \x1b[2J\x00\x07\x7f \xc2\x9b end", b"\xff\xfe\x80 undecodable \x1b\x00", b""]
FLOW = Rec("TCPFlow", _bases=("Flow",), _name="flow", id="f", type="tcp", metadata={}, server_conn=Rec("Server", address=("example.com", 53), peername=None), client_conn=Rec("Client", peername=None))


def check_prettify_message(ctx):
    fn = ctx.func(CV, "prettify_message")
    W = (CV, "prettify_message", fn)
    w = World(ctx.model)
    it = w.it
    raw = w.raw_view()
    params = params_of(fn)
    ctx.require(len(params) >= 3, f"prettify_message no longer takes (message, flow, view_name, registry): {params}")
    runs = []  # (description, message, view_name, registry)
    nasty = w.view("Nasty", text=HOSTILE_TEXT, prio=5.0)
    calm = w.view("Calm", text="fine", prio=0.5)
    for data in DATA:
        msg = tcp_message(data)
        for mode in ("auto", "explicit", "explicit, other case"):
            vn = {"auto": "auto", "explicit": "nasty", "explicit, other case": "NaStY"}[mode]
            runs.append((f"hostile view output, {mode}, data {data[:12]!r}", msg, vn, w.registry([raw, calm, nasty])))
        for exc in EXCEPTIONS if data is DATA[2] else EXCEPTIONS[:PRIMARY]:
            broken = w.view("Broken", exc=exc, prio=9.0)
            runs.append((f"view raises {exc}, auto, data {data[:12]!r}", msg, "auto", w.registry([raw, calm, broken]), ["prettify_message", "prettify"]))
            for frames in (["prettify_message", "prettify"], ["prettify_message"], ["outer", "prettify_message", "prettify", "inner"])[: 3 if exc in EXCEPTIONS[:PRIMARY] else 1]:
                runs.append((f"view raises {exc}, explicit, traceback {len(frames)} frames, data {data[:12]!r}", msg, "broken", w.registry([raw, calm, broken]), frames))
        runs.append((f"raw view, explicit, data {data[:12]!r}", msg, "raw", w.registry([raw, calm])))
        runs.append((f"unknown view name, data {data[:12]!r}", msg, "no-such-view", w.registry([raw, calm, nasty])))
        runs.append((f"a view's render_priority raises, auto, data {data[:12]!r}", msg, "auto", w.registry([raw, nasty, w.view("BadPrio", text="x", prio_exc="ValueError")])))
    runs.append(("message without content", tcp_message(None), "auto", w.registry([raw, nasty])))
    runs.append(("HTTP message, hostile content-encoding, hostile view", http_message(b"decoded \x1b", b"raw", "gz\x1b\x00\x9bip"), "auto", w.registry([raw, nasty])))
    runs.append(("HTTP message, hostile content-encoding, view raises", http_message(b"decoded \x1b", b"raw", "gz\x1b\x00\x9bip"), "auto", w.registry([raw, w.view("Broken", exc="ValueError", prio=9.0)])))
    runs.append(("HTTP message, hostile content-encoding, explicit view raises", http_message(b"decoded \x1b", b"raw", "gz\x1b\x00\x9bip"), "broken", w.registry([raw, w.view("Broken", exc="ValueError", prio=9.0)])))
    runs.append(("HTTP message that cannot be decoded", undecodable_http_message(b"\x1f\x8b\x00 \x1b"), "auto", w.registry([raw, nasty])))

    bad: dict = {}
    n_ok = n_escaped = n_fallback = n_error = 0
    for run in runs:
        desc, msg, vn, reg = run[:4]
        w.frames = run[4] if len(run) > 4 else ["prettify_message", "prettify"]
        it.steps = 0
        kwargs = {params[2]: vn} if len(params) > 2 else {}
        if len(params) > 3:
            kwargs[params[3]] = reg
        o = it.outcome(lambda: it.call(CV, "prettify_message", msg, FLOW, **kwargs))
        ctx.paths += 1
        if o[0] == "raise":
            bad.setdefault(("raises", f"prettify_message: an exception escapes"), []).append(f"{desc}: {o[1]}")
            continue
        res = o[1]
        text = res.__dict__.get("text") if isinstance(res, Rec) else None
        if not isinstance(text, str):
            raise AnalysisError(f"prettify_message: the interpreted result is not an object with a str `text` ({desc}): {res!r}")
        cps = leaked(text)
        if cps:
            bad.setdefault(("control", "prettify_message: control characters reach the returned text"), []).append(f"{desc}: {classes_of(cps)} e.g. U+{cps[0]:04X} in {text[:40]!r}")
            continue
        n_ok += 1
        if "head" in text and "tail" in text:
            n_escaped += 1
        if "undecodable" in text or "plain text" in text or "ctl" in text:
            n_fallback += 1
        if "could not parse" in text or "bad input" in text or "cannot prettify" in text:
            n_error += 1
    for (kind, construct), examples in bad.items():
        why = "an exception raised by a content view (or by the fallback) escapes prettify_message" if kind == "raises" else "control characters reach the UI / terminal"
        ctx.fail("R50.1", W, construct, f"{why}: {examples[0]} [{len(examples)} of {len(runs)} worlds: {'; '.join(e.split(':')[0] for e in examples[:5])}]", worlds=examples[:30])
    if not bad:
        ctx.require(n_escaped >= 3 and n_fallback >= 3 and n_error >= 3, f"prettify_message worlds: the hostile view output ({n_escaped}), the raw fallback ({n_fallback}) or the error display ({n_error}) were not exercised (world model out of date)")
        ctx.ok("R50.1", f"prettify_message: {len(runs)} worlds - hostile view output is returned escaped ({n_escaped}), a raising view falls back to the raw view / an error text ({n_fallback} / {n_error}), nothing escapes")
        ctx.ok("R50.1", f"prettify_message: the raw fallback ({raw._impl[1]}.prettify) renders undecodable bytes without raising")
    return w


def check_get_view(ctx, w):
    fn = ctx.func(REGF, "ContentviewRegistry.get_view")
    W = (REGF, "ContentviewRegistry.get_view", fn)
    it = w.it
    params = params_of(fn)
    meta = Rec("Metadata", _name="metadata", flow=None, content_type=None, http_message=None, tcp_message=None, udp_message=None, websocket_message=None, dns_message=None, protobuf_definitions=None, original_data=None)
    good, best = w.view("Good", text="g", prio=1.0), w.view("Best", text="b", prio=7.5)
    runs = []
    for exc in EXCEPTIONS:
        failing = w.view("Failing", text="f", prio_exc=exc)
        runs.append((f"render_priority raises {exc}", "prio", "auto", [failing, good, best, w.view("Last", text="l", prio_exc=exc)]))
    runs.append(("render_priority returns a str", "prio", "auto", [w.view("Odd", text="o", prio="high"), good]))
    runs.append(("render_priority returns None", "prio", "auto", [good, w.view("Odd", text="o", prio=None)]))
    runs.append(("all priorities work", "plain", "auto", [good, best]))
    runs.append(("explicit name", "plain", "best", [good, best]))
    runs.append(("explicit name, other case", "plain", "BEST", [good, best]))
    runs.append(("unknown name", "name", "nope", [good, best]))
    runs.append(("unknown name, a render_priority raises", "name", "nope", [w.view("Failing", text="f", prio_exc="ValueError"), good]))
    bad: dict = {}
    for desc, kind, vn, views in runs:
        reg = w.registry(views)
        it.steps = 0
        o = it.outcome(lambda: it.method(reg, "get_view", b"data", meta, vn))
        ctx.paths += 1
        if o[0] == "raise":
            if kind == "name":
                bad.setdefault(("get_view: raises for an unknown view name", "an unknown view name raises instead of falling back to the best match"), []).append(f"{desc}: {o[1]}")
            else:
                bad.setdefault(("get_view: raises when a view's render_priority fails", "a broken view makes automatic view selection raise for every message"), []).append(f"{desc}: {o[1]}")
        elif not any(o[1] is v for v in views):
            bad.setdefault(("get_view: does not return a registered view", "the caller renders with something that is not a content view"), []).append(f"{desc}: {o[1]!r}")
    for (construct, why), examples in bad.items():
        ctx.fail("R50.1", W, construct, f"{why}: {examples[0]} [{len(examples)} worlds]", worlds=examples[:20])
    if not any("render_priority" in c for c, _ in bad):
        ctx.ok("R50.1", f"get_view: a raising / ill-typed render_priority ({len(EXCEPTIONS)} exception classes) does not stop automatic selection")
    if not any("unknown" in c for c, _ in bad):
        ctx.ok("R50.1", "get_view: unknown explicit view name falls back to automatic selection")


def eval_table_program(ctx):
    """Evaluate the module-level statements of strutils.py that build the _control_char_trans* tables. -> {name: dict}"""
    tree = ctx.model.module(STR).tree
    env: dict[str, dict] = {}

    def small(e, loc):
        if isinstance(e, ast.Constant):
            return e.value
        if isinstance(e, ast.Name) and e.id in loc:
            return loc[e.id]
        if isinstance(e, ast.Call) and call_name(e) == "ord" and len(e.args) == 1:
            return ord(small(e.args[0], loc))
        if isinstance(e, ast.BinOp) and isinstance(e.op, ast.Add):
            return small(e.left, loc) + small(e.right, loc)
        raise AnalysisError(f"{STR}: table expression not modelled: {norm(e)}")

    def dictcomp(e):
        ok = isinstance(e, ast.DictComp) and len(e.generators) == 1 and not e.generators[0].ifs and isinstance(e.generators[0].target, ast.Name) \
            and isinstance(e.generators[0].iter, ast.Call) and call_name(e.generators[0].iter) == "range"
        if not ok:
            raise AnalysisError(f"{STR}: table expression not modelled: {norm(e)}")
        var = e.generators[0].target.id
        rng = range(*[small(a, {}) for a in e.generators[0].iter.args])
        return {small(e.key, {var: x}): small(e.value, {var: x}) for x in rng}

    def mentions(st):
        return any(isinstance(n, ast.Name) and n.id.startswith("_control_char_trans") for n in ast.walk(st))

    for st in tree.body:
        if not mentions(st) or isinstance(st, (ast.FunctionDef, ast.AsyncFunctionDef, ast.ClassDef)):
            continue
        if isinstance(st, ast.Assign) and len(st.targets) == 1:
            t, v = st.targets[0], st.value
            if isinstance(t, ast.Name):
                if isinstance(v, ast.DictComp):
                    env[t.id] = dictcomp(v)
                elif isinstance(v, ast.Call) and isinstance(v.func, ast.Attribute) and v.func.attr == "copy" and attr_chain(v.func.value) in env:
                    env[t.id] = dict(env[attr_chain(v.func.value)])
                elif isinstance(v, ast.Call) and call_name(v) == "str.maketrans" and len(v.args) == 1 and attr_chain(v.args[0]) in env:
                    env[t.id] = dict(env[attr_chain(v.args[0])])
                elif isinstance(v, ast.Dict) and not v.keys:
                    env[t.id] = {}
                else:
                    raise AnalysisError(f"{STR}: table statement not modelled: {norm(st)}")
                continue
            if isinstance(t, ast.Subscript) and attr_chain(t.value) in env:
                env[attr_chain(t.value)][small(t.slice, {})] = small(v, {})
                continue
        if isinstance(st, ast.Expr) and isinstance(st.value, ast.Call) and isinstance(st.value.func, ast.Attribute) and st.value.func.attr == "update" \
                and attr_chain(st.value.func.value) in env and len(st.value.args) == 1:
            env[attr_chain(st.value.func.value)].update(dictcomp(st.value.args[0]))
            continue
        if isinstance(st, ast.For) and isinstance(st.target, ast.Name) and isinstance(st.iter, (ast.Tuple, ast.List)) and len(st.body) == 1 and isinstance(st.body[0], ast.Delete):
            for item in st.iter.elts:
                for t in st.body[0].targets:
                    ok = isinstance(t, ast.Subscript) and attr_chain(t.value) in env
                    if not ok:
                        raise AnalysisError(f"{STR}: table statement not modelled: {norm(st)}")
                    env[attr_chain(t.value)].pop(small(t.slice, {st.target.id: small(item, {})}), None)
            continue
        if isinstance(st, ast.Delete) and all(isinstance(t, ast.Subscript) and attr_chain(t.value) in env for t in st.targets):
            for t in st.targets:
                env[attr_chain(t.value)].pop(small(t.slice, {}), None)
            continue
        raise AnalysisError(f"{STR}: table statement not modelled: {norm(st)}")
    return env


def check_escape_semantics(ctx):
    """escape_control_characters interpreted from its AST (pyint, shared with C49 R49.2) on representatives of every combination of character
    classes - decides the sanitiser whatever it does around ``str.translate`` (fast paths, pre-checks, helpers)."""
    from ._helpers_G import control_character_domain
    from ._helpers_G import interpret_sanitiser

    fn = ctx.func(STR, "escape_control_characters")
    W = (STR, "escape_control_characters", fn)
    ks = params_of(fn)[1] if len(params_of(fn)) > 1 else None
    if ks is None:
        # (no spacing switch any more: the worlds of prettify_message, whose hostile view output holds every control code point, are the decision)
        ctx.note("escape_control_characters has no second (keep_spacing) parameter: decided through the prettify_message worlds only")
        return
    res, _ = interpret_sanitiser(ctx.model, STR, "escape_control_characters", keep_kw=ks)
    leaked, example = res[True]  # prettify_message calls it with the default
    n_in = len(control_character_domain())
    ctx.cells += n_in
    groups = "/".join(g for g, hit in (("C0", any(c < 32 for c in leaked)), ("DEL", 127 in leaked), ("C1", any(128 <= c < 160 for c in leaked))) if hit)
    ctx.check(not leaked, "R50.1", W, f"escape_control_characters lets {groups} control characters through",
              f"escape_control_characters(keep_spacing=True) passes {len(leaked)} control code points through for some inputs, e.g. {example[0][:24]!r} -> {example[1][:24]!r}" if leaked else "",
              desc=f"escape_control_characters interpreted on {n_in} inputs (every C0 / DEL / C1 code point alone and embedded, every combination of classes): output free of control characters except TAB, LF, CR")


def check_escape_table(ctx):
    fn = ctx.func(STR, "escape_control_characters")
    W = (STR, "escape_control_characters", fn)
    env = eval_table_program(ctx)
    rets = [n for n in own_nodes(fn) if isinstance(n, ast.Return)]
    ok = len(rets) == 1 and isinstance(rets[0].value, ast.Call) and last_attr(rets[0].value.func) == "translate" and attr_chain(rets[0].value.func.value) == params_of(fn)[0] \
        and len(rets[0].value.args) == 1 and isinstance(rets[0].value.args[0], ast.Name)
    ctx.require(ok, f"escape_control_characters is no longer `return text.translate(<table>)`")
    tv = rets[0].value.args[0].id
    sel = [n.value for n in own_nodes(fn) if isinstance(n, ast.Assign) and isinstance(n.targets[0], ast.Name) and n.targets[0].id == tv]
    ks = params_of(fn)[1] if len(params_of(fn)) > 1 else None
    ctx.require(len(sel) == 1 and isinstance(sel[0], ast.IfExp) and attr_chain(sel[0].test) == ks and fn.args.defaults and isinstance(fn.args.defaults[-1], ast.Constant)
                and fn.args.defaults[-1].value is True, "escape_control_characters: table selection by keep_spacing (default True) not modelled")
    name = attr_chain(sel[0].body)
    ctx.require(name in env, f"escape_control_characters: table {name} not found among the module-level tables")
    table = env[name]
    must = [cp for cp in list(range(0, 32)) + [127] + list(range(128, 160)) if cp not in (9, 10, 13)]
    missing = [cp for cp in must if cp not in table]
    unsafe = [cp for cp in must if cp in table and not (isinstance(table[cp], int) and chr(table[cp]).isprintable())]
    ctx.cells += len(must)

    def fmt(cps):
        groups = []
        if any(c < 32 for c in cps):
            groups.append("C0")
        if 127 in cps:
            groups.append("DEL")
        if any(128 <= c < 160 for c in cps):
            groups.append("C1")
        return "/".join(groups)

    ctx.check(not missing and not unsafe, "R50.1", W, f"{name} leaves {fmt(missing + unsafe)} control characters untouched",
              f"escape_control_characters(keep_spacing=True) passes {len(missing + unsafe)} control code points through (e.g. U+{(missing + unsafe)[0]:04X})" if missing or unsafe else "",
              desc=f"{name}: all {len(must)} C0 / DEL / C1 code points except TAB, LF, CR are replaced by a printable character")
    ctx.note(f"{name}: code points kept among TAB / LF / CR: {[cp for cp in (9, 10, 13) if cp not in table]}")


# ---------------------------------------------------------------------------------------------------
# R50.2


def dataclass_fields(ctx, cls_name):
    """[(name, annotation text)] of the dataclass fields (ClassVars excepted), in order"""
    cls = ctx.model.cls(DNS, cls_name)
    ctx.require(any(norm(d).startswith("dataclass") for d in cls.decorator_list), f"{cls_name} is not a dataclass any more")
    out = []
    for st in cls.body:
        if isinstance(st, ast.AnnAssign) and isinstance(st.target, ast.Name) and "ClassVar" not in norm(st.annotation):
            out.append((st.target.id, norm(st.annotation)))
    return out


class YamlText(str):
    """what the (trusted, identity) YAML codec renders: the text stands for exactly this value"""

    def __new__(cls, value):
        s = str.__new__(cls, f"<yaml rendering of {len(value) if hasattr(value, '__len__') else 1} entries>")
        s.value = value
        return s


def _deep(v):
    if isinstance(v, dict):
        return {k: _deep(x) for k, x in v.items()}
    if isinstance(v, (list, tuple)):
        return [_deep(x) for x in v]
    return v


class DnsInterp(XInterp):
    """XInterp with the three library boundaries of the DNS view: ``DNSMessage.unpack`` / ``unpack_from`` yield the world's message, the YAML
    codec (functions built on ruamel.yaml's ``YAML().dump`` / ``.load``) is the identity, ``pack_message`` / ``DNSMessage.packed`` record
    the message that is being serialised."""

    def __init__(self, model):
        XInterp.__init__(self, model, trusted_modules=trusted_stdlib())
        self.message = None
        self.packed_msgs: list = []
        self._roles: dict = {}

    def role(self, f):
        k = id(f.node)
        if k not in self._roles:
            r = None
            node, mod = f.node, f.mod
            name = getattr(node, "name", "")
            qual = getattr(node, "_qual", name)
            if mod.rel == DNS and qual in ("DNSMessage.unpack", "DNSMessage.unpack_from"):
                r = name
            elif mod.rel == DNS and qual == "DNSMessage.packed":
                r = "packed"
            elif mod.rel == LAYER and qual == "pack_message":
                r = "pack_message"
            elif isinstance(node, ast.FunctionDef) and any(t.startswith("ruamel") for t in mod.imports.values()):
                uses_yaml = any(isinstance(c, ast.Call) and mod.imports.get(last_attr(c.func), "").startswith("ruamel") for c in ast.walk(node))
                attrs = {c.func.attr for c in ast.walk(node) if isinstance(c, ast.Call) and isinstance(c.func, ast.Attribute)}
                if uses_yaml and "dump" in attrs:
                    r = "yaml_dump"
                elif uses_yaml and "load" in attrs:
                    r = "yaml_load"
            self._roles[k] = r
        return self._roles[k]

    def call_func(self, f, args, kwargs, depth):
        r = self.role(f)
        if r is None:
            return XInterp.call_func(self, f, args, kwargs, depth)
        vals = list(args) + list(kwargs.values())
        if r == "unpack":
            return self.message
        if r == "unpack_from":
            data = next((v for v in vals if isinstance(v, (bytes, bytearray))), b"")
            return (len(data), self.message)
        if r == "yaml_dump":
            v = next((v for v in vals if isinstance(v, (dict, list))), None)
            if v is None:
                raise AnalysisError("DNS view: the YAML dump is handed something that is not the JSON value of the message (not modelled)")
            return YamlText(_deep(v))
        if r == "yaml_load":
            v = next((v for v in vals if isinstance(v, str)), None)
            if not isinstance(v, YamlText):
                raise AnalysisError("DNS view: the text given to the YAML loader is not the unedited rendering (post-processed: not modelled)")
            return _deep(v.value)
        msg = next((v for v in vals if isinstance(v, Rec) and v._cls == "DNSMessage"), None)
        if msg is None:
            raise AnalysisError(f"DNS view: {r} is not handed a DNSMessage")
        self.packed_msgs.append(msg)
        return b"<packed message>"


A, NS, CNAME, TXT, AAAA = 1, 2, 5, 16, 28


def rr_worlds():
    """(name, type, class, ttl, data) covering TTL 0, known / unknown types and classes, the record data codecs"""
    return [
        ("a.example.com", A, 1, 0, bytes([192, 0, 2, 1])),
        ("aaaa.example.com", AAAA, 1, 300, bytes(range(16))),
        ("alias.example.com", CNAME, 1, 60, b"\x06target\x07example\x03com\x00"),
        ("txt.example.com", TXT, 3, 77, "text é \"quoted\"".encode()),
        ("opaque.example.com", 999, 254, 4294967295, b"\x00\xff\x10"),
        ("ns.example.com", NS, 4, 1, b"\x02ns\x07example\x03com\x00"),
        ("empty.example.com", 15, 1, 5, b""),
    ]


def question_worlds():
    return [("example.com", A, 1), ("xn--bcher-kva.example", AAAA, 3), ("q.example", 65280, 65535), ("", TXT, 255)]


def build(it, model, cls_name, **fields):
    return it.call_value(ClassRef(model.module(DNS), model.cls(DNS, cls_name)), **fields)


def message_worlds(ctx, it):
    """DNSMessage records: every dataclass field gets at least two different values over the family"""
    m = ctx.model
    fields = dataclass_fields(ctx, "DNSMessage")
    qs = [build(it, m, "Question", name=n, type=t, class_=c) for n, t, c in question_worlds()]
    mk = lambda rows: [build(it, m, "ResourceRecord", name=n, type=t, class_=c, ttl=ttl, data=d) for n, t, c, ttl, d in rows]  # noqa: E731
    rows = rr_worlds()
    out = []
    for k in range(4):
        vals = {}
        n_int = n_bool = n_list = 0
        for name, ann in fields:
            if name == "timestamp":
                vals[name] = [None, 1700000000.5, None, 12.25][k]
            elif ann == "bool":
                vals[name] = [True, False, bool(n_bool % 2), not (n_bool % 2)][k]
                n_bool += 1
            elif ann == "int":
                # id / op_code / reserved / response_code ...: small values that are valid for every header field; known and unknown code points
                vals[name] = [0, [4660, 9, 5, 3, 6, 2][n_int % 6], [65535, 2, 7, 23, 1, 4][n_int % 6], [1, 5, 0, 0, 3, 1][n_int % 6]][k]
                n_int += 1
            elif ann == "list[Question]":
                vals[name] = [qs[:1], qs[1:], [], qs][k]
            elif ann == "list[ResourceRecord]":
                part = [[rows[:1], rows[1:3], rows[3:5]], [rows[5:], rows[:2], rows[2:]], [[], [], []], [rows[4:6], [], rows[:1]]][k][n_list % 3]
                vals[name] = mk(part)
                n_list += 1
            else:
                raise AnalysisError(f"DNSMessage.{name}: {ann}: a field of a type the R50.2 world model does not know (extend message_worlds)")
        out.append(build(it, m, "DNSMessage", **vals))
    return fields, out


def plain(v):
    """comparable value of a record / list of records"""
    if isinstance(v, Rec):
        return {k: plain(x) for k, x in v.__dict__.items() if not k.startswith("_")}
    if isinstance(v, (list, tuple)):
        return [plain(x) for x in v]
    if isinstance(v, bytearray):
        return bytes(v)
    return v


def check_codec(ctx, it, cls_name, instances, skip=()):
    """X.from_json(X.to_json()) field by field.  -> set of field names reported"""
    m = ctx.model
    rfn = ctx.func(DNS, f"{cls_name}.from_json")
    ctx.func(DNS, f"{cls_name}.to_json")
    where = (DNS, f"{cls_name}.from_json", rfn)
    cref = ClassRef(m.module(DNS), m.cls(DNS, cls_name))
    from_json = it.getattr(cref, "from_json", None, 0)
    fields = [f for f, _ in dataclass_fields(ctx, cls_name) if f not in skip]
    pairs = []
    for inst in instances:
        it.steps = 0
        o = it.outcome(lambda: it.method(inst, "to_json"))
        if o[0] == "raise":
            ctx.fail("R50.2", (DNS, f"{cls_name}.to_json", ctx.func(DNS, f"{cls_name}.to_json")), f"{cls_name}.to_json raises {o[1]}", f"rendering {plain(inst)} raises {o[1]}")
            return set(fields)
        if not isinstance(o[1], dict):
            raise AnalysisError(f"{cls_name}.to_json does not evaluate to a dict: {o[1]!r}")
        j = o[1]
        o2 = it.outcome(lambda: it.call_value(from_json, _deep(j)))
        if o2[0] == "raise":
            ctx.fail("R50.2", where, f"{cls_name}.from_json raises {o2[1]} on what to_json produced", f"from_json({j}) raises {o2[1]}: the unedited rendering cannot be re-encoded")
            return set(fields)
        if not isinstance(o2[1], Rec):
            raise AnalysisError(f"{cls_name}.from_json does not evaluate to a record: {o2[1]!r}")
        pairs.append((inst, j, o2[1]))
    reported = set()
    for f in fields:
        diffs = [(plain(a.__dict__.get(f)), plain(b.__dict__.get(f, "<unset>"))) for a, j, b in pairs if plain(a.__dict__.get(f)) != plain(b.__dict__.get(f, "<unset>"))]
        if not diffs:
            ctx.ok("R50.2", f"{cls_name}.{f}: to_json -> from_json gives it back ({len(pairs)} instances, {len({repr(plain(a.__dict__.get(f))) for a, _, _ in pairs})} distinct values)")
            continue
        reported.add(f)
        # why: does the rendering depend on the field at all / is the rebuilt value a constant?
        base = pairs[0][0]
        other = next((a for a, _, _ in pairs if plain(a.__dict__.get(f)) != plain(base.__dict__.get(f))), None)
        how = []
        if other is not None:
            twin = Rec(base._cls, _bases=base._bases, _impl=base._impl, **{k: v for k, v in base.__dict__.items() if not k.startswith("_")})
            object.__setattr__(twin, f, other.__dict__.get(f))
            oj = it.outcome(lambda: it.method(twin, "to_json"))
            if oj[0] == "ok" and oj[1] == pairs[0][1]:
                how.append("to_json does not write it")
        backs = {repr(plain(b.__dict__.get(f, "<unset>"))) for _, _, b in pairs}
        if len(backs) == 1 and len({repr(plain(a.__dict__.get(f))) for a, _, _ in pairs}) > 1:
            how.append(f"from_json sets {f}={next(iter(backs))}")
        if not how:
            how.append(f"{diffs[0][0]!r} comes back as {diffs[0][1]!r}")
        ctx.fail("R50.2", where, f"{cls_name} field '{f}' is not carried through to_json/from_json ({'; '.join(how)})",
                 f"re-encoding an unedited DNS view rendering changes the {f} field of the message ({len(diffs)} of {len(pairs)} instances, e.g. {diffs[0][0]!r} -> {diffs[0][1]!r})")
    return reported


def dns_view(ctx, it):
    """the interactive view defined in _view_dns.py (whatever it is called), instantiated"""
    mod = ctx.model.module(DNSV)
    cands = [d for q, d in mod.defs().items() if isinstance(d, ast.ClassDef) and {"prettify", "reencode"} <= {s.name for s in d.body if isinstance(s, ast.FunctionDef)}]
    ctx.require(len(cands) == 1, f"{DNSV}: expected exactly one class with prettify and reencode, found {[c.name for c in cands]}")
    ctx.functions.add(f"{DNSV}::{cands[0].name}.prettify")
    ctx.functions.add(f"{DNSV}::{cands[0].name}.reencode")
    return cands[0], it.call_value(ClassRef(mod, cands[0]))


def check_dns_view(ctx, it, fields, messages, already):
    cls, view = dns_view(ctx, it)
    meta_cls = ClassRef(ctx.model.module(API), ctx.model.cls(API, "Metadata"))
    Wp = (DNSV, f"{cls.name}.prettify", cls)
    names = [f for f, _ in fields if f != "timestamp" and f not in already]
    bad: dict = {}
    n = 0
    for transport in ("udp", "tcp", "http"):
        for msg in messages:
            meta = it.call_value(meta_cls)
            if transport != "udp":
                object.__setattr__(meta, f"{transport}_message", Rec("TCPMessage" if transport == "tcp" else "Request", _name="carrier"))
            else:
                object.__setattr__(meta, "udp_message", Rec("UDPMessage", _name="carrier"))
            it.message, it.packed_msgs, it.steps = msg, [], 0
            it.log, it.log_enabled = [], True
            o = it.outcome(lambda: it.method(view, "prettify", b"\x00\x2a<wire format>", meta))
            if o[0] == "raise":
                bad.setdefault(f"DNS view: prettify raises {o[1]}", []).append(transport)
                continue
            if not isinstance(o[1], YamlText):
                raise AnalysisError(f"DNS view: prettify does not return the YAML rendering of the message's JSON value unchanged (not modelled): {o[1]!r}")
            o2 = it.outcome(lambda: it.method(view, "reencode", o[1], meta))
            it.log_enabled = False
            n += 1
            if o2[0] == "raise":
                lost = sorted(set(plain(msg)) - set(o[1].value)) if isinstance(o[1].value, dict) else []
                bad.setdefault(f"DNS view: re-encoding the unedited rendering raises {o2[1]}", []).append(f"{transport}: rendering has the keys {sorted(o[1].value) if isinstance(o[1].value, dict) else '?'}")
                continue
            back = it.packed_msgs[-1] if it.packed_msgs else next((res for _, rel, q, res in reversed(it.log) if rel == DNS and q == "DNSMessage.from_json" and isinstance(res, Rec)), None)
            if back is None:
                raise AnalysisError("DNS view: reencode neither serialises a DNSMessage nor calls DNSMessage.from_json (not modelled)")
            for f in names:
                if plain(msg.__dict__.get(f)) != plain(back.__dict__.get(f, "<unset>")):
                    bad.setdefault(f"DNS view: prettify -> reencode changes DNSMessage.{f}", []).append(f"{transport}: {plain(msg.__dict__.get(f))!r} -> {plain(back.__dict__.get(f, '<unset>'))!r}")
    for construct, ex in bad.items():
        ctx.fail("R50.2", Wp, construct, f"re-encoding the unedited rendering of the DNS view does not give the message back: {ex[0]} [{len(ex)} worlds]")
    if not bad:
        ctx.ok("R50.2", f"DNS view ({cls.name}): reencode(prettify(data)) gives back {len(names)} header fields / sections for {n} (message, transport) worlds")


def check_dns(ctx):
    it = DnsInterp(ctx.model)
    m = ctx.model
    qs = [build(it, m, "Question", name=n, type=t, class_=c) for n, t, c in question_worlds()]
    rrs = [build(it, m, "ResourceRecord", name=n, type=t, class_=c, ttl=ttl, data=d) for n, t, c, ttl, d in rr_worlds()]
    fields, messages = message_worlds(ctx, it)
    reported = check_codec(ctx, it, "Question", qs)
    reported |= check_codec(ctx, it, "ResourceRecord", rrs)
    sections = tuple(f for f, ann in fields if ann.startswith("list[")) if reported else ()  # (a field lost inside the records is reported there, once)
    top = check_codec(ctx, it, "DNSMessage", messages, skip=("timestamp",) + sections)
    check_dns_view(ctx, it, fields, messages, top | set(sections))
    ctx.cells += len(qs) + len(rrs) + len(messages) * 4


def check(ctx):
    ctx.rule("R50.1", "in every world (hostile view output, raising views, undecodable bytes, hostile error text) prettify_message returns text without control "
             "characters other than TAB/LF/CR and no exception escapes it; get_view survives failing views and unknown names; the sanitiser covers C0, DEL, C1")
    ctx.rule("R50.2", "to_json -> from_json and the DNS view's prettify -> reencode give back every DNSMessage / Question / ResourceRecord field")
    # (guarded: a violation found by one part takes precedence over a construct another part cannot model)
    w = ctx.guard(check_prettify_message, ctx)
    ctx.guard(check_get_view, ctx, w or World(ctx.model))
    ctx.guard(check_escape_semantics, ctx)
    try:
        check_escape_table(ctx)
    except (AnalysisError, TypeError, ValueError, KeyError, AttributeError, IndexError) as e:  # (a table shape the structural reading does not know)
        ctx.note(f"R50.1 structural reading of the escape table not available ({e}); the interpreted sanitiser is the decision")
    ctx.guard(check_dns, ctx)
    ctx.assume("timestamp is capture metadata, not part of the DNS message (the DNS view hides it)")
    ctx.assume("views, messages and metadata behave like mitmproxy's Contentview / message / Metadata API for the attributes the interpreted code reads (world model in C50.py)")
    ctx.trust("str.translate / str.maketrans; bytes.decode with a non-strict error handler never raises; the YAML codec round-trips JSON values")
    others = [f for f in ctx.findings if "'reserved'" not in f.construct]
    if not others:
        ctx.expect_instances("R50.1", 4)
        ctx.expect_instances("R50.2", 12 + 3 + 5 + 1)


MUTANTS = [
    Mutant("escape-dropped", CV, "    ret.text = strutils.escape_control_characters(ret.text)\n", "", "R50.1"),
    Mutant("error-path-returns-unescaped", CV, "                description=enc,\n            )\n\n    ret.text", "                description=enc,\n            )\n            return ret\n\n    ret.text", "R50.1"),
    Mutant("text-extended-after-escape", CV, "    ret.text = strutils.escape_control_characters(ret.text)\n    return ret", "    ret.text = strutils.escape_control_characters(ret.text)\n    ret.text = ret.text + enc\n    return ret", "R50.1"),
    Mutant("escape-skipped-for-error-display", CV, "    ret.text = strutils.escape_control_characters(ret.text)\n    return ret",
           "    if ret.syntax_highlight != \"error\":\n        ret.text = strutils.escape_control_characters(ret.text)\n    return ret", "R50.1"),
    Mutant("view-errors-only-valueerror", CV, "    except Exception as e:\n        logger.debug(f\"Contentview", "    except ValueError as e:\n        logger.debug(f\"Contentview", "R50.1"),
    Mutant("raw-view-strict-decode", RAW, "return data.decode(\"utf-8\", \"backslashreplace\")", "return data.decode(\"utf-8\")", "R50.1"),
    Mutant("render-priority-unguarded", REGF, "            except Exception:\n                logger.exception(f\"Error in {view.name}.render_priority\")", "            except AssertionError:\n                logger.exception(f\"Error in {view.name}.render_priority\")", "R50.1"),
    Mutant("unknown-view-name-raises", REGF, "            except KeyError:\n                logger.warning(", "            except KeyError:\n                raise\n                logger.warning(", "R50.1"),
    Mutant("revert-fix-c1-controls-pass", STR, "_control_char_trans.update({x: ord(\".\") for x in range(128, 160)})  # C1 controls\n", "", "R50.1"),
    Mutant("fast-path-regex-without-c1", STR, "    trans = _control_char_trans_newline if keep_spacing else _control_char_trans\n    return text.translate(trans)",
           "    if not re.search(r\"[\\x00-\\x1f\\x7f]\", text):\n        return text\n    trans = _control_char_trans_newline if keep_spacing else _control_char_trans\n    return text.translate(trans)", "R50.1"),
    Mutant("fast-path-short-text-unchanged", STR, "    trans = _control_char_trans_newline if keep_spacing else _control_char_trans\n    return text.translate(trans)",
           "    if len(text) < 2:\n        return text\n    trans = _control_char_trans_newline if keep_spacing else _control_char_trans\n    return text.translate(trans)", "R50.1"),
    Mutant("del-passes", STR, "_control_char_trans[127] = ord(\".\")  # 0x2421\n", "", "R50.1"),
    Mutant("truncation-not-written", DNS, "            \"truncation\": self.truncation,\n", "", "R50.2"),
    Mutant("recursion-desired-hardcoded", DNS, "            recursion_desired=data[\"recursion_desired\"],", "            recursion_desired=False,", "R50.2"),
    Mutant("op-code-decoded-with-wrong-table", DNS, "op_code=op_codes.from_str(data[\"op_code\"]),", "op_code=response_codes.from_str(data[\"op_code\"]),", "R50.2"),
    Mutant("authorities-read-from-answers", DNS, "ResourceRecord.from_json(x) for x in data[\"authorities\"]", "ResourceRecord.from_json(x) for x in data[\"answers\"]", "R50.2"),
    Mutant("rr-ttl-dropped", DNS, "            ttl=data[\"ttl\"],", "            ttl=cls.DEFAULT_TTL,", "R50.2"),
    Mutant("rr-ttl-zero-replaced", DNS, "            ttl=data[\"ttl\"],", "            ttl=data.get(\"ttl\") or cls.DEFAULT_TTL,", "R50.2"),
    Mutant("question-class-not-written", DNS, "            \"type\": types.to_str(self.type),\n            \"class\": classes.to_str(self.class_),\n        }\n\n    @classmethod\n    def from_json(cls, data: dict[str, str]) -> Self:",
           "            \"type\": types.to_str(self.type),\n        }\n\n    @classmethod\n    def from_json(cls, data: dict[str, str]) -> Self:", "R50.2"),
    Mutant("dns-view-hides-id", DNSV, "        message.pop(\"timestamp\", None)", "        message.pop(\"timestamp\", None)\n        message.pop(\"id\", None)", "R50.2"),
    Mutant("dns-view-truncates-answers", DNSV, "        message.pop(\"timestamp\", None)", "        message.pop(\"timestamp\", None)\n        message[\"answers\"] = message[\"answers\"][:1]", "R50.2"),
]
