"""C26 - forwarded DNS messages keep their meaning.

Decided:
  R26.1  `record_data_can_have_compression` is *evaluated* (concrete interpretation of its AST) for every RR type
         number of net/dns/types.py plus unassigned / private-use numbers: it may answer True only for the types whose
         RDATA may carry *compressed* names on the wire - the closed set of RFC 3597 s.4: the RFC 1035 well-known types
         with a <domain-name> plus RP AFSDB RT SIG PX NXT NAPTR SRV (table MAY_BE_COMPRESSED below, with the sources).
         => any other type gets opaque bytes rewritten: TXT, HINFO, A, AAAA, unknown ... (F-C26, repaired), and also the
         later types that embed a name which MUST NOT be compressed (KX, DNAME, RRSIG, NSEC, ...), where the byte scan
         can only hit signature / bitmap octets (judged this strictly while the expansion routine is not given the record
         type, see R26.4; a layout-aware routine may be asked about any name-bearing type).  It must answer True for the RFC 1035 well-known types and SRV
         (MUST_BE_EXPANDED) => otherwise compressed names are forwarded with dangling pointers.
  R26.2  symbolic path analysis of `DNSMessage.unpack_from.unpack_rrs` (offsets as linear terms): on every path that
         appends a record, RDATA is `buffer[o:o+len]` (o = right after the RR header, len = header's length field) when the
         predicate is False for *this record's* type, and the decompression routine applied to exactly that window when
         it is True; the next record starts at o+len; type/class/ttl come from the header fields in order.
  R26.3  repack identity: DNSLayer.handle_request / handle_response send `pack_message(<the unpacked message object or
         flow.request/response it was stored in>)` to the server / client; state_query hands them the elements of
         `unpack_message(event.data, ..)`; pack_message = `message.packed` with, for TCP, a length prefix in the same
         2-byte big-endian format the reader uses; `DNSMessage.packed` emits each record's header with len(rr.data) followed
         by rr.data itself, sections in wire order.
  R26.4  information-flow necessity (F-C26b, NOT repaired, known finding): if the predicate is True both for a type whose
         RDATA starts with a name (CNAME/NS/PTR) and for one that starts with / contains integer fields (MX, SRV, SOA ...),
         the rewriting routine must depend on the record type - a type-agnostic byte scan cannot tell the pointer
         `C0 0C` of a CNAME from the SRV port 49164.
  R26.5  finite evaluation of the expansion routine itself: `decompress_from_record_data` and everything it calls
         (`unpack_from_with_compression`, `_unpack_label_into`, `pack`) are *interpreted from their ASTs* (pyint; `struct`
         and the idna codec are the trusted base) on small, realistic response messages - one per distinct RDATA layout of
         the types the predicate answers True for (name; name name; name name u32*5; u16 name; u16 name name; u16*3 name;
         NAPTR; SIG; NXT), x numeric field values (zero / typical small values such as MX preference 10, SRV priority 10
         weight 5, SOA timers / values with a different small octet in every position), x name forms (pointer to the question
         name; labels + pointer into an earlier record's RDATA, itself ending in a pointer; uncompressed; punycode label +
         pointer; for SOA also: pointer to an internationalised owner name / to the root name followed by a second compressed
         name - F-C26c, repaired, findings/F-C26c/repro.py), with an empty name cache and with the cache the message parser has filled at that point.  The result must be
         the RDATA with every name replaced by its uncompressed wire form and every other octet unchanged (computed here by
         an independent reference walk over the layout).  => otherwise a compressed name is forwarded with a dangling /
         retargeted pointer or numeric fields are damaged: the receiver reads a different record.
         Octets >= 0xC0 outside names are NOT sampled: that is the type-agnostic-scan defect reported by R26.4 (F-C26b).
NOT decided: value-level codec round trip for all messages (C25), idna, what addons do to a message.
"""

from __future__ import annotations

import ast
import struct

from ..core import AnalysisError
from ..core import norm
from ..model import attr_chain
from ..model import last_attr
from ..model import walk_in_order
from ..paths import C
from ..paths import is_const
from ..paths import State
from ..paths import traces_of
from ..paths import UNKNOWN
from ..pyint import Interp
from ..pyint import Raised as IRaised
from ..selftest import Mutant
from ._helpers_D import attr_of
from ._helpers_D import call_args
from ._helpers_D import Concrete
from ._helpers_D import int_constants
from ._helpers_D import last_attr_name
from ._helpers_D import lin_add
from ._helpers_D import Raised
from ._helpers_D import same
from ._helpers_D import SendSpec
from ._helpers_D import show
from ._helpers_D import sym
from ._helpers_D import SymSpec
from ._helpers_D import unhook

PROP = "C26"
REG = {
    "strength": "partial",
    "technique": "finite evaluation of the compression predicate over all RR types; interpretation (pyint) of the RDATA expansion routine on sample "
    "records of every RDATA layout in the table against an independent reference expansion; symbolic (linear-offset) path analysis of the record "
    "parser; provenance of the bytes sent by DNSLayer; information-flow necessity for per-type RDATA layouts",
    "claim": "only RR types whose RDATA may carry compressed names (RFC 3597 s.4) are ever rewritten and the RFC 1035 types + SRV always are; on the sampled "
    "records the expansion routine expands exactly the names (pointer chains, IDN / root targets, numeric fields in front) and changes nothing else; for all other types RDATA is the exact wire slice; the layer repacks the very "
    "message object it unpacked; framing prefix formats agree; packed() emits rr.data verbatim. Reports (known finding F-C26b) that the "
    "RDATA rewriting routine is type-agnostic although the table mixes name-first and integer-first layouts.",
    "note": "Reference set = RR types whose RDATA may carry compressed names per RFC 3597 section 4 (RFC 1035 well-known types + RP AFSDB RT SIG PX NXT "
    "NAPTR SRV), part of the rule (IANA numbers). struct / idna are trusted library behaviour.",
}

DN = "mitmproxy/net/dns/domain_names.py"
TYPES = "mitmproxy/net/dns/types.py"
DNS = "mitmproxy/dns.py"
LAYER = "mitmproxy/proxy/layers/dns.py"

# Mnemonics of the RR types that carry a domain name somewhere in their RDATA (IANA number -> mnemonic; used for messages
# and for the layout classes of R26.4 only - NOT the reference set of R26.1).
NAME_BEARING = {
    2: "NS", 3: "MD", 4: "MF", 5: "CNAME", 6: "SOA", 7: "MB", 8: "MG", 9: "MR", 12: "PTR", 14: "MINFO", 15: "MX", 17: "RP", 18: "AFSDB",
    21: "RT", 23: "NSAP-PTR", 24: "SIG", 26: "PX", 30: "NXT", 33: "SRV", 35: "NAPTR", 36: "KX", 38: "A6", 39: "DNAME", 45: "IPSECKEY", 46: "RRSIG",
    47: "NSEC", 55: "HIP", 58: "TALINK", 64: "SVCB", 65: "HTTPS", 107: "LP", 249: "TKEY", 250: "TSIG", 260: "AMTRELAY",
}
# Reference table of R26.1.  Source: RFC 3597 section 4 ("Domain Name Compression"), which closes the set for good:
#   * "only the RR types defined in [RFC1035] are to be considered well-known" - senders may compress names in their RDATA,
#     receivers MUST decompress them.  Of the RFC 1035 section 3.3 types those with a <domain-name> in the RDATA are
#     NS MD MF CNAME SOA MB MG MR PTR MINFO MX                                                     -> WELL_KNOWN_1035
#   * receivers "SHOULD also decompress RRs of type RP, AFSDB, RT, SIG, PX, NXT, NAPTR, and SRV" (older specifications
#     allowed / RFC 2052 mandated compression there)                                                -> LEGACY_3597
#   * every other type, existing or future, "MUST NOT allow the use of name compression"; the defining RFCs repeat it for
#     the types that do embed a name: KX (RFC 2230 s.3), DNAME (RFC 2672 s.3 / RFC 6672 s.2.5), RRSIG and NSEC (RFC 4034
#     s.3.1.7, s.4.1.1: "A sender MUST NOT use DNS name compression on the Signer's Name / Next Domain Name field"),
#     A6, IPSECKEY, HIP, SVCB/HTTPS (RFC 9460 s.2.2), TSIG/TKEY ...
# A conforming sender therefore never puts a compression pointer into the RDATA of a type outside MAY_BE_COMPRESSED:
# nothing there needs expanding, and because the expansion routine is a byte scan (F-C26b) answering True for such a
# type can only rewrite opaque octets (signatures, type bitmaps, keys) that happen to look like `C0 xx`.
WELL_KNOWN_1035 = {2: "NS", 3: "MD", 4: "MF", 5: "CNAME", 6: "SOA", 7: "MB", 8: "MG", 9: "MR", 12: "PTR", 14: "MINFO", 15: "MX"}
LEGACY_3597 = {17: "RP", 18: "AFSDB", 21: "RT", 24: "SIG", 26: "PX", 30: "NXT", 35: "NAPTR", 33: "SRV"}
MAY_BE_COMPRESSED = {**WELL_KNOWN_1035, **LEGACY_3597}
# Types the predicate MUST answer True for (else compressed names in their RDATA are forwarded with dangling pointers, because
# re-packing moves every offset): the RFC 1035 well-known types (receivers MUST decompress) plus SRV, which the property names
# explicitly and which deployed (RFC 2052-style, mDNS) senders do compress.
MUST_BE_EXPANDED = {**WELL_KNOWN_1035, 33: "SRV"}
# layouts that begin with a domain name and nothing else before it
NAME_FIRST = {2, 3, 4, 5, 7, 8, 9, 12, 39}
# layouts with integer / opaque fields somewhere in the RDATA (so some offsets must NOT be read as names)
HAS_NON_NAME_FIELDS = {6, 15, 18, 21, 24, 26, 30, 33, 35, 36, 38, 45, 46, 47, 55, 64, 65, 249, 250, 260}
PROBES = {0: "reserved", 16: "TXT", 13: "HINFO", 1: "A", 28: "AAAA", 10: "NULL", 41: "OPT", 48: "DNSKEY", 43: "DS", 99: "SPF", 257: "CAA",
          65280: "private use", 65534: "private use", 4242: "unassigned"}


def module_resolver(model, rel):
    mod = model.module(rel)
    cache: dict = {}

    def resolve(dotted):
        if dotted in cache:
            return cache[dotted]
        head, _, rest = dotted.partition(".")
        if rest and head in mod.imports:
            target = model.module_by_dotted(mod.imports[head])
            if target is not None and "." not in rest:
                consts = int_constants(model, target.rel)
                if rest in consts:
                    cache[dotted] = consts[rest]
                    return consts[rest]
        if not rest:
            vals = mod.assigns(head)
            if len(vals) == 1:
                v = Concrete(resolve).expr(vals[0], {})
                cache[dotted] = v
                return v
        raise KeyError(dotted)

    return resolve


# ---------------------------------------------------------------------------------------------------


class RRSpec(SymSpec):
    """symbolic execution of unpack_rrs: append events and predicate events with symbolic operands"""

    def stmt_events(self, stmt, st, depth):
        out = []
        if isinstance(stmt, ast.Expr) and isinstance(stmt.value, ast.Call):
            f = stmt.value.func
            if isinstance(f, ast.Attribute) and f.attr == "append" and len(stmt.value.args) == 1:
                out.append(("append", self.value(f.value, st, depth), self.value(stmt.value.args[0], st, depth)))
        return out

    def cond_event(self, expr, value, st):
        if isinstance(expr, ast.Call) and last_attr(expr.func) == "record_data_can_have_compression" and len(expr.args) == 1:
            return ("pred", self.value(expr.args[0], st, self._depth), value)
        return None


def rr_fields(model) -> list[str]:
    cls = model.cls(DNS, "ResourceRecord")
    out = []
    for st in cls.body:
        if isinstance(st, ast.AnnAssign) and isinstance(st.target, ast.Name) and "ClassVar" not in ast.unparse(st.annotation):
            out.append(st.target.id)
    return out


def strip_bytes(v):
    if isinstance(v, tuple) and v and v[0] == "call" and v[1] in ("bytes", "bytearray") and len(v[2]) == 1:
        return v[2][0]
    return v


def contains(v, needle) -> bool:
    if v == needle:
        return True
    if isinstance(v, tuple):
        return any(contains(x, needle) for x in v)
    return False


def check_r261(ctx, type_aware=False):
    m = ctx.model
    fn = ctx.func(DN, "record_data_can_have_compression")
    resolve = module_resolver(m, DN)
    types = int_constants(m, TYPES)
    ctx.require(len(types) >= 80, f"{TYPES}: only {len(types)} integer constants found")
    numbers = {num: name for name, num in types.items()}
    for num, name in PROBES.items():
        numbers.setdefault(num, name)
    true_types = set()
    for num in sorted(numbers):
        try:
            r = Concrete(resolve).call(fn, num)
        except Raised as e:
            raise AnalysisError(f"record_data_can_have_compression({num}) raises {e.name}")
        ctx.cells += 1
        if not isinstance(r, bool):
            raise AnalysisError(f"record_data_can_have_compression({num}) evaluates to non-bool {r!r}")
        if r:
            true_types.add(num)
            if num in NAME_BEARING:
                why = (f"RDATA of {numbers[num]} embeds a domain name, but RFC 3597 s.4 (and the RFC defining {numbers[num]}) forbids compressing it, so no sender puts a pointer "
                       "there; the type-agnostic byte scan can only hit the opaque octets around the name (signature, type bitmap, key, preference) that look like "
                       "`C0 xx` and replace them by an expanded name: the record is not forwarded byte-for-byte")
            else:
                why = (f"RDATA of {numbers[num]} is opaque (no domain name defined in it): bytes that look like a compression pointer (0xC0..) are rewritten when the "
                       "message is forwarded")
            # a rewriting routine that is told the record type can confine itself to the name field(s) of the layout: there a
            # (forbidden, hence absent) pointer is never found and the opaque octets are not looked at - harmless
            allowed = MAY_BE_COMPRESSED if not type_aware else NAME_BEARING
            ctx.check(
                num in allowed, "R26.1", (DN, "record_data_can_have_compression", fn),
                f"record type {numbers[num]} ({num}) is treated as containing compressible names", why,
                desc=f"{numbers[num]}({num}) -> True, RDATA may carry compressed names (RFC 3597 s.4)",
            )
    ctx.require(true_types, "record_data_can_have_compression is False for every type: name-bearing records would keep dangling pointers")
    for num, name in sorted(MUST_BE_EXPANDED.items()):
        ctx.require(num in numbers, f"{TYPES}: RR type {name} ({num}) is not defined any more")
        ctx.check(
            num in true_types, "R26.1", (DN, "record_data_can_have_compression", fn),
            f"record type {name} ({num}) is not treated as containing compressible names",
            f"senders do compress the names in {name} RDATA (RFC 1035 s.4.1.4 / RFC 3597 s.4: receivers MUST decompress them); kept as a raw slice the pointer is forwarded "
            "unexpanded while re-packing moves every offset, so the receiver reads a different name",
            desc=f"{name}({num}) -> True as required",
        )
    ctx.note(f"R26.1 evaluated the predicate for {len(numbers)} type numbers; True for {sorted(true_types)}")
    return true_types


def check_r262(ctx):
    """-> list of symbolic decompression calls seen on predicate-True paths (for R26.4)"""
    m = ctx.model
    fn = ctx.func(DNS, "DNSMessage.unpack_from.unpack_rrs")
    helper = ctx.func(DNS, "DNSMessage.unpack_from.unpack_domain_name")
    shared = set()
    for f in (fn, helper):
        for n in ast.walk(f):
            if isinstance(n, ast.Nonlocal):
                shared.update(n.names)
    ctx.require({"buffer", "offset"} <= shared, "unpack_rrs no longer shares buffer/offset with unpack_from via nonlocal")
    spec = RRSpec(shared=shared | {"cached_names"}, inline_map={"unpack_domain_name": helper})
    traces, eng = traces_of(fn, spec)
    ctx.paths += len(traces)
    fields = rr_fields(m)
    ctx.require(fields == ["name", "type", "class_", "ttl", "data"], f"ResourceRecord fields changed: {fields}")
    where = (DNS, "DNSMessage.unpack_from.unpack_rrs", fn)
    rewriters = []
    seen = {"slice": 0, "rewrite": 0}
    for trace, how, st in traces:
        apps = [e for e in trace if e[0] == "append"]
        if not apps:
            continue
        if how != "return":
            continue
        ctx.require(len(apps) == 1, f"unpack_rrs appends {len(apps)} records in one iteration")
        _, section, rr = apps[0]
        args = call_args(rr, fields)
        if args is None or last_attr_name(rr) != "ResourceRecord" or len(args) != 5:
            raise AnalysisError(f"unpack_rrs appends something that is not ResourceRecord(name, type, class_, ttl, data): {show(rr)}")
        name_v, type_v, class_v, ttl_v, data_v = args
        hdr = type_v[1] if isinstance(type_v, tuple) and type_v[0] == "idx" else None
        hargs = call_args(hdr)
        if hdr is None or hargs is None or not hdr[1].endswith("HEADER.unpack_from") or len(hargs) != 2:
            raise AnalysisError(f"record type does not come from <RR header>.unpack_from(buffer, offset): {show(type_v)}")
        buf_v, hoff_v = hargs
        ok_fields = type_v == ("idx", hdr, C(0)) and class_v == ("idx", hdr, C(1)) and ttl_v == ("idx", hdr, C(2))
        ctx.check(ok_fields, "R26.2", where, "ResourceRecord(type, class_, ttl) <- header fields 0,1,2",
                  f"record built with type={show(type_v)} class={show(class_v)} ttl={show(ttl_v)}: header fields are permuted", desc="type/class/ttl from header fields 0,1,2")
        len_v = ("idx", hdr, C(3))
        preds = [e for e in trace if e[0] == "pred"]
        raw = strip_bytes(data_v)
        # window
        if isinstance(raw, tuple) and raw and raw[0] == "slice":
            base, lo, hi = raw[1], raw[2], raw[3]
            kind = "slice"
        elif isinstance(raw, tuple) and raw and raw[0] == "call":
            callee = raw[1].rsplit(".", 1)[-1]
            params = [x.arg for x in m.func(DN, callee).args.args] if raw[1].startswith("domain_names.") and m.has(DN, callee) else None
            a = call_args(raw, params)
            if a is None or len(a) < 3:
                raise AnalysisError(f"RDATA produced by a call the rule cannot read a window from: {show(raw)}")
            base, lo, hi = a[0], a[1], a[2]
            kind = "rewrite"
        else:
            raise AnalysisError(f"RDATA of unmodelled provenance: {show(raw)}")
        start = lin_add(lo, hoff_v, -1)
        if start == UNKNOWN:
            raise AnalysisError(f"RDATA window start is not linear in the header offset: {show(lo)}")
        ok_window = same(base, buf_v) and start == lin_add(sym("ResourceRecord.HEADER.size"), C(0)) and same(hi, lin_add(lo, len_v))
        ctx.check(ok_window, "R26.2", where, f"RDATA window ({kind})",
                  f"RDATA is taken from {show(base)}[{show(lo)} : {show(hi)}] but the record's data occupies [header offset + HEADER.size, + header length field) "
                  f"= [{show(lin_add(hoff_v, sym('ResourceRecord.HEADER.size')))}, +{show(len_v)})", desc=f"{kind}: window = header end .. + len_data")
        nxt = st.get("nl:offset")
        ctx.check(same(nxt, lin_add(lo, len_v)), "R26.2", where, "offset after the record",
                  f"next record is parsed from {show(nxt)} instead of the end of this record's data", desc=f"{kind}: next record at window end")
        # predicate discipline
        on_type = [p for p in preds if same(p[1], type_v)]
        if kind == "slice":
            seen["slice"] += 1
            bad = [p for p in preds if p[2]]
            ctx.check(len(on_type) == 1 and not bad, "R26.2", where, "raw RDATA slice only when the predicate is False for the record's type",
                      f"RDATA kept as the raw slice on a path where the compression predicate events are {[(show(p[1]), p[2]) for p in preds]}: "
                      "names in name-bearing records keep dangling compression pointers / predicate is not asked about this record's type",
                      desc="raw slice <=> predicate(type) False")
        else:
            seen["rewrite"] += 1
            good = len(on_type) == 1 and on_type[0][2] is True and len(preds) == 1
            ctx.check(good, "R26.2", where, "RDATA rewritten only when the predicate is True for the record's type",
                      f"RDATA is rewritten by {raw[1]} on a path where the compression predicate events are {[(show(p[1]), p[2]) for p in preds]} "
                      f"(record type is {show(type_v)}): opaque record data is rewritten", desc="rewrite <=> predicate(type) True")
            rewriters.append((raw, type_v))
    ctx.require(seen["slice"] >= 1 and seen["rewrite"] >= 1 or ctx.findings, f"unpack_rrs: expected a raw-slice path and a rewriting path, saw {seen}")
    return rewriters


def check_r264(ctx, true_types, rewriters):
    fn = ctx.func(DNS, "DNSMessage.unpack_from.unpack_rrs")
    name_first = sorted(true_types & NAME_FIRST)
    mixed = sorted(true_types & HAS_NON_NAME_FIELDS)
    if not (name_first and mixed):
        ctx.ok("R26.4", "table has no two types with conflicting layouts; a type-agnostic routine is admissible")
        return
    if not rewriters:
        if any(f.rule == "R26.2" for f in ctx.findings):
            ctx.instance("R26.4", "not evaluated: R26.2 reports that predicate-True paths do not rewrite at all")
            return
        raise AnalysisError("R26.4: no rewriting call found on predicate-True paths")
    for raw, type_v in rewriters:
        callee = raw[1].rsplit(".", 1)[-1]
        depends = contains(raw[2], type_v)
        ctx.check(
            depends, "R26.4", (DNS, "DNSMessage.unpack_from.unpack_rrs", fn),
            f"{callee} is applied to RDATA without the record type",
            f"the table is True for name-first layouts {[NAME_BEARING[t] for t in name_first]} and for layouts with integer/opaque fields "
            f"{[NAME_BEARING[t] for t in mixed]}, but {callee} receives only (buffer, window, name cache) and cannot know the type: bytes >= 0xC0 in MX preference, "
            "SRV port (49152..65535), SOA counters are read as compression pointers and replaced (repro: findings/F-C26b/repro.py)",
            desc=f"{callee} receives the record type",
        )


# ---------------------------------------------------------------------------------------------------
# R26.5  the expansion routine evaluated on representative messages

# distinct RDATA layouts of the RFC 3597 s.4 types (RFC 1035 s.3.3, RFC 1183, RFC 2163, RFC 2782, RFC 2915, RFC 2535)
LAYOUTS = {
    "name (NS/CNAME/PTR/MB/MD/MF/MG/MR)": ("name",),
    "name name (MINFO/RP)": ("name", "name"),
    "SOA: mname rname serial refresh retry expire minimum": ("name", "name", "u32", "u32", "u32", "u32", "u32"),
    "u16 name (MX/AFSDB/RT)": ("u16", "name"),
    "PX: preference map822 mapx400": ("u16", "name", "name"),
    "SRV: priority weight port target": ("u16", "u16", "u16", "name"),
    "NAPTR: order preference flags services regexp replacement": ("u16", "u16", "str", "str", "str", "name"),
    "SIG: covered alg labels ttl expiration inception keytag signer signature": ("u16", "u8", "u8", "u32", "u32", "u32", "u16", "name", "opaque"),
    "NXT: next bitmap": ("name", "opaque"),
}
LAYOUT_TYPES = {
    "name (NS/CNAME/PTR/MB/MD/MF/MG/MR)": {2, 3, 4, 5, 7, 8, 9, 12}, "name name (MINFO/RP)": {14, 17},
    "SOA: mname rname serial refresh retry expire minimum": {6}, "u16 name (MX/AFSDB/RT)": {15, 18, 21}, "PX: preference map822 mapx400": {26},
    "SRV: priority weight port target": {33}, "NAPTR: order preference flags services regexp replacement": {35},
    "SIG: covered alg labels ttl expiration inception keytag signer signature": {24}, "NXT: next bitmap": {30},
}
# numeric vectors: every octet < 0xC0 (octets that look like pointers are F-C26b's business), i = index of the field in the layout
VECTORS = {
    "zero": {"u8": lambda i: 0, "u16": lambda i: 0, "u32": lambda i: 0, "str": lambda i: b"", "opaque": lambda i: b"\x00\x00\x00\x00"},
    "typical": {"u8": lambda i: 5, "u16": lambda i: (10, 5, 5222, 20, 1, 100)[i % 6], "u32": lambda i: (3600, 1209600, 300, 2021030405, 7200)[i % 5],
                "str": lambda i: (b"E2U+sip", b"!^.*$!sip:info@example.com!", b"U")[i % 3], "opaque": lambda i: bytes(range(1, 41))},
    "mixed": {"u8": lambda i: 0x11 + i, "u16": lambda i: ((i + 1) << 8) | (2 * i + 3), "u32": lambda i: ((i + 2) << 24) | (0x3F << 16) | ((i + 1) << 8) | (i + 9),
              "str": lambda i: bytes([i + 1, 0x20 + i]), "opaque": lambda i: bytes([7, 0, 3, 0x40, 0x7F, 0xBF, 1, 2, 0x3F, 0x0C])},
}
QNAME_AT = 12


def _wire(labels):
    return b"".join(bytes([len(x)]) + x for x in labels) + b"\x00"


def _ref_name(buf, off, depth=0):
    """reference decoder: (labels, wire length at ``off``)"""
    labels, start = [], off
    while True:
        n = buf[off]
        if n & 0xC0 == 0xC0:
            if depth > 20:
                raise AnalysisError("R26.5: reference decoder met a pointer loop in its own sample")
            tgt = ((n & 0x3F) << 8) | buf[off + 1]
            return labels + _ref_name(buf, tgt, depth + 1)[0], off + 2 - start
        if n == 0:
            return labels, off + 1 - start
        labels.append(bytes(buf[off + 1 : off + 1 + n]))
        off += 1 + n


def _sample_message(layout, vector, forms):
    """-> (message bytes, rdata offset, rdata end, expected expanded RDATA, offsets of the names the parser has seen before)"""
    q = _wire([b"example", b"com"])
    msg = bytearray(b"\x12\x34\x81\x80\x00\x01\x00\x02\x00\x00\x00\x00") + q + b"\x00\x0f\x00\x01"
    com_at = QNAME_AT + 8
    # answer 1: MX 5 alt1.gmail-smtp-in.l.google.<ptr com>
    owner1 = len(msg)
    first = b"\x00\x05" + b"\x04alt1" + b"\x0dgmail-smtp-in" + b"\x01l" + b"\x06google" + bytes([0xC0, com_at])
    msg += b"\x0dxn--bcher-kva" + bytes([0xC0, QNAME_AT]) + struct.pack("!HHIH", 15, 1, 300, len(first))  # owner: an internationalised name
    rdata1 = len(msg)
    msg += first
    suffix_at = rdata1 + 2 + 5  # gmail-smtp-in.l.google.com
    # answer 2: the record under test
    owner2 = len(msg)
    name_forms = {
        "ptr-question": bytes([0xC0, QNAME_AT]),
        "labels+ptr-into-rdata": b"\x04alt2" + bytes([0xC0, suffix_at]),
        "uncompressed": _wire([b"ns", b"example", b"org"]),
        "punycode+ptr": b"\x0dxn--bcher-kva" + bytes([0xC0, QNAME_AT]),
        "labels+ptr-question": b"\x04mail" + bytes([0xC0, QNAME_AT]),
        "ptr-idn-name": bytes([0xC0, owner1]),
        "ptr-root": bytes([0xC0, QNAME_AT + len(q) - 1]),
    }
    fields, k = [], 0
    for i, kind in enumerate(layout):
        if kind == "name":
            fields.append(("name", name_forms[forms[k % len(forms)]]))
            k += 1
        elif kind == "str":
            v = vector["str"](i)
            fields.append(("raw", bytes([len(v)]) + v))
        elif kind == "opaque":
            fields.append(("raw", vector["opaque"](i)))
        else:
            fields.append(("raw", struct.pack({"u8": "!B", "u16": "!H", "u32": "!I"}[kind], vector[kind](i))))
    rdata = b"".join(v for _, v in fields)
    if any(b >= 0xC0 for kind, v in fields if kind == "raw" for b in v):
        raise AnalysisError("R26.5: a sampled non-name field contains an octet >= 0xC0 (that class belongs to R26.4 / F-C26b)")
    msg += bytes([0xC0, QNAME_AT]) + struct.pack("!HHIH", 15, 1, 300, len(rdata))
    off = len(msg)
    msg += rdata
    if suffix_at >= 0xC0 or owner1 >= 0xC0:
        raise AnalysisError("R26.5: sample message grew so far that a pointer's second octet looks like a pointer itself")
    expected, at = b"", off
    for kind, v in fields:
        expected += _wire(_ref_name(msg, at)[0]) if kind == "name" else v
        at += len(v)
    return bytes(msg), off, off + len(rdata), expected, (QNAME_AT, owner1, owner2)


class _ByteInterp(Interp):
    """pyint + item / slice assignment on a bytearray (the only extra construct the DNS name routines need)"""

    def assign(self, target, value, env, mod, depth):
        if isinstance(target, ast.Subscript):
            base = self.ev(target.value, env, mod, depth)
            if isinstance(base, bytearray):
                key = self.ev(target.slice, env, mod, depth)
                try:
                    base[key] = value
                except (IndexError, TypeError, ValueError) as e:
                    raise IRaised(type(e).__name__)
                return
        Interp.assign(self, target, value, env, mod, depth)


def check_r265(ctx, true_types, rewriters):
    m = ctx.model
    callee = "decompress_from_record_data"
    if rewriters:
        names = {raw[1].rsplit(".", 1)[-1] for raw, _ in rewriters if raw[1].startswith("domain_names.")}
        if len(names) == 1:
            callee = names.pop()
    if not m.has(DN, callee):
        if any(f.rule in ("R26.2", "R26.4") for f in ctx.findings):
            ctx.instance("R26.5", "not evaluated: the RDATA expansion routine named by unpack_rrs does not exist (reported by R26.2 / R26.4)")
            return
        raise AnalysisError(f"R26.5: expansion routine {callee} not found in {DN}")
    fn = ctx.func(DN, callee)
    ctx.func(DN, "unpack_from_with_compression")
    params = [a.arg for a in fn.args.args]
    if len(params) != 4 or fn.args.kwonlyargs or fn.args.vararg:
        raise AnalysisError(f"R26.5 models an expansion routine called as (buffer, start, end, name cache); {callee}{tuple(params)} is something else "
                            "(a layout-aware routine needs a new rule)")
    where = (DN, callee, fn)
    thorough = ctx.tier == "thorough"
    form_sets = [("ptr-question", "labels+ptr-into-rdata"), ("labels+ptr-into-rdata", "ptr-question"), ("uncompressed", "labels+ptr-question"), ("punycode+ptr", "labels+ptr-into-rdata")]
    # a pointer to an internationalised name followed by a second pointer: sampled in the SOA layout (zone = IDN), names 1 and 2
    idn_forms = ("ptr-idn-name", "labels+ptr-question")
    root_forms = ("ptr-root", "labels+ptr-question")
    n = 0
    for lname, layout in LAYOUTS.items():
        if not (LAYOUT_TYPES[lname] & true_types):
            continue
        reported = set()
        numeric = any(k != "name" for k in layout)
        for vname, vector in VECTORS.items():
            if not thorough and (vname == "zero" or (vname == "mixed" and not numeric)):
                continue
            for forms in form_sets + ([idn_forms, root_forms] if lname.startswith("SOA") and vname == "typical" else []):
                buf, lo, hi, expected, seen = _sample_message(layout, vector, forms)
                for warm in (False, True):
                    if warm and not thorough and forms is not form_sets[0]:
                        continue
                    it = _ByteInterp(m, trusted_modules={"struct": struct}, max_steps=60000)
                    cache: dict = {}
                    try:
                        if warm:
                            for o in seen:
                                it.call(DN, "unpack_from_with_compression", buf, o, cache)
                        got = it.call(DN, callee, buf, lo, hi, cache)
                    except IRaised as e:
                        got = f"raises {e.name}"
                    n += 1
                    ctx.cells += 1
                    ok = isinstance(got, (bytes, bytearray)) and bytes(got) == expected
                    group = "idn" if forms is idn_forms else "root" if forms is root_forms else "plain"
                    if ok or group in reported:
                        continue
                    reported.add(group)
                    nforms = [f for f, k in zip(forms * 2, [k for k in layout if k == "name"])]
                    shown = got.hex(" ") if isinstance(got, (bytes, bytearray)) else got
                    ctx.fail("R26.5", where, f"{callee} on {lname.split(':')[0].split(' (')[0]} RDATA, {vname} numeric fields, names {'/'.join(nforms)}",
                             f"RDATA {buf[lo:hi].hex(' ')} (message offset {lo}, {'warm' if warm else 'empty'} name cache) is rewritten to {shown}; every name expanded and everything else "
                             f"unchanged is {expected.hex(' ')}: the record is forwarded with a different meaning",
                             message=buf.hex(), window=[lo, hi], got=shown, expected=expected.hex())
        if not reported:
            ctx.instance("R26.5", f"{lname}: all samples expand exactly the names")
    ctx.note(f"R26.5 interpreted {callee} on {n} sample records")
    if not any(f.rule == "R26.1" for f in ctx.findings):  # a table that lost its types is R26.1's verdict
        ctx.require(n >= 20, f"R26.5 evaluated only {n} samples")


# ---------------------------------------------------------------------------------------------------


def check_r263(ctx):
    m = ctx.model
    # (a)/(b) handlers
    for qual, attr, conn, hook in (
        ("DNSLayer.handle_request", "request", "self.context.server", "DnsRequestHook"),
        ("DNSLayer.handle_response", "response", "self.context.client", "DnsResponseHook"),
    ):
        fn = ctx.func(LAYER, qual)
        params = [a.arg for a in fn.args.args]
        ctx.require(params[:3] == ["self", "flow", "msg"], f"{qual} signature changed: {params}")
        traces, eng = traces_of(fn, SendSpec())
        ctx.paths += len(traces)
        n = 0
        for trace, how, st in traces:
            for i, e in enumerate(trace):
                if e[0] != "send":
                    continue
                n += 1
                if e[1] != sym(conn):
                    continue  # sends to the other side (none today) are not this clause
                pay = e[2]
                args = call_args(pay)
                if args is None or last_attr_name(pay) != "pack_message" or len(args) < 1:
                    raise AnalysisError(f"{qual}: payload sent to {conn} is not pack_message(<message>, ..): {show(pay)}")
                x = args[0]
                hooked_before = any(t == ("hook", hook) for t in trace[:i])
                ok = unhook(x) == sym("msg") and (x == sym("msg") or hooked_before)
                ctx.check(ok and hooked_before, "R26.3", (LAYER, qual, fn), f"SendData({conn}, pack_message(flow.{attr}, ..))",
                          f"{qual} sends pack_message({show(x)}) to {conn}: not the message that was unpacked and stored in flow.{attr} (after {hook})",
                          desc=f"{qual}: packs the unpacked message after {hook}")
        ctx.require(n >= 1, f"{qual}: no SendData found")
    # (c) state_query hands over the unpacked elements
    sq = ctx.func(LAYER, "DNSLayer.state_query")
    spec = SendSpec(loop_vars=SymSpec.loop_vars_of(sq))
    traces, eng = traces_of(sq, spec)
    ctx.paths += len(traces)
    subs = {}
    for trace, how, st in traces:
        for e in trace:
            if e[0] == "sub" and e[1] in ("self.handle_request", "self.handle_response"):
                subs.setdefault(e[1], set()).add(e[2])
    for name in ("self.handle_request", "self.handle_response"):
        ctx.require(subs.get(name), f"state_query no longer delegates to {name}")
        for args in subs[name]:
            ok = False
            if len(args) == 2 and isinstance(args[1], tuple) and args[1][0] == "elem":
                src = args[1][1]
                a = call_args(src)
                ok = a is not None and src[1] == "self.unpack_message" and len(a) >= 1 and a[0] == sym("event.data")
            ctx.check(ok, "R26.3", (LAYER, "DNSLayer.state_query", sq), f"{name}(flow, <element of unpack_message(event.data, ..)>)",
                      f"state_query passes {show(args[1]) if len(args) > 1 else args} to {name}: not a message unpacked from the received bytes",
                      desc=f"{name} receives each element of unpack_message(event.data)")
    # (d) framing formats
    pm = ctx.func(LAYER, "pack_message")
    ctx.require([a.arg for a in pm.args.args] == ["message", "transport_protocol"], "pack_message signature changed")
    traces, eng = traces_of(pm, SymSpec(pure=("len",)))
    label = m.const(LAYER, "_LENGTH_LABEL")
    ctx.require(isinstance(label, ast.Call) and last_attr(label.func) == "Struct" and label.args and isinstance(label.args[0], ast.Constant),
                "_LENGTH_LABEL is no struct.Struct(<literal>) any more")
    fmt_in = label.args[0].value
    ctx.check(fmt_in in ("!H", ">H"), "R26.3", (LAYER, "<module>", label), f"_LENGTH_LABEL = Struct({fmt_in!r})",
              "DNS over TCP uses a 2-byte big-endian length prefix (RFC 1035 4.2.2)", desc="reader: 2-byte big-endian length")
    P = sym("message.packed")
    rets = {}
    for trace, how, st in traces:
        ctx.require(how == "return", f"pack_message can {how}")
        conds = [e for e in trace if e[0] == "cond"]
        rets[tuple((c[1], c[2]) for c in conds)] = st.get("$ret")
    tcp = [v for k, v in rets.items() if any("tcp" in c and t for c, t in k)]
    other = [v for k, v in rets.items() if not any("tcp" in c and t for c, t in k)]
    ctx.require(len(tcp) == 1 and len(other) >= 1, f"pack_message paths not understood: {rets}")
    for v in other:
        ctx.check(v == P, "R26.3", (LAYER, "pack_message", pm), "datagram payload == message.packed", f"non-TCP payload is {show(v)}", desc="udp: message.packed")
    v = tcp[0]
    ok = False
    if isinstance(v, tuple) and v[0] == "add" and v[2] == P:
        a = call_args(v[1])
        ok = a is not None and v[1][1] == "struct.pack" and len(a) == 2 and is_const(a[0]) and a[0][1] in ("!H", ">H") and a[1] == ("len", P)
    ctx.check(ok, "R26.3", (LAYER, "pack_message", pm), "tcp payload == struct.pack('!H', len(packed)) + packed",
              f"TCP payload is {show(v)}: the length prefix must be the 2-byte big-endian length of exactly the bytes that follow (reader uses {fmt_in!r})",
              desc="tcp: 2-byte big-endian len(packed) + packed")
    # (e) packed(): rr.data verbatim, sections in wire order
    pk = ctx.func(DNS, "DNSMessage.packed")
    loops = [n for n in walk_in_order(pk) if isinstance(n, ast.For) and "answers" in ast.unparse(n.iter)]
    ctx.require(len(loops) == 1 and isinstance(loops[0].target, ast.Name), "DNSMessage.packed: the record loop changed shape")
    loop = loops[0]
    it = loop.iter
    order = None
    if isinstance(it, ast.Tuple) and all(isinstance(e, ast.Starred) for e in it.elts):
        order = [attr_chain(e.value) for e in it.elts]
    elif isinstance(it, ast.Call) and last_attr(it.func) == "chain":
        order = [attr_chain(e) for e in it.args]
    ctx.require(order is not None, f"DNSMessage.packed: record iteration not understood: {norm(it)}")
    ctx.check(order == ["self.answers", "self.authorities", "self.additionals"], "R26.3", (DNS, "DNSMessage.packed", loop), "record sections in wire order",
              f"records are emitted in the order {order}; the header counts say answers, authorities, additionals", desc="sections emitted in wire order")
    rrname = loop.target.id
    body_fn = ast.parse("def _body():\n    pass\n").body[0]
    body_fn.body = loop.body
    bspec = SendSpec()
    traces, eng = traces_of(body_fn, bspec)
    RR = ("elem", bspec.value(loop.iter, State(), 0))  # "an element of the iterated sections"
    for trace, how, st in traces:
        ext = [e[2] for e in trace if e[0] == "extend"]
        datas = [i for i, x in enumerate(ext) if contains(x, attr_of(RR, "data")) and last_attr_name(x) != "ResourceRecord.HEADER.pack" and not (isinstance(x, tuple) and x[0] == "call")]
        hdrs = [i for i, x in enumerate(ext) if isinstance(x, tuple) and x[0] == "call" and x[1].endswith("HEADER.pack")]
        ctx.require(len(hdrs) == 1, f"DNSMessage.packed: {len(hdrs)} header packs per record")
        h = call_args(ext[hdrs[0]])
        ok = (
            h is not None and len(h) == 4 and h[0] == attr_of(RR, "type") and h[1] == attr_of(RR, "class_") and h[2] == attr_of(RR, "ttl")
            and h[3] == ("len", attr_of(RR, "data")) and datas == [hdrs[0] + 1] and ext[datas[0]] == attr_of(RR, "data")
        )
        ctx.check(ok, "R26.3", (DNS, "DNSMessage.packed", loop), "header(type, class_, ttl, len(rr.data)) followed by rr.data",
                  f"a record is emitted as {[show(x) for x in ext]}: RDATA must follow its header verbatim with its own length", desc="packed(): rr.data verbatim after its header")


def check(ctx):
    ctx.rule("R26.1", "compression predicate True only for RR types whose RDATA is defined to contain domain names (finite evaluation)")
    ctx.rule("R26.2", "unpack_rrs: raw wire slice <=> predicate(type) False; rewriting on exactly that window <=> True; offsets consistent")
    ctx.rule("R26.3", "DNSLayer repacks the unpacked message object; framing formats agree; packed() emits rr.data verbatim")
    ctx.rule("R26.5", "the RDATA expansion routine, interpreted on representative records of every layout in the table, expands exactly the names and leaves every other octet alone")
    ctx.rule("R26.4", "RDATA name expansion must depend on the record type when the table mixes name-first and integer-first layouts")
    ctx.trust("struct pack/unpack, bytes.decode('idna')")
    rewriters = check_r262(ctx)
    type_aware = bool(rewriters) and all(contains(raw[2], type_v) for raw, type_v in rewriters)
    true_types = check_r261(ctx, type_aware)
    check_r263(ctx)
    check_r264(ctx, true_types, rewriters)
    check_r265(ctx, true_types, rewriters)
    for rule, n in (("R26.1", 19 + 12), ("R26.2", 8), ("R26.3", 10), ("R26.4", 1), ("R26.5", 9)):
        if not any(f.rule == rule for f in ctx.findings):  # a violated rule has its verdict; counts guard against vacuous passes
            ctx.expect_instances(rule, n)


MUTANTS = [
    # R26.1 (first two = reverse of the F-C26 repair)
    Mutant("txt-compressible-again", DN, "        types.SOA,\n", "        types.SOA,\n        types.TXT,\n", "R26.1"),
    Mutant("hinfo-compressible-again", DN, "        types.CNAME,\n", "        types.CNAME,\n        types.HINFO,\n", "R26.1"),
    Mutant("unknown-types-compressible", DN, "        return True\n    return False\n", "        return True\n    return record_type >= 256\n", "R26.1"),
    # seed C26a and its class: later types that embed a name which MUST NOT be compressed (RFC 3597 s.4) / table rows lost
    Mutant("rrsig-nsec-scanned-for-pointers", DN, "        types.SRV,\n    ):", "        types.SRV,\n        types.RRSIG,\n        types.NSEC,\n    ):", "R26.1"),
    Mutant("dname-kx-scanned-for-pointers", DN, "        types.SRV,\n    ):", "        types.SRV,\n        types.KX,\n        types.DNAME,\n    ):", "R26.1"),
    Mutant("https-svcb-scanned-for-pointers", DN, "        return True\n    return False\n", "        return True\n    return record_type in (types.HTTPS, types.SVCB)\n", "R26.1"),
    Mutant("mx-no-longer-expanded", DN, "        types.MX,\n", "", "R26.1"),
    Mutant("srv-no-longer-expanded", DN, "        types.SRV,\n", "", "R26.1"),
    Mutant("table-negated", DN, "    if record_type in (\n        types.CNAME,", "    if record_type not in (\n        types.CNAME,", "R26.1"),
    # R26.2
    Mutant("rdata-always-rewritten", DNS, "                    if domain_names.record_data_can_have_compression(type):\n", "                    if True:\n", "R26.2"),
    Mutant("predicate-inverted", DNS, "                    if domain_names.record_data_can_have_compression(type):\n", "                    if not domain_names.record_data_can_have_compression(type):\n", "R26.2"),
    Mutant("predicate-asks-class", DNS, "domain_names.record_data_can_have_compression(type)", "domain_names.record_data_can_have_compression(class_)", "R26.2"),
    Mutant("rdata-slice-one-short", DNS, "                    data = buffer[offset:end_data]\n", "                    data = buffer[offset : end_data - 1]\n", "R26.2"),
    Mutant("rdata-window-includes-header", DNS, "                    offset += ResourceRecord.HEADER.size\n                    end_data = offset + len_data\n",
           "                    end_data = offset + len_data\n", "R26.2"),
    Mutant("never-decompress", DNS, "                        data = domain_names.decompress_from_record_data(\n                            buffer, offset, end_data, cached_names\n                        )\n",
           "                        pass\n", "R26.2"),
    # R26.3
    Mutant("response-echoes-query", LAYER, "packed = pack_message(flow.response, flow.client_conn.transport_protocol)", "packed = pack_message(flow.request, flow.client_conn.transport_protocol)", "R26.3"),
    Mutant("request-sent-before-hook", LAYER, "        flow.request = msg  # if already set, continue and query upstream again\n        yield DnsRequestHook(flow)\n",
           "        flow.request = msg  # if already set, continue and query upstream again\n", "R26.3"),
    Mutant("query-loop-first-only", LAYER, "                        yield from self.handle_response(flow, msg)\n", "                        yield from self.handle_response(flow, msgs[0])\n", "R26.3"),
    Mutant("length-prefix-little-endian", LAYER, 'return struct.pack("!H", len(packed)) + packed', 'return struct.pack("<H", len(packed)) + packed', "R26.3"),
    Mutant("length-prefix-counts-itself", LAYER, 'return struct.pack("!H", len(packed)) + packed', 'return struct.pack("!H", len(packed) + 2) + packed', "R26.3"),
    Mutant("packed-truncates-rdata", DNS, "            data.extend(rr.data)\n", "            data.extend(rr.data[:255])\n", "R26.3"),
    Mutant("packed-sections-swapped", DNS, "for rr in (*self.answers, *self.authorities, *self.additionals):", "for rr in (*self.authorities, *self.answers, *self.additionals):", "R26.3"),
    # R26.5 (first = reverse of the F-C26c repair, second = seed C26b)
    Mutant("F-C26c-reverted", DN, "                decompress_size += len(packed_name) - rr_name_len\n", "                decompress_size += len(rr_name)\n", "R26.5"),
    Mutant("scan-jumps-over-label-lengths", DN, "                pass\n        data_offset += 1\n    return bytes(data)",
           "                pass\n        elif buffer[offset + data_offset] < 64:\n            data_offset += buffer[offset + data_offset]\n        data_offset += 1\n    return bytes(data)", "R26.5"),
    Mutant("scan-stops-two-octets-early", DN, "    while data_offset < end_data - offset:\n", "    while data_offset < end_data - offset - 2:\n", "R26.5"),
    Mutant("splice-keeps-second-pointer-octet", DN, "                    + rr_name_len\n                ] = packed_name\n", "                    + 1\n                ] = packed_name\n", "R26.5"),
    # R26.4 (fires on the unrepaired tree with a known key; the mutant models a renamed / rewritten routine that still is type-agnostic)
    Mutant("renamed-scan-still-type-agnostic", DNS, "data = domain_names.decompress_from_record_data(\n", "data = domain_names.expand_pointers_in_record_data(\n", "R26.4"),
]
